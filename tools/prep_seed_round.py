#!/usr/bin/env python3
"""Prepare a round of seeded-change requests: one scratch worktree of /repo per property under <dir>, the property text
next to it, and the prompt for a fresh sub-agent (tools/seed_prompt.txt with the summaries of every earlier seed of that
property, so that the new change has to use another mechanism).  Nothing from /verif other than the property text and
those one-line summaries goes into the prompt.
usage: tools/prep_seed_round.py <round> <dir> [ids...]        -> <dir>/<id>.prompt.txt
       tools/prep_seed_round.py --collect <round> <dir> [ids...]   copies <dir>/<id>-out/* to seeded/<id>-<round>/
       tools/prep_seed_round.py --drop <dir> [ids...]          removes the worktrees"""
import json, os, re, shutil, subprocess, sys

V = os.path.dirname(os.path.dirname(os.path.abspath(__file__)))


def props():
    return {p["id"]: p for p in (json.loads(l) for l in open(V + "/properties.jsonl"))}


def earlier(pid):
    out = []
    for d in sorted(os.listdir(V + "/seeded")):
        if d == pid or d.startswith(pid + "-"):
            for f in ("agent_meta.json", "meta.json"):
                p = "%s/seeded/%s/%s" % (V, d, f)
                if os.path.exists(p):
                    m = json.load(open(p))
                    s = m.get("summary") or m.get("change") or m.get("what") or ""
                    if s:
                        out.append(re.sub(r"\s+", " ", s)[:420])
                        break
    return out


def main():
    a = sys.argv[1:]
    if a[0] == "--drop":
        d = a[1]
        for pid in a[2:] or sorted(props()):
            subprocess.run(["git", "-C", "/repo", "worktree", "remove", "--force", "%s/%s" % (d, pid)])
            shutil.rmtree("%s/%s-out" % (d, pid), ignore_errors=True)
        subprocess.run(["git", "-C", "/repo", "worktree", "prune"])
        return 0
    if a[0] == "--collect":
        rnd, d = a[1], a[2]
        for pid in a[3:] or sorted(props()):
            src = "%s/%s-out" % (d, pid)
            if not os.path.exists(src + "/patch.diff"):
                print(pid, "no patch.diff")
                continue
            dst = "%s/seeded/%s-%s" % (V, pid, rnd)
            os.makedirs(dst, exist_ok=True)
            for f in os.listdir(src):
                p = os.path.join(src, f)
                if os.path.isfile(p) and os.path.getsize(p) < 200000:
                    shutil.copy(p, os.path.join(dst, "agent_meta.json" if f == "meta.json" else f))
            print(pid, "->", dst)
        return 0
    rnd, d = a[0], a[1]
    os.makedirs(d, exist_ok=True)
    tmpl = open(V + "/tools/seed_prompt.txt").read()
    P = props()
    for pid in a[2:] or sorted(P):
        p = P[pid]
        wt = "%s/%s" % (d, pid)
        if not os.path.exists(wt):
            subprocess.run(["git", "-C", "/repo", "worktree", "add", "--detach", wt, "HEAD"], check=True, stdout=subprocess.DEVNULL)
        os.makedirs(wt + "-out", exist_ok=True)
        text = "%s: %s\n\n%s\n\nQuantifier: %s\n\nCode anchors: %s\n" % (
            pid, p["title"], p["statement"], p["quantifier"]["text"], json.dumps(p.get("anchors")))
        open("%s/%s.property.txt" % (d, pid), "w").write(text)
        prev = earlier(pid)
        extra = ""
        if prev:
            extra = ("\nOther engineers have ALREADY made the following changes for this property; yours must use a DIFFERENT mechanism, in "
                     "different code, and preferably attack a clause of the property text or a part of its quantifier that none of them "
                     "touches (look for code paths that only unusual configurations reach):\n" +
                     "".join("  - %s\n" % s for s in prev) + "\n")
        open("%s/%s.prompt.txt" % (d, pid), "w").write(
            tmpl.replace("@DIR@", d).replace("@ID@", pid).replace("@PROP@", text).replace("@EXTRA@", extra))
        print(pid, "prepared,", len(prev), "earlier summaries")
    return 0


if __name__ == "__main__":
    sys.exit(main())
