#!/usr/bin/env python3
"""Regenerates /verif/MANIFEST.json from the table below (kept valid at all times)."""
import json, os, subprocess, sys

HERE = os.path.dirname(os.path.dirname(os.path.abspath(__file__)))

sys.path.insert(0, HERE)
import importlib  # noqa: E402

CHECKS = {}
for f in sorted(os.listdir(os.path.join(HERE, "vlib", "checks"))):
    if f.startswith("c") and f.endswith(".py") and f[1:3].isdigit():
        mod = importlib.import_module("vlib.checks." + f[:-3])
        if hasattr(mod, "MANIFEST"):
            d = mod.MANIFEST
            CHECKS[f[:-3].upper()] = (d["engine"], d["category"], d["technique"], d["text"], d["note"], d["ref"])

NOT_YET = "check not built yet at this commit (implementation in progress, see DESIGN.md §5)"


def main():
    props = [json.loads(l)["id"] for l in open(os.path.join(HERE, "properties.jsonl"))]
    hooks_commits = []
    hc = os.path.join(HERE, "tools", "hook_commits.txt")
    if os.path.exists(hc):
        hooks_commits = [l.split()[0] for l in open(hc) if l.strip()]
    na_file = os.path.join(HERE, "tools", "not_applicable.json")
    na_reasons = json.load(open(na_file)) if os.path.exists(na_file) else {}
    checks = []
    for pid in props:
        if pid not in CHECKS:
            continue
        eng, cat, tech, text, note, ref = CHECKS[pid]
        checks.append({
            "property_id": pid,
            "quick_cmd": "python3 check %s --tier quick" % pid,
            "thorough_cmd": "python3 check %s --tier thorough" % pid,
            "evidence_file": "/verif/evidence/%s.json" % pid,
            "replay_cmd_template": "python3 check %s --replay {path}" % pid,
            "engine": eng,
            "level_claimed": {"category": cat, "text": text, "design_ref": ref},
            "level_note": note,
            "technique": tech,
        })
    m = {
        "version": 1,
        "setup_cmd": "python3 check --setup",
        "hooks": {
            "guard": "NINJA_VERIF",
            "enable": "checks compile /repo/src/*.cc themselves with clang++ -DNINJA_VERIF=1 "
                      "-fsanitize=address,undefined (vlib/build.py); the cmake build never defines it",
            "baseline_off_cmd": "cmake --build /repo/_build && ctest --test-dir /repo/_build -j8 --timeout 900",
            "source_commits": hooks_commits,
            "add_only": True,
        },
        "engines": [
            {"name": "nprobe", "path": "/verif/harness/nprobe.cc", "serves_properties": ["C08", "C09", "C12", "C14", "C15", "C16"],
             "kind_free_text": "function-level differential probes of the real code under ASan+UBSan"},
            {"name": "nsim", "path": "/verif/harness/nsim.cc",
             "serves_properties": ["C01", "C02", "C03", "C04", "C05", "C06", "C07", "C10", "C11", "C17", "C18", "C20"],
             "kind_free_text": "in-process build simulator: real parser/scan/plan/builder/logs, virtual disk, scripted command runner with controlled completion order; offline trace checkers"},
            {"name": "e2e", "path": "/verif/vlib/e2e.py", "serves_properties": ["C05", "C06", "C07", "C08", "C13", "C16", "C19", "C20"],
             "kind_free_text": "real sanitised ninja binary with real processes, signals, crash-point hooks, jobserver FIFO, pty"},
            {"name": "nfuzz", "path": "/verif/harness/fuzz_targets.cc", "serves_properties": ["C13"],
             "kind_free_text": "libFuzzer + bounded-exhaustive token enumeration under ASan/UBSan"},
        ],
        "checks": checks,
        "not_applicable": [{"property_id": p, "reason": na_reasons.get(p, NOT_YET)}
                           for p in props if p not in CHECKS],
        "notes": "Technique family: runtime monitoring and sanitizers only. See DESIGN.md.",
    }
    with open(os.path.join(HERE, "MANIFEST.json"), "w") as f:
        json.dump(m, f, indent=1)
        f.write("\n")
    try:
        r = subprocess.run(["python3-vt", "-c", "import json,jsonschema,sys;"
                            "jsonschema.validate(json.load(open('%s/MANIFEST.json')),"
                            "json.load(open('/root/.vp/MANIFEST.schema.json')));print('MANIFEST valid')" % HERE])
        return r.returncode
    except OSError:
        return 0


if __name__ == "__main__":
    sys.exit(main())
