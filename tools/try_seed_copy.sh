#!/bin/sh
# usage: tools/try_seed_copy.sh <patch.diff> <check-id> [seeds...]
# like try_seed.sh but leaves /repo alone: patches a scratch copy of /repo's HEAD and points the check at it (VERIF_REPO)
P=$1; C=$2; shift 2
SEEDS=${*:-1 2}
D=$(mktemp -d /tmp/seedcopy.XXXXXX)
git -C /repo archive HEAD | tar -x -C "$D"
( cd "$D" && patch -p1 -s < "$P" ) || { echo "patch does not apply"; rm -rf "$D"; exit 2; }
for s in $SEEDS; do
  VERIF_REPO="$D" python3 /verif/check $C --seed $s 2>&1 | grep -v "^KNOWN" | cut -c1-420 | tail -4
done
rm -rf "$D"
