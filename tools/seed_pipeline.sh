#!/bin/sh
# usage: tools/seed_pipeline.sh <round> <round-dir> <id>...
# one seeded change from a finished sub-agent, end to end: confirm it independently (tools/verify_seed.sh: builds, whole
# existing suite, demonstration fails with / passes without the change), store it as seeded/<id>-<round>/, run the property's
# quick check against a patched scratch copy (tools/run_seeds.py --copy), and remove the scratch worktree.
R=$1; D=$2; shift 2
V=$(cd "$(dirname "$0")/.." && pwd)
for ID in "$@"; do
  line=$(ORIG=${ORIG:-/repo/_build/ninja} sh $V/tools/verify_seed.sh $D $ID)
  echo "$line"
  case "$line" in
    *"suite_rc=0"*"demo_with_change=1,1 demo_without=0,0"*) ;;
    *) echo "$ID NOT CONFIRMED - kept in $D for inspection"; continue ;;
  esac
  python3 $V/tools/prep_seed_round.py --collect $R $D $ID
  echo "$line" > $V/seeded/$ID-$R/verified.txt
  python3 $V/tools/run_seeds.py --copy $ID-$R | grep -v "^KNOWN"
  python3 $V/tools/prep_seed_round.py --drop $D $ID >/dev/null 2>&1
done
