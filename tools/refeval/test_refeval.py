#!/usr/bin/env python3
"""Hand-written cases derived from the manual.  Run: python3 test_refeval.py"""
import os
import sys
sys.path.insert(0, os.path.join(os.path.dirname(os.path.abspath(__file__)), "..", "..", "vlib"))
from refeval import evaluate, Unsure

CC = b'rule cc\n  command = gcc $cflags -c $in -o $out\n'
R = b'rule r\n  command = c $in $out\n'
Q = b'rule r\n  command = c\n'   # no $in/$out, for odd path spellings


def ok(edges=None, pools=None, defaults=None, n=None):
    return ('ok', edges, pools, defaults, n)


def err(kind, line=None, file='build.ninja'):
    return ('err', kind, line, file)


UNSURE = ('unsure',)

# (name, files-or-bytes, expectation)
CASES = [
    # ---- basics (manual "Syntax example", "Variables", "Build statements")
    ('basic', b'cflags = -Wall\n' + CC + b'build foo.o: cc foo.c\n',
     ok([{'outs': ['foo.o'], 'ins': ['foo.c'], 'rule': 'cc', 'command': 'gcc -Wall -c foo.c -o foo.o',
          'pool': '', 'restat': False, 'generator': False, 'description': ''}])),
    ('braces', b'rule r\n  command = x ${in} ${out}\nbuild o: r i\n', ok([{'command': 'x i o'}])),
    ('shadow_build_var', b'cflags = -Wall -Werror\n' + CC +
     b'build foo.o: cc foo.c\nbuild special.o: cc special.c\n  cflags = -Wall\nbuild bar.o: cc bar.c\n',
     ok([{'command': 'gcc -Wall -Werror -c foo.c -o foo.o'}, {'command': 'gcc -Wall -c special.c -o special.o'},
         {'command': 'gcc -Wall -Werror -c bar.c -o bar.o'}])),
    ('late_rule_expansion', b'rule demo\n  command = echo "this is a demo of $foo"\nbuild out: demo\n  foo = bar\n',
     ok([{'command': 'echo "this is a demo of bar"', 'ins': []}])),
    ('undefined_is_empty', b'rule r\n  command = a${nope}b\nbuild o: r\n', ok([{'command': 'ab'}])),
    ('immediate_toplevel', b'a = 1\nb = $a\na = 2\nrule r\n  command = $b\nbuild o: r\n', ok([{'command': '1'}])),
    ('self_ref_var', b'a = 1\na = $a 2\nrule r\n  command = c\n  description = $x\nbuild o: r\n  x = $a\n',
     ok([{'description': '1 2'}])),
    ('build_binding_in_file_scope', b'x = file\nrule r\n  command = $y\nbuild o: r\n  x = local\n  y = $x\n',
     ok([{'command': 'file'}])),
    ('multi_out_in', b'rule r\n  command = c $in > $out\nbuild a b: r c d\n',
     ok([{'outs': ['a', 'b'], 'ins': ['c', 'd'], 'command': 'c c d > a b'}])),
    ('in_newline', b'rule r\n  command = c\n  rspfile = $out.rsp\n  rspfile_content = $in_newline\nbuild o: r a b\n',
     ok([{'rspfile': 'o.rsp', 'rspfile_content': 'a\nb'}])),
    # ---- dependency kinds
    ('dep_kinds', R + b'build a.o | a.d: r a.c | h.h || oo |@ v\nbuild v: r x\n',
     ok([{'outs': ['a.o'], 'iouts': ['a.d'], 'ins': ['a.c'], 'iins': ['h.h'], 'oins': ['oo'], 'vals': ['v'],
          'command': 'c a.c a.o'}, {}])),
    ('only_orderonly', R + b'build a: r || b\n', ok([{'ins': [], 'oins': ['b']}])),
    ('only_validation', R + b'build a: r |@ b\n', ok([{'ins': [], 'vals': ['b']}])),
    ('no_space_before_colon_ok', R + b'build a:r b\n', ok([{'outs': ['a'], 'ins': ['b']}])),
    # ---- escapes
    ('dollar_escapes', b'rule r\n  command = a$$b$ c$:d\nbuild o: r\n', ok([{'command': 'a$b c:d'}])),
    ('path_escapes', b'spaced = foo bar\n' + b'rule r\n  command = c\n' + b'build $spaced/baz other$ file x$:y: r\n',
     ok([{'outs': ['foo bar/baz', 'other file', 'x:y']}])),
    ('continuation_value', b'two = foo $\n    bar\none = foo$\n    bar\nrule r\n  command = [$two][$one]\nbuild o: r\n',
     ok([{'command': '[foo bar][foobar]'}])),
    ('continuation_build', R + b'build o: r a $\n    b $\n  | c\n', ok([{'ins': ['a', 'b'], 'iins': ['c']}])),
    ('simple_var_stops_at_dot', b'x = 1\nx.y = 2\nrule r\n  command = $x.y ${x.y} $x-y\nbuild o: r\n  x-y = 3\n',
     ok([{'command': '1.y 2 3'}])),
    ('bad_escape', b'rule r\n  command = a $! b\nbuild o: r\n', err('bad_escape', 2)),
    ('bad_escape_brace', b'x = ${a\n', err('bad_escape', 1)),
    ('bad_escape_path', R + b'build o$%: r\n', err('bad_escape', 3)),
    ('crlf', b'rule r\r\n  command = c $in\r\nbuild o: r i\r\n', ok([{'command': 'c i'}])),
    ('u_no_final_newline', R + b'build o: r i', UNSURE),
    ('u_trailing_spaces_at_eof', R + b'build o: r i\n   ', UNSURE),
    ('whitespace_only_lines', R + b'   \nbuild o: r i\n  \n   # c\n', ok([{'ins': ['i']}])),
    ('comments_blank', b'# c\n\nrule r\n  # inner\n  command = c # not a comment\n\nbuild o: r\n',
     ok([{'command': 'c # not a comment'}])),
    ('newline_escape', b'ninja_required_version = 1.14\nrule r\n  command = a$^b\nbuild o: r\n', ok([{'command': 'a\nb'}])),
    ('newline_escape_needs_version', b'rule r\n  command = a$^b\nbuild o: r\n', err('bad_escape', 2)),
    ('tab_indent', b'rule r\n\tcommand = c\nbuild o: r\n', err('tab', 2)),
    # ---- lookup order
    ('lookup_order', b'v = file\nrule r\n  command = $v $w\n  description = d\nbuild o: r\n  w = build\n',
     ok([{'command': 'file build', 'description': 'd'}])),
    ('build_overrides_rule', b'rule r\n  command = c\n  description = rule\nbuild o: r\n  description = mine\n',
     ok([{'description': 'mine'}])),
    ('rule_var_refs_rule_var', b'rule r\n  command = c $depfile\n  depfile = $out.d\nbuild o: r\n',
     ok([{'command': 'c o.d', 'depfile': 'o.d'}])),
    ('builtin_beats_build_binding', b'rule r\n  command = c $in\nbuild o: r i\n  in = zzz\n', ok([{'command': 'c i'}])),
    ('file_level_fallback', b'description = global\nrule r\n  command = c\nbuild o: r\n', ok([{'description': 'global'}])),
    ('rule_var_cycle', b'rule r\n  command = $description\n  description = $command\nbuild o: r\n', err('rule_variable_cycle', 4)),
    ('restat_generator', b'rule r\n  command = c\n  restat = 1\n  generator = 1\nbuild o: r\n',
     ok([{'restat': True, 'generator': True}])),
    ('deps_gcc', b'rule r\n  command = c\n  deps = gcc\n  depfile = $out.d\nbuild o: r\n', ok([{'deps': 'gcc', 'depfile': 'o.d'}])),
    # ---- canonicalisation
    ('canon', Q + b'build ./a//b/../c ../x/./y: r /q//w d/../../e\n',
     ok([{'outs': ['a/c', '../x/y'], 'ins': ['/q/w', '../e']}])),
    ('canon_dup', R + b'build a/b: r\nbuild a//b: r\n', err('duplicate_output', 4)),
    # ---- pools
    ('pools', b'pool link_pool\n  depth = 4\nrule link\n  command = l\n  pool = link_pool\n'
     b'build foo.exe: link input.obj\nbuild other.exe: link input.obj\n  pool =\n'
     b'rule cc\n  command = c\nbuild h.obj: cc h.cc\n  pool = link_pool\nbuild con: cc\n  pool = console\n',
     ok([{'pool': 'link_pool'}, {'pool': ''}, {'pool': 'link_pool'}, {'pool': 'console'}], pools={'link_pool': 4})),
    ('pool_depth_var', b'd = 3\npool p\n  depth = $d\n', ok([], pools={'p': 3})),
    ('pool_zero', b'pool p\n  depth = 0\n', ok([], pools={'p': 0})),
    ('unknown_pool', b'rule r\n  command = c\n  pool = nope\nbuild o: r\n', err('unknown_pool', 4)),
    ('dup_pool', b'pool p\n  depth = 1\npool p\n  depth = 2\n', err('duplicate_pool', 3)),
    ('console_redefined', b'pool console\n  depth = 2\n', err('duplicate_pool', 1)),
    ('pool_no_depth', b'pool p\nrule r\n  command = c\n', err('bad_pool', 1)),
    ('pool_neg_depth', b'pool p\n  depth = -1\n', err('bad_pool', 1)),
    ('pool_bad_depth', b'pool p\n  depth = abc\n', err('bad_pool', 1)),
    # ---- rules
    ('unknown_rule', b'build o: nope i\n', err('unknown_rule', 1)),
    ('missing_command', b'rule r\n  description = d\nbuild o: r\n', err('missing_command', 1)),
    ('bad_rule_variable', b'rule r\n  command = c\n  cflags = x\n', err('bad_rule_variable', 3)),
    ('dup_rule', R + R, err('duplicate_rule', 3)),
    ('phony_redefined', b'rule phony\n  command = c\n', err('duplicate_rule', 1)),
    ('rspfile_pair', b'rule r\n  command = c\n  rspfile = x\n', err('rspfile_pair', 1)),
    ('rspfile_pair2', b'rule r\n  command = c\n  rspfile_content = x\n', err('rspfile_pair', 1)),
    ('dup_command', b'rule r\n  command = a\n  command = b\n', err('duplicate_command', 3)),
    # ---- outputs
    ('dup_output_two_edges', R + b'build o: r a\nbuild o: r b\n', err('duplicate_output', 4)),
    ('dup_output_same_edge', R + b'build o o: r a\n', err('duplicate_output', 3)),
    ('dup_output_implicit', R + b'build o | x: r a\nbuild y | x: r\n', err('duplicate_output', 4)),
    # ---- phony
    ('phony', b'build foo: phony some/file/in/a/faraway/subdir/foo\n',
     ok([{'rule': 'phony', 'command': '', 'ins': ['some/file/in/a/faraway/subdir/foo']}])),
    ('phony_no_inputs', b'build foo: phony\n', ok([{'ins': [], 'rule': 'phony'}])),
    ('phony_selfref', b'build a: phony a b | a c || d a\n', ok([{'outs': ['a'], 'ins': ['b'], 'iins': ['c'], 'oins': ['d']}])),
    # ---- default
    ('default', R + b'build foo: r\nbuild bar: r\nbuild baz: r\ndefault foo bar\ndefault baz\n',
     ok(n=3, defaults=['foo', 'bar', 'baz'])),
    ('default_var_canon', Q + b'd = x\nbuild x/foo: r\ndefault ./$d//foo\n', ok(n=1, defaults=['x/foo'])),
    ('default_before_build', R + b'default foo\nbuild foo: r\n', err('unknown_default_target', 3)),
    ('default_unknown', R + b'build foo: r\ndefault nope\n', err('unknown_default_target', 4)),
    ('default_empty', b'default\n', err('syntax', 1)),
    # ---- dyndep
    ('dyndep', R + b'build out: r in || foo\n  dyndep = foo\nbuild foo: r\n', ok([{'dyndep': 'foo'}, {'dyndep': ''}])),
    ('dyndep_canon', Q + b'build out: r in | ./d/../foo\n  dyndep = foo\n', ok([{'dyndep': 'foo', 'iins': ['foo']}])),
    ('dyndep_not_input', R + b'build out: r in\n  dyndep = foo\n', err('dyndep_not_input', 3)),
    ('dyndep_validation_not_input', R + b'build out: r in |@ foo\n  dyndep = foo\n', err('dyndep_not_input', 3)),
    # ---- include / subninja
    ('include_shares_scope', {'build.ninja': b'v = 1\ninclude inc.ninja\nbuild o: r\n',
                              'inc.ninja': b'rule r\n  command = c $v $w\nw = 2\nbuild p: r\n'},
     ok([{'outs': ['p'], 'command': 'c 1 2'}, {'outs': ['o'], 'command': 'c 1 2'}])),
    ('include_var_path', {'build.ninja': b'd = sub\ninclude $d/inc.ninja\n', 'sub/inc.ninja': b'build a: phony\n'}, ok(n=1)),
    ('subninja_scope', {'build.ninja': b'v = outer\nrule r\n  command = c $v\nsubninja s.ninja\nbuild o: r\n',
                        's.ninja': b'v = inner\nbuild p: r\n'},
     ok([{'outs': ['p'], 'command': 'c inner'}, {'outs': ['o'], 'command': 'c outer'}])),
    ('subninja_rule_hidden', {'build.ninja': b'subninja s.ninja\nbuild o: r\n', 's.ninja': b'rule r\n  command = c\nbuild p: r\n'},
     err('unknown_rule', 2)),
    ('subninja_rule_shadow', {'build.ninja': b'rule r\n  command = outer\nsubninja s.ninja\nbuild o: r\n',
                              's.ninja': b'rule r\n  command = inner\nbuild p: r\n'},
     ok([{'command': 'inner'}, {'command': 'outer'}])),
    ('include_dup_rule', {'build.ninja': b'rule r\n  command = a\ninclude i.ninja\n', 'i.ninja': b'rule r\n  command = b\n'},
     err('duplicate_rule', 1, 'i.ninja')),
    ('subninja_sees_parent_var_immediately', {'build.ninja': b'v = 1\nsubninja s.ninja\n',
                                              's.ninja': b'w = $v\nrule r\n  command = $w\nbuild o: r\n'},
     ok([{'command': '1'}])),
    ('missing_include', b'include nope.ninja\n', err('missing_include', 1)),
    ('missing_subninja', b'\nsubninja nope.ninja\n', err('missing_include', 2)),
    ('error_in_included_file', {'build.ninja': b'include i.ninja\n', 'i.ninja': b'\n\nbuild o: nope\n'},
     err('unknown_rule', 3, 'i.ninja')),
    # ---- syntax errors
    ('syntax_no_colon', R + b'build o r i\n', err('syntax', 3)),
    ('syntax_no_rule_name', R + b'build o:\n', err('syntax', 3)),
    ('syntax_no_outputs', R + b'build : r\n', err('syntax', 3)),
    ('syntax_no_equals', b'foo bar\n', err('syntax', 1)),
    ('syntax_rule_extra', b'rule a b\n  command = c\n', err('syntax', 1)),
    ('syntax_binding_no_equals', b'rule r\n  command c\n', err('syntax', 2)),
    ('syntax_start_char', b'= 3\n', err('syntax', 1)),
    ('syntax_include_two', {'build.ninja': b'include a b\n', 'a': b'', 'b': b''}, err('syntax', 1)),
    # ---- things the manual does not settle: Unsure
    ('u_redefine_after_use', b'v = 1\nrule r\n  command = $v\nbuild o: r\nv = 2\n', UNSURE),
    ('u_parent_changes_after_subninja', {'build.ninja': b'v = 1\nrule r\n  command = $v\nsubninja s.ninja\nv = 2\n',
                                         's.ninja': b'build o: r\n'}, UNSURE),
    ('u_rule_after_use', b'build o: r\nrule r\n  command = c\n', UNSURE),
    ('u_pool_after_use', b'rule r\n  command = c\n  pool = p\nbuild o: r\npool p\n  depth = 1\n', UNSURE),
    ('u_trailing_space', b'rule r\n  command = c \nbuild o: r\n', UNSURE),
    ('u_pipe_attached', R + b'build o: r a|b\n', UNSURE),
    ('u_special_char_in', R + b'build o: r a$ b\n', UNSURE),
    ('u_noncanonical_in', R + b'build o: r ./a\n', UNSURE),
    ('u_empty_path', R + b'build $nope: r\n', UNSURE),
    ('u_blank_line_in_block', b'rule r\n  command = c\n\n  description = d\nbuild o: r\n', UNSURE),
    ('u_path_var_rebound', b'x = f\n' + Q + b'build $x: r\n  x = g\n', UNSURE),
    ('u_in_in_path', Q + b'build o: r a $in\n', UNSURE),
    ('path_var_not_rebound', b'x = f\n' + Q + b'build $x: r\n  y = g\n', ok([{'outs': ['f']}])),
    ('default_input_only_is_error', R + b'build o: r i\ndefault i\n', err('unknown_default_target', 4)),
    ('comment_between_bindings', b'rule r\n  command = c\n  # x\n# y\n  description = d\nbuild o: r\n', ok([{'description': 'd'}])),
    ('blank_line_ends_block', b'rule r\n  command = c\n\nbuild o: r\n\n\ndefault o\n', ok(n=1, defaults=['o'])),
    ('u_empty_command', b'rule r\n  command =\nbuild o: r\n', UNSURE),
    ('u_nonascii_name', b'\xe9 = 1\n', UNSURE),
    ('nonascii_value', b'x = \xe9\xff\nrule r\n  command = $x\nbuild \xfc: r\n', ok([{'command': '\xe9\xff', 'outs': ['\xfc']}])),
    ('u_nearer_rule_later', {'build.ninja': b'rule r\n  command = top\nsubninja a.ninja\n',
                             'a.ninja': b'build y: r\nrule r\n  command = a\n'}, UNSURE),
    ('u_lone_cr', b'a = 1\rb = 2\n', UNSURE),
    ('u_keyword_var', b'build = 3\n', UNSURE),
    ('u_indented_toplevel', b'  a = 1\n', UNSURE),
    ('u_colon_in_inputs', R + b'build o: r a:b\n', UNSURE),
    ('u_order_of_lists', R + b'build o: r || a | b\n', UNSURE),
    ('u_deps_other', b'rule r\n  command = c\n  deps = foo\nbuild o: r\n', UNSURE),
    ('u_restat_empty', b'rule r\n  command = c\n  restat =\nbuild o: r\n', UNSURE),
    ('u_phony_command', b'command = x\nbuild o: phony\n', UNSURE),
    ('u_backslash', R + b'build a\\b: r\n', UNSURE),
    ('u_recursive_include', {'build.ninja': b'include build.ninja\n'}, UNSURE),
    ('u_tab_separator', R + b'build o:\tr\n', UNSURE),
]


def files_of(f):
    return f if isinstance(f, dict) else {'build.ninja': f}


def check(name, files, exp):
    try:
        r = evaluate(files_of(files))
    except Unsure as u:
        assert exp[0] == 'unsure', '%s: unexpected Unsure(%s)' % (name, u)
        return
    assert exp[0] != 'unsure', '%s: expected Unsure, got %r' % (name, r)
    if exp[0] == 'err':
        assert not r['ok'], '%s: expected error %s, got ok' % (name, exp[1])
        assert r['error_kind'] == exp[1], '%s: kind %r != %r (%s)' % (name, r['error_kind'], exp[1], r['message'])
        if exp[2] is not None:
            assert r['line'] == exp[2], '%s: line %r != %r' % (name, r['line'], exp[2])
        assert r['file'] == exp[3], '%s: file %r' % (name, r['file'])
        return
    assert r['ok'], '%s: expected ok, got %r' % (name, r)
    _, edges, pools, defaults, n = exp
    if n is not None:
        assert len(r['edges']) == n, '%s: %d edges' % (name, len(r['edges']))
    if edges is not None:
        assert len(edges) == len(r['edges']), '%s: edge count %d' % (name, len(r['edges']))
        for want, got in zip(edges, r['edges']):
            for k, v in want.items():
                assert got[k] == v, '%s: edge %r: %s = %r, want %r' % (name, got['outs'], k, got[k], v)
    assert r['pools'] == (pools or {}), '%s: pools %r' % (name, r['pools'])
    assert r['defaults'] == (defaults or []), '%s: defaults %r' % (name, r['defaults'])
    for e in r['edges']:
        assert set(e) == {'outs', 'iouts', 'ins', 'iins', 'oins', 'vals', 'rule', 'pool', 'command', 'description',
                          'depfile', 'rspfile', 'rspfile_content', 'deps', 'dyndep', 'restat', 'generator'}, name


def robustness():
    """evaluate never raises anything but Unsure."""
    import random
    rnd = random.Random(1)
    toks = [b'build ', b'rule ', b'r', b' ', b':', b'|', b'||', b'|@', b'\n', b'  ', b'$', b'${', b'}', b'=', b'a', b'b',
            b'command', b'pool ', b'depth', b'default ', b'include ', b'subninja ', b'x.ninja', b'\t', b'\r\n', b'#',
            b'phony', b'$\n', b'/', b'..', b'.', b'1', b'\xff', b'$in', b'$out', b'dyndep', b'restat', b'\0', b'$^']
    for i in range(4000):
        src = b''.join(rnd.choice(toks) for _ in range(rnd.randint(1, 30)))
        fs = {'build.ninja': src, 'x.ninja': b''.join(rnd.choice(toks) for _ in range(rnd.randint(0, 10)))}
        try:
            r = evaluate(fs)
            assert isinstance(r, dict) and 'ok' in r
        except Unsure:
            pass


if __name__ == '__main__':
    names = [c[0] for c in CASES]
    assert len(names) == len(set(names)), 'duplicate case names'
    for name, files, exp in CASES:
        check(name, files, exp)
    robustness()
    print('OK (%d cases)' % len(CASES))
