#!/usr/bin/env python3
"""Apply every seeded change under /verif/seeded/<id>/ to /repo in turn, run the check of its property (quick tier,
seeds 1..3 until one fires), revert, and write what was observed into seeded/<id>/meta.json and seeded/RESULTS.md.
usage: tools/run_seeds.py [ids...] [--also C03,C05]      (must not run concurrently with other checks: /repo is patched)
       tools/run_seeds.py --copy [ids...]   patches a scratch copy of /repo's HEAD instead (VERIF_REPO), evidence of those runs goes to a
                                            scratch directory: several of these may run side by side, /repo and evidence/ stay untouched"""
import json, os, re, shutil, subprocess, sys, tempfile, time

V = os.path.dirname(os.path.dirname(os.path.abspath(__file__)))
REPO = os.environ.get("VERIF_REPO", "/repo")


def sh(cmd, **kw):
    return subprocess.run(cmd, shell=True, stdout=subprocess.PIPE, stderr=subprocess.STDOUT, text=True, **kw)


def main():
    ids = [a for a in sys.argv[1:] if re.match(r"C\d\d(-\d+)?$", a)] or sorted(d for d in os.listdir(V + "/seeded") if re.match(r"C\d\d(-\d+)?$", d))
    extra = {}
    for a in sys.argv[1:]:
        if a.startswith("--also="):
            for pair in a[7:].split(","):
                s, c = pair.split(":")
                extra.setdefault(s, []).append(c)
    head = sh("git -C %s rev-parse --short HEAD" % REPO).stdout.strip()
    dirty = sh("git -C %s status --porcelain -uno" % REPO).stdout.strip()
    copy = "--copy" in sys.argv
    if dirty:
        print("refusing: %s has uncommitted changes\n%s" % (REPO, dirty))
        return 2
    rows = []
    for sid in ids:
        d = "%s/seeded/%s" % (V, sid)
        am = json.load(open(d + "/agent_meta.json")) if os.path.exists(d + "/agent_meta.json") else {}
        ran = []
        env = None
        if copy:
            scratch = tempfile.mkdtemp(prefix="seedcopy.")
            os.makedirs(scratch + "/repo"); os.makedirs(scratch + "/evidence")
            sh("git -C %s archive HEAD | tar -x -C %s/repo" % (REPO, scratch))
            r = sh("cd %s/repo && patch -p1 -s < %s/patch.diff" % (scratch, d))
            env = dict(os.environ, VERIF_REPO=scratch + "/repo", VERIF_EVIDENCE_DIR=scratch + "/evidence")
        else:
            r = sh("git -C %s apply %s/patch.diff" % (REPO, d))
        if r.returncode:
            print(sid, "patch does not apply:", r.stdout)
            rows.append((sid, "-", "patch does not apply", ""))
            continue
        caught_by = {}
        try:
            for chk in [sid[:3]] + extra.get(sid, []):
                for seed in (1, 2, 3):
                    t0 = time.time()
                    r = sh("python3 %s/check %s --tier quick --seed %d" % (V, chk, seed), env=env)
                    sigs = re.findall(r"signature: (\S+)", r.stdout)
                    viol = [l for l in r.stdout.splitlines() if l.startswith("VIOLATION")]
                    ran.append({"cmd": ("seeded/%s/patch.diff applied to a scratch copy of /repo's HEAD (VERIF_REPO=<copy>); ./check %s --tier quick --seed %d" if copy else
                                        "git -C /repo apply seeded/%s/patch.diff; ./check %s --tier quick --seed %d") % (sid, chk, seed),
                                "exit": r.returncode, "violation_lines": len(viol), "signatures": sorted(set(sigs))[:6],
                                "wall_s": round(time.time() - t0, 1)})
                    print(sid, chk, "seed", seed, "exit", r.returncode, sorted(set(sigs))[:3], flush=True)
                    if r.returncode == 1 and viol:
                        caught_by[chk] = {"seed": seed, "signatures": sorted(set(sigs))[:6]}
                        break
        finally:
            if copy:
                shutil.rmtree(scratch, ignore_errors=True)
            else:
                sh("git -C %s checkout -- ." % REPO)
        meta = {
            "property": sid[:3],
            "summary": am.get("summary") or am.get("change") or am.get("what") or "",
            "needs": am.get("needs") or am.get("needs_to_manifest") or am.get("manifests_when") or "",
            "source": "written by a fresh sub-agent that was given only the property text and a scratch worktree of the repository "
                      "(its own notes: agent_meta.json, its demonstration: demo.sh)",
            "applies_to_repo_head": head,
            "rebased": os.path.exists(d + "/patch.original.diff"),
            "ran": ran,
            "caught_by": caught_by,
            "caught": bool(caught_by.get(sid[:3])),
        }
        # what an earlier run of the matrix recorded (before the checks were strengthened) stays on record
        if os.path.exists(d + "/meta.json"):
            try:
                old = json.load(open(d + "/meta.json"))
                meta["earlier_runs"] = old.get("earlier_runs", []) + [{"verif_commit": old.get("verif_commit", "?"), "applies_to_repo_head": old.get("applies_to_repo_head"),
                                                                        "caught": old.get("caught"), "caught_by": old.get("caught_by")}]
            except Exception:
                pass
        meta["verif_commit"] = sh("git -C %s rev-parse --short HEAD" % V).stdout.strip()
        json.dump(meta, open(d + "/meta.json", "w"), indent=1)
        rows.append((sid, "yes" if caught_by.get(sid[:3]) else "NO", ", ".join("%s (seed %d): %s" % (c, v["seed"], " ".join(v["signatures"][:2])) for c, v in caught_by.items()),
                     meta["summary"][:160]))
    # the table covers every stored seed (results of earlier runs are read back from their meta.json)
    allrows = []
    for d in sorted(os.listdir(V + "/seeded")):
        mp = "%s/seeded/%s/meta.json" % (V, d)
        if not os.path.exists(mp):
            continue
        m = json.load(open(mp))
        cb = m.get("caught_by", {})
        allrows.append((d, "yes" if m.get("caught") else "NO", m.get("applies_to_repo_head", "?"),
                        "; ".join("%s (seed %d): %s" % (c, v["seed"], " ".join(v["signatures"][:2])) for c, v in cb.items()),
                        (m.get("summary") or "")[:200]))
    with open(V + "/seeded/RESULTS.md", "w") as f:
        f.write("# Seeded changes\n\n`<id>` = first round, `<id>-2` = second round (a different mechanism for the same property). Re-run with "
                "`tools/run_seeds.py [ids]` (patches /repo, runs the property's quick check with seeds 1..3 until it fires, reverts).\n\n"
                "| seed | caught by own check | repo HEAD | firing check(s) and signatures | change |\n|---|---|---|---|---|\n")
        for r in allrows:
            f.write("| %s | %s | %s | %s | %s |\n" % tuple(x.replace("|", "\\|").replace("\n", " ") for x in r))
    left = sh("git -C %s status --porcelain -uno" % REPO).stdout.strip()
    if left:
        print("WARNING: repo left dirty:", left)
    return 0


if __name__ == "__main__":
    sys.exit(main())
