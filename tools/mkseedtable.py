#!/usr/bin/env python3
"""Rewrites the block between <!-- SEED_TABLE_BEGIN --> and <!-- SEED_TABLE_END --> in DESIGN.md from seeded/*/meta.json."""
import json, os, re
V = os.path.dirname(os.path.dirname(os.path.abspath(__file__)))
rows = []
for d in sorted(os.listdir(V + "/seeded")):
    mp = "%s/seeded/%s/meta.json" % (V, d)
    if not os.path.exists(mp):
        continue
    m = json.load(open(mp))
    cb = m.get("caught_by", {})
    first = next(iter(cb.items()), None)
    fired = "; ".join("%s seed %d: `%s`" % (c, v["seed"], v["signatures"][0][:70]) for c, v in cb.items()) if cb else "-"
    summ = re.sub(r"\s+", " ", m.get("summary") or "")
    rows.append("| %s | %s | %s | %s |" % (d, summ[:230].replace("|", "\\|"), "yes" if m.get("caught") else "**no**", fired.replace("|", "\\|")))
table = "| seed | change (agent's summary, shortened) | caught by its property's quick check | first firing signature |\n|---|---|---|---|\n" + "\n".join(rows)
p = V + "/DESIGN.md"
s = open(p).read()
a, b = s.index("<!-- SEED_TABLE_BEGIN -->"), s.index("<!-- SEED_TABLE_END -->")
s = s[:a] + "<!-- SEED_TABLE_BEGIN -->\n" + table + "\n" + s[b:]
open(p, "w").write(s)
print("%d rows" % len(rows))
