#!/bin/sh
# usage: tools/try_seed.sh <patch.diff> <check-id> [seeds...]   -- applies a seeded change to /repo, runs the check, reverts
P=$1; C=$2; shift 2
SEEDS=${*:-1 2 3}
git -C /repo apply "$P" || { echo "patch does not apply"; exit 2; }
for s in $SEEDS; do
  python3 /verif/check $C --seed $s 2>&1 | grep -v "^KNOWN" | cut -c1-400 | tail -4
done
git -C /repo checkout -- . 
git -C /repo status --short | grep -v _build
