#!/bin/sh
# usage: tools/verify_seed.sh <round-dir> <id>...   -- confirms a seeded change independently of the agent that wrote it:
# the patch is the worktree's diff, the tree builds, the whole existing suite passes, the demonstration fails with the change
# and passes with the unmodified binary (${ORIG:-/tmp/rc/build/ninja}).  Prints one line per id; details in <round-dir>/<id>-out/verify.log
D=$1; shift
for ID in "$@"; do
  W=$D/$ID; O=$D/$ID-out; L=$O/verify.log
  : > $L
  [ -f $O/patch.diff ] || { echo "$ID NO-PATCH"; continue; }
  git -C $W diff -- src > $O/patch.check.diff
  if ! cmp -s $O/patch.check.diff $O/patch.diff; then git -C $W diff > $O/patch.check2.diff; cmp -s $O/patch.check2.diff $O/patch.diff || echo "note: patch.diff differs from worktree diff" >> $L; fi
  nontest=$(git -C $W diff --name-only | grep -c -v '^src/.*\(_test\.cc\|test\.cc\|test\.h\)$')
  tests=$(git -C $W diff --name-only | grep -c '_test\.cc\|/test\.cc\|/test\.h')
  ( cd $W && cmake -G Ninja -B build -DCMAKE_BUILD_TYPE=Release >/dev/null 2>&1 && cmake --build build -j8 ) >> $L 2>&1 || { echo "$ID BUILD-FAILED"; continue; }
  ( cd $W && ./build/ninja_test ) > $O/verify.tests.log 2>&1; trc=$?
  passed=$(grep -c '^\[       OK \]' $O/verify.tests.log)
  if [ -f $O/demo.sh ]; then
    bash $O/demo.sh $W/build/ninja >> $L 2>&1; d1=$?
    bash $O/demo.sh $W/build/ninja >> $L 2>&1; d1b=$?
    bash $O/demo.sh ${ORIG:-/tmp/rc/build/ninja} >> $L 2>&1; d0=$?
    bash $O/demo.sh ${ORIG:-/tmp/rc/build/ninja} >> $L 2>&1; d0b=$?
  else d1=nodemo; d1b=nodemo; d0=nodemo; d0b=nodemo; fi
  echo "$ID files=$nontest testfiles_touched=$tests suite_rc=$trc passed=$passed demo_with_change=$d1,$d1b demo_without=$d0,$d0b"
done
