#!/usr/bin/env python3
"""Re-runs the scenario stored in a replay file through nsim and prints a readable trace.
usage: tools/show.py replays/X.json [first_step [last_step]] [-v]"""
import json, os, sys
sys.path.insert(0, os.path.dirname(os.path.dirname(os.path.abspath(__file__))))
from vlib import simlib  # noqa


def main():
    args = [a for a in sys.argv[1:] if not a.startswith("-")]
    verbose = "-v" in sys.argv
    j = json.load(open(args[0]))
    scn = j["replay"]["scenario"] if "replay" in j else j
    lo = int(args[1]) if len(args) > 1 else 0
    hi = int(args[2]) if len(args) > 2 else 10 ** 9
    print("== signature:", j.get("signature"))
    print("==", j.get("description"))
    print("== manifest:\n" + scn["files"]["build.ninja"])
    for p, c in sorted(scn["files"].items()):
        if p != "build.ninja":
            print("== %s: %r" % (p, c))
    w = simlib.NsimWorker(simlib.nsim_bin())
    res = w.run(scn)
    w.close()
    for i, r in enumerate(res):
        if i < lo or i > hi:
            continue
        st = scn["steps"][i] if i < len(scn["steps"]) else {}
        if r["op"] not in ("build", "clean"):
            d = dict(st)
            if d.get("op") == "manifest":
                print("-- step %d manifest:\n%s" % (i, d["files"]["build.ninja"]))
            else:
                print("-- step %d %s" % (i, json.dumps(d)[:300]))
            continue
        t = r.get("trace", {})
        print("-- step %d build targets=%s j=%s k=%s faults=%s interrupt_at=%s edits=%s" %
              (i, st.get("targets"), st.get("j"), st.get("k"), st.get("faults"), st.get("interrupt_at"), st.get("edits")))
        if t.get("crash"):
            print("   CRASH", t.get("stderr", "")[-3000:])
            continue
        print("   result:", t["result"])
        for ev in t["events"]:
            if ev["e"] == "S":
                print("   START %s  t=%s cmd=%r reads=%s missing=%s" % (ev["o"], ev["t"], ev["cmd"], [p for p, _ in ev["reads"]], ev["missing"]))
            elif ev["e"] == "F":
                print("   FINISH %s status=%s wrote=%s kept=%s" % (ev["o"], ev["status"], ev["wrote"], ev["kept"]))
            elif verbose or ev["e"] in ("ABORT",) and ev.get("killed"):
                print("   ", ev)
        print("   stdout:", bytes.fromhex(t.get("stdout", "")).decode("latin-1")[:2000])
        if t.get("stderr"):
            print("   stderr:", t["stderr"][:1000])
        if verbose and t.get("world"):
            for p, v in sorted(t["world"]["files"].items()):
                print("      %-20s %6d %r" % (p, v[0], v[1][:60]))


if __name__ == "__main__":
    main()
