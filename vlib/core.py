"""Verdict / evidence / known-findings discipline shared by every check (DESIGN §3)."""
import hashlib, json, os, random, sys, time

VERIF = os.path.dirname(os.path.dirname(os.path.abspath(__file__)))
EVIDENCE_DIR = os.environ.get("VERIF_EVIDENCE_DIR") or os.path.join(VERIF, "evidence")   # the override is for runs against a patched copy of the tree (tools/run_seeds.py --copy)
REPLAY_DIR = os.path.join(VERIF, "replays")
FINDINGS = os.path.join(VERIF, "known_findings.txt")


class Inconclusive(Exception):
    """harness failure / monitor observed nothing -> exit 2"""


def load_findings():
    """known_findings.txt lines:
         known: property=<id> signature=<sig> <what fails>
         fixed: property=<id> <commit> <what failed>
       Only 'known' lines suppress anything, and only the exact signature."""
    known = {}
    if os.path.exists(FINDINGS):
        for line in open(FINDINGS):
            line = line.strip()
            if not line.startswith("known:"):
                continue
            parts = line.split(None, 3)
            if len(parts) < 3:
                continue
            prop = parts[1].split("=", 1)[1]
            sig = parts[2].split("=", 1)[1]
            what = parts[3] if len(parts) > 3 else ""
            known[(prop, sig)] = what
    return known


class Ctx:
    def __init__(self, prop, tier, seed, level):
        self.prop = prop
        self.tier = tier
        self.seed = seed
        self.level = level
        self.t0 = time.time()
        self.rng = random.Random(seed)
        self.evaluations = 0
        self.distinct = set()       # hashes of distinct non-trivial cases
        self.distinct_extra = 0     # for counters measured in C++ (already de-duplicated there)
        self.rule = ""
        self.samples = []
        self.counters = {}
        self.violations = []        # (signature, description, replay-object)
        self.inconclusive = 0
        self.assumptions = []
        self.exhaustive = None
        self.canaries_fired = 0
        self.canaries_expected = 0

    # ---- counters
    def count(self, key, n=1):
        self.counters[key] = self.counters.get(key, 0) + n

    def nontrivial(self, obj):
        if not isinstance(obj, (bytes, str)):
            obj = json.dumps(obj, sort_keys=True, default=repr)
        if isinstance(obj, str):
            obj = obj.encode("utf-8", "surrogateescape")
        self.distinct.add(hashlib.blake2b(obj, digest_size=10).digest())

    def sample(self, obj, cap=4):
        if len(self.samples) < cap:
            self.samples.append(obj)

    replay_extra = None

    def violation(self, signature, description, replay=None):
        signature = "_".join(signature.split())       # signatures are single tokens (known_findings.txt is space separated)
        if self.replay_extra and isinstance(replay, dict):
            replay = dict(replay, **self.replay_extra)
        # cap memory, keep the first of each signature + a few
        n = sum(1 for v in self.violations if v[0] == signature)
        if n < 3:
            self.violations.append((signature, description, replay))
        self.count("violations_raw")

    def canary(self, fired, name=""):
        self.canaries_expected += 1
        if fired:
            self.canaries_fired += 1
        else:
            sys.stderr.write("canary did not fire: %s\n" % name)

    # ---- finish
    def finish(self):
        known = load_findings()
        rc = 0
        if self.canaries_fired != self.canaries_expected:
            print("INCONCLUSIVE property=%s: oracle canaries fired %d/%d" %
                  (self.prop, self.canaries_fired, self.canaries_expected))
            rc = 2
        seen_known, new = {}, []
        for sig, desc, replay in self.violations:
            if (self.prop, sig) in known:
                seen_known.setdefault(sig, desc)
            else:
                new.append((sig, desc, replay))
        for sig, desc in sorted(seen_known.items()):
            print("KNOWN-FINDING: property=%s %s [%s]" % (self.prop, known[(self.prop, sig)] or desc, sig))
        nviol = 0
        done = set()
        for sig, desc, replay in new:
            if sig in done:
                continue
            done.add(sig)
            nviol += 1
            os.makedirs(REPLAY_DIR, exist_ok=True)
            h = hashlib.sha1(sig.encode()).hexdigest()[:10]
            path = os.path.join(REPLAY_DIR, "%s-%s.json" % (self.prop, h))
            with open(path, "w") as f:
                json.dump({"property": self.prop, "signature": sig, "description": desc,
                           "seed": self.seed, "tier": self.tier, "replay": replay}, f, indent=1,
                          default=repr)
            print("VIOLATION property=%s replay=%s" % (self.prop, path))
            print("  signature: %s\n  %s" % (sig, desc))
            rc = 1
        ndist = len(self.distinct) + self.distinct_extra
        if rc == 0 and (self.evaluations < 1 or ndist < 2):
            print("INCONCLUSIVE property=%s: monitors observed too little (evaluations=%d distinct=%d)"
                  % (self.prop, self.evaluations, ndist))
            rc = 2
        cov = {"evaluations": int(self.evaluations), "distinct_nontrivial": int(ndist),
               "rule": self.rule, "samples": self.samples or ["(none)"],
               "counters": self.counters, "inconclusive_cases": self.inconclusive,
               "canaries_fired": self.canaries_fired,
               "known_findings_seen": sorted(seen_known)}
        if self.exhaustive is not None:
            cov["exhaustive"] = bool(self.exhaustive)
        ev = {"property_id": self.prop, "tier": self.tier, "seed": int(self.seed),
              "level": self.level, "coverage": cov, "assumptions": self.assumptions,
              "wall_s": round(time.time() - self.t0, 2), "violations": nviol}
        os.makedirs(EVIDENCE_DIR, exist_ok=True)
        tmp = os.path.join(EVIDENCE_DIR, self.prop + ".json.tmp")
        with open(tmp, "w") as f:
            json.dump(ev, f, indent=1, default=repr)
        os.rename(tmp, os.path.join(EVIDENCE_DIR, self.prop + ".json"))
        print("%s tier=%s seed=%d evaluations=%d distinct_nontrivial=%d inconclusive=%d "
              "known=%d violations=%d wall=%.1fs -> exit %d" %
              (self.prop, self.tier, self.seed, self.evaluations, ndist, self.inconclusive,
               len(seen_known), nviol, time.time() - self.t0, rc))
        return rc
