"""Scenario representation, manifest rendering, the command function (shared with harness/nsim.cc),
and the nsim driver."""
import json, os, subprocess, threading, queue, shutil, glob
from . import build, util

MASK = (1 << 64) - 1


def fnv64(b: bytes) -> int:
    h = 1469598103934665603
    for c in b:
        h ^= c
        h = (h * 1099511628211) & MASK
    return h


def hhex(s) -> str:
    if isinstance(s, str):
        s = s.encode("latin-1")
    return "%016x" % fnv64(s)


def directives(content: str, key: str):
    r = []
    k = key + " "
    for line in content.split("\n"):
        if line.startswith(k):
            v = line[len(k):].rstrip(" \r")
            if v:
                r.append(v)
        elif line == key:
            r.append("")
    return r


# ----------------------------------------------------------------------------- statements
def St(id, outs, ins=(), iins=(), oins=(), iouts=(), vals=(), kind="cmd", **kw):
    d = dict(id=id, kind=kind, outs=list(outs), iouts=list(iouts), ins=list(ins), iins=list(iins), oins=list(oins),
             vals=list(vals), restat=False, generator=False, deps="none", depfile="", rsp="", rsp_content="",
             pool="", dyndep="", ver=1, says="", early=False, serves=[], dd=False, regen=None, regen_from="",
             dyndep_on_rule=False)
    d.update(kw)
    return d


def all_outs(st):
    return st["outs"] + st["iouts"]


def phony_outs(sc):
    return {o for s in sc["stmts"] if s["kind"] == "phony" for o in s["outs"]}


def direct_reads(sc, st):
    """Files a command opens directly: its explicit and implicit inputs, with phony aliases replaced by
    the files behind them (an alias is a group of files, not a file)."""
    ph = {o: s for s in sc["stmts"] if s["kind"] == "phony" for o in s["outs"]}
    out, seen = [], set()

    def add(p):
        if p in seen:
            return
        seen.add(p)
        if p in ph:
            for q in ph[p]["ins"] + ph[p]["iins"]:
                add(q)
        else:
            out.append(p)
    for p in st["ins"] + st["iins"]:
        add(p)
    return out


_SHELL_SAFE = set("abcdefghijklmnopqrstuvwxyzABCDEFGHIJKLMNOPQRSTUVWXYZ0123456789_+-./")


def shq(name):
    """What $in / $out expand to for one path inside a command line or rspfile_content (the manual: "shell-quoted"): names made
    of [A-Za-z0-9_+-./] verbatim, anything else in single quotes with embedded quotes as '\\''.  Written from the property text
    (C16), not from util.cc."""
    if name and all(ch in _SHELL_SAFE for ch in name):
        return name
    return "'" + name.replace("'", "'\\''") + "'"


def npath(p):
    """a path as it has to be spelt in a manifest"""
    return p.replace("$", "$$").replace(" ", "$ ").replace(":", "$:")


def eval_path_expr(expr, st, quoted):
    """depfile_expr / rsp_expr: a binding value written with $out / $in on the rule ("depfile = deps/$out.d")."""
    q = shq if quoted else (lambda x: x)
    return expr.replace("$out", " ".join(q(o) for o in st["outs"])).replace("$in", " ".join(q(i) for i in st["ins"]))


def cmd_string(st):
    """The evaluated command line: $in / $out shell-quoted where a name needs it (identity for the generator's plain names)."""
    if st["kind"] == "phony":
        return ""
    s = "sim %s v%d" % (st["id"], st["ver"])
    if st["ins"]:
        s += " " + " ".join(shq(x) for x in st["ins"])
    s += " > " + " ".join(shq(x) for x in st["outs"])
    if st["rsp"]:
        s += " @" + (eval_path_expr(st["rsp_expr"], st, True) if st.get("rsp_expr") else st["rsp"])
    return s


def rsp_string(st):
    if not st["rsp"]:
        return ""
    ins = [shq(x) for x in st["ins"]]
    return st["rsp_content"].replace("$empty", "").replace("$in_newline", "\n".join(ins)).replace("$in", " ".join(ins)).replace(
        "$out", " ".join(shq(x) for x in st["outs"]))


def follows(st):
    return st["deps"] != "none" or st["dd"] or st.get("force_follow", False)


def rule_name(st):
    return st.get("rule_name") or "r_" + st["id"]


def render_manifest(sc):
    """-> {filename: text}.  One rule per statement so that every attribute can vary independently."""
    L = []
    if sc.get("ninja_required_version"):
        L.append("ninja_required_version = %s" % sc["ninja_required_version"])
    if sc.get("builddir"):
        L.append("builddir = %s" % sc["builddir"])
    for name, depth in sorted(sc.get("pools", {}).items()):
        L += ["pool %s" % name, "  depth = %d" % depth]
    top = L
    subs = {}          # statements may live in files of their own, included with `subninja` (st["file"]); a rule name (st["rule_name"],
                       # default r_<id>) may be declared again there: a new rule of the same name in the scope of that file

    def lines_of(st):
        f = st.get("file") or "build.ninja"
        return top if f == "build.ninja" else subs.setdefault(f, [])
    for st in sc["stmts"]:
        if st["kind"] == "phony":
            continue
        L = lines_of(st)
        L.append("rule %s" % rule_name(st))
        cmd = "sim %s v%d" % (st["id"], st["ver"])
        cmd += (" $in" if st["ins"] else "") + " > $out"
        if st["rsp"]:
            cmd += " @$rspfile" if st.get("rsp_via_var", True) else " @" + st["rsp"]
        L.append("  command = %s" % cmd)
        if st.get("description"):
            L.append("  description = %s" % st["description"])
        if st["restat"]:
            L.append("  restat = 1")
        if st["generator"] and not st.get("gen_on_build"):
            L.append("  generator = 1")
        if st["deps"] in ("gcc", "msvc"):
            L.append("  deps = %s" % st["deps"])
        if st["depfile"] and st["deps"] != "msvc":
            L.append("  depfile = %s" % (st.get("depfile_expr") or npath(st["depfile"])))
        if st["rsp"]:
            L.append("  rspfile = %s" % (st.get("rsp_expr") or npath(st["rsp"])))
            L.append("  rspfile_content = %s" % st["rsp_content"])
        if st["dyndep"] and st["dyndep_on_rule"]:
            L.append("  dyndep = %s" % npath(st["dyndep"]))
    for st in sc["stmts"]:
        L = lines_of(st)
        line = "build " + " ".join(npath(x) for x in st["outs"])
        if st["iouts"]:
            line += " | " + " ".join(npath(x) for x in st["iouts"])
        line += ": " + ("phony" if st["kind"] == "phony" else rule_name(st))
        if st["ins"]:
            line += " " + " ".join(npath(x) for x in st["ins"])
        if st["iins"]:
            line += " | " + " ".join(npath(x) for x in st["iins"])
        if st["oins"]:
            line += " || " + " ".join(npath(x) for x in st["oins"])
        if st["vals"]:
            line += " |@ " + " ".join(npath(x) for x in st["vals"])
        L.append(line)
        if st["pool"]:
            L.append("  pool = %s" % st["pool"])
        if st["generator"] and st.get("gen_on_build"):
            L.append("  generator = 1")        # a statement-level binding shadows the rule's
        if st["dyndep"] and not st["dyndep_on_rule"]:
            L.append("  dyndep = %s" % npath(st["dyndep"]))
    L = top
    for f in sorted(subs):
        L.append("subninja %s" % f)
    if sc.get("defaults"):
        L.append("default " + " ".join(npath(x) for x in sc["defaults"]))
    files = {"build.ninja": "\n".join(L) + "\n"}
    for f, ls in subs.items():
        files[f] = "\n".join(ls) + "\n"
    return files


def render_stmts(sc):
    """The behaviour table handed to nsim (keyed by first output)."""
    t = {}
    ph = phony_outs(sc)
    for st in sc["stmts"]:
        if st["kind"] == "phony":
            continue
        e = {"kind": st["kind"], "outs": all_outs(st), "reads": direct_reads(sc, st),
             "deps": st["deps"],
             "depfile": st["depfile"], "rsp": st["rsp"], "says": st["says"], "follow": follows(st),
             "restat": st["restat"] or st.get("restat_like", False), "early": st["early"], "dd": st["dd"],
             "nocmd": bool(st["generator"]), "respell": bool(st.get("respell")), "keep2": bool(st.get("keep2"))}
        if st["ins"]:
            e["primary"] = st["ins"][0]
        if not e["reads"]:
            e["primary"] = ""
        if st["kind"] == "scan":
            e["serves"] = st["serves"]
            e["follow"] = False
        if st["kind"] == "regen":
            e["regen"] = st["regen"]
            e["regen_from"] = st["regen_from"]
        t[st["outs"][0]] = e
    return t


def scenario_json(sc, steps, sid=None):
    files = dict(sc["sources"])
    files.update(render_manifest(sc))
    return {"id": sid or sc.get("id", "s"), "files": files, "stmts": render_stmts(sc), "steps": steps}


def manifest_step(sc):
    return {"op": "manifest", "files": render_manifest(sc), "stmts": render_stmts(sc)}


# ----------------------------------------------------------------------------- the command function
def read_set(st, files):
    """files: {path: content}. Returns (reads [(path, content)] in nsim's order, missing [paths])."""
    seen, reads, missing = set(), [], []

    def rd(p, follow):
        if p in seen:
            return
        seen.add(p)
        if p not in files:
            missing.append(p)
            return
        reads.append((p, files[p]))
        if follow:
            for inc in directives(files[p], "#include"):
                rd(inc, follow)
            for inc in directives(files[p], "#maybe"):
                if inc in files:
                    rd(inc, follow)
    fol = follows(st) and st["kind"] != "scan"
    for p in st["ins"] + st["iins"]:
        rd(p, fol)
    if st["rsp"]:
        pass
    return reads, missing


# A file with exactly this content is a header that does not contribute to what is compiled (all comments, everything behind an
# #if 0): the command reads it and reports it, its output does not depend on it.  Same constant in nsim.cc and vtool.cc.
HOLLOW = "// hollow\n"


def output_content(st, o, reads, rsp=None):
    key = o.encode() + b"\0" + (b"" if st["generator"] else cmd_string(st).encode()) + b"\0" + (b"" if st["generator"] else (rsp if rsp is not None else rsp_string(st)).encode()) + b"\0"
    for p, c in sorted(reads):
        if c == HOLLOW:
            continue        # read (and reported as a dependency), but nothing in it reaches the output
        key += p.encode() + b"\0" + c.encode("latin-1") + b"\0"
    return "G" + hhex(key)


def dyndep_text(st, files):
    t = "ninja_dyndep_version = 1\n"
    for out0, src in st["serves"]:
        c = files.get(src, "")
        t += "build " + out0
        prov = directives(c, "#provides")
        if prov:
            t += " | " + " ".join(prov)
        t += ": dyndep"
        inc = directives(c, "#include")
        if inc:
            t += " | " + " ".join(inc)
        t += "\n"
        if directives(c, "#ddrestat"):
            t += "  restat = 1\n"
    return t


# ----------------------------------------------------------------------------- nsim driver
def nsim_bin():
    return build.get_bin("nsim", ["nsim.cc"])


class NsimWorker:
    def __init__(self, binary, timeout_s=60):
        self.p = subprocess.Popen([binary, str(timeout_s)], stdin=subprocess.PIPE, stdout=subprocess.PIPE,
                                  stderr=subprocess.DEVNULL, env=dict(build.san_env(), NSIM_TAG=str(os.getpid())), cwd="/")

    def run(self, scenario):
        """-> list of step results (dicts) for one scenario"""
        self.p.stdin.write((json.dumps(scenario) + "\n").encode("latin-1"))
        self.p.stdin.flush()
        out = []
        while True:
            line = self.p.stdout.readline()
            if not line:
                raise RuntimeError("nsim died")
            j = json.loads(line.decode("latin-1"))
            if j.get("end"):
                return out
            if j.get("begin"):
                continue
            out.append(j)

    def close(self):
        try:
            self.p.stdin.close()
            self.p.wait(timeout=10)
        except Exception:
            self.p.kill()


def run_scenarios(scenarios, handler, workers=None, timeout_s=60):
    """Runs scenario dicts through a pool of nsim processes; handler(scenario, steps) is called in the
    calling thread as results arrive (so handlers need no locking)."""
    b = nsim_bin()
    workers = workers or util.NCPU
    qin, qout = queue.Queue(), queue.Queue(maxsize=4 * workers)     # (workers wait when the judge is slower: memory stays bounded)
    for s in scenarios:
        qin.put(s)
    n = qin.qsize()

    def work():
        w = NsimWorker(b, timeout_s)
        try:
            while True:
                try:
                    s = qin.get_nowait()
                except queue.Empty:
                    return
                try:
                    qout.put((s, w.run(s), None))
                except Exception as e:  # nsim itself died: restart
                    qout.put((s, None, repr(e)))
                    w.close()
                    w = NsimWorker(b, timeout_s)
        finally:
            w.close()
    ts = [threading.Thread(target=work, daemon=True) for _ in range(min(workers, max(1, n)))]
    for t in ts:
        t.start()
    for _ in range(n):
        s, res, err = qout.get()
        handler(s, res, err)
    for t in ts:
        t.join()
    sweep()


def _older_than(path, seconds):
    import time
    try:
        return time.time() - os.lstat(path).st_mtime > seconds
    except OSError:
        return False


def sweep():
    """scratch of this process's own nsim workers (crashed children leave theirs behind) and anything older than 3 hours;
    never the scratch of a check running concurrently"""
    import time
    mine = set(glob.glob("/dev/shm/nsim-%d-*" % os.getpid()))
    old = [d for d in glob.glob("/dev/shm/nsim-*") if d not in mine and _older_than(d, 3 * 3600)]
    for d in list(mine) + old:
        try:
            if os.path.isdir(d):
                shutil.rmtree(d, ignore_errors=True)
            else:
                os.unlink(d)
        except OSError:
            pass


# ----------------------------------------------------------------------------- trace helpers
class DiskReplay:
    """Reconstructs {path: (mtime, hash)} at any point of an event list from W/RM events."""

    def __init__(self, files=None):
        self.f = dict(files or {})   # path -> (mtime, hash)
        self.dirs = set()

    @staticmethod
    def from_world(world):
        d = DiskReplay({p: (v[0], hhex(v[1])) for p, v in world["files"].items()})
        d.dirs = set(world.get("dirs", []))
        return d

    def apply(self, ev):
        e = ev.get("e")
        if e == "W":
            self.f[ev["p"]] = (ev["t"], ev["h"])
        elif e == "RM":
            self.f.pop(ev["p"], None)
        elif e == "MKDIR":
            self.dirs.add(ev["p"])


def world_files(world):
    return {p: v[1] for p, v in world["files"].items()}


def world_mtimes(world):
    return {p: v[0] for p, v in world["files"].items()}
