"""Seeded generators of scenarios (graphs) and histories (DESIGN §4).  Validity rules keep every
scenario inside the properties' stated assumptions."""
import copy
from .simlib import St, all_outs, directives


class Gen:
    def __init__(self, rng, size=6, feat=None):
        self.r = rng
        self.size = size
        f = dict(phony=0.15, deps=0.5, restat=0.2, generator=0.05, pools=0.3, rsp=0.12, vals=0.2, multi=0.25,
                 subdirs=0.5, console=0.05, order_only=0.4, implicit=0.4, no_manifest_path=0.0,
                 phony_file=0.0, msvc=0.2, depfile_only=0.25, chain=1.0, dyndep=0.15, early=0.2)
        f.update(feat or {})
        self.f = f

    def p(self, key):
        return self.r.random() < self.f[key]

    def scenario(self, sid="s"):
        r = self.r
        sc = {"id": sid, "sources": {}, "stmts": [], "pools": {}, "defaults": []}
        nh = r.randint(1, 3)
        hdrs = []
        for i in range(nh):
            inc = [h for h in hdrs if r.random() < 0.3]
            name = "h%d.h" % i
            if hdrs and r.random() < 0.4:
                # names of which one is the beginning of another (config.h / config.h.in, foo.h / foo.hpp), the longer one read -
                # and so reported - first whenever it includes the shorter one
                name = "%s_%d.h" % (r.choice(hdrs), i)
                if r.random() < 0.6 and name[:name.rindex("_")] not in inc:
                    inc.append(name[:name.rindex("_")])
            sc["sources"][name] = "".join("#include %s\n" % h for h in inc) + "// header %d\n" % i
            hdrs.append(name)
        if self.p("pools"):
            sc["pools"]["p1"] = r.randint(1, 2)
            if r.random() < 0.4:
                sc["pools"]["p2"] = r.randint(1, 3)
        avail = []          # files that can be used as inputs: (path, producer id or None)
        gen_headers = []    # outputs of cmd statements (includable)
        nsrc = 0
        for i in range(self.size):
            sid_ = "s%d" % i
            d = ("o/" if self.p("subdirs") else "") if r.random() < 0.8 else "o/sub/"
            if avail and self.p("phony"):
                k = r.randint(1, min(3, len(avail)))
                ins = r.sample([a for a in avail], k)
                if hdrs and r.random() < 0.4:
                    ins.append(r.choice(hdrs))      # header groups: sources behind an alias
                st = St(sid_, ["al%d" % i], ins=ins, kind="phony")
                if r.random() < 0.3:
                    # a pure ordering group: "build group: phony || a b"
                    st["oins"], st["ins"] = [x for x in ins if x in avail], []
                elif r.random() < 0.2 and len(avail) > k:
                    st["oins"] = [r.choice([a for a in avail if a not in ins])]
                if sc["pools"] and r.random() < 0.3:
                    st["pool"] = r.choice(sorted(sc["pools"]) + ["console"])      # a phony statement may carry a pool binding too
                sc["stmts"].append(st)
                avail.append("al%d" % i)
                continue
            outs = [d + "x%d.o" % i]
            iouts = []
            if self.p("multi"):
                # secondary outputs also in (nested) directories of their own, below the first output's directory:
                # each output's directory has to be made, not only the first one's
                sub = r.choice(("", "", "", "m%d/" % i, "m%d/deep/er/" % i))
                if r.random() < 0.5:
                    outs.append(d + sub + "x%d.map" % i)
                else:
                    iouts.append(d + sub + "x%d.lst" % i)
            st = St(sid_, outs, iouts=iouts)
            # primary source of its own (so that edits are local), plus earlier outputs
            src = "c%d.c" % nsrc
            nsrc += 1
            st["ins"] = [src]
            content = "// source %d\n" % i
            use_deps = self.p("deps")
            if use_deps:
                x = r.random()
                st["deps"] = "msvc" if x < self.f["msvc"] else ("depfile" if x < self.f["msvc"] + self.f["depfile_only"] else "gcc")
                if st["deps"] != "msvc":
                    st["depfile"] = outs[0] + ".d"
                if r.random() < self.f.get("respell", 0.2):
                    st["respell"] = True       # the tool reports what it read as './x.h', 'a//b.h', 'zz/../x.h' (-I. , -Ia/ , -Izz/..)
                incs = [h for h in hdrs if r.random() < 0.5]
                if r.random() < 0.15:
                    # a source that includes another source file (unity builds, generated tables): the first thing the
                    # compiler reports then has a source extension
                    inc_src = "inc%d.%s" % (i, r.choice(("cc", "c", "cpp")))
                    sc["sources"][inc_src] = "// included source %d\n" % i
                    incs.insert(0, inc_src)
                gh = [g for g in gen_headers if r.random() < 0.35][:2]
                for g in gh:
                    incs.append(g)
                    if self.p("no_manifest_path"):
                        st.setdefault("nmp", []).append(g)
                    elif r.random() < 0.7:
                        st["oins"].append(g)
                    else:
                        st["iins"].append(g)
                content = "".join("#include %s\n" % h for h in incs) + content
            sc["sources"][src] = content
            # more inputs from what is available
            cand = [a for a in avail if a not in st["oins"] and a not in st["iins"]]
            if not self.p("chain"):
                cand = []
            r.shuffle(cand)
            n_ex = r.randint(0, min(2, len(cand)))
            st["ins"] += cand[:n_ex]
            cand = cand[n_ex:]
            if cand and self.p("implicit"):
                st["iins"].append(cand.pop())
            if cand and self.p("order_only"):
                st["oins"].append(cand.pop())
            if hdrs and r.random() < 0.2 and not use_deps:
                st["iins"].append(r.choice(hdrs))
            if self.p("restat"):
                st["restat"] = True
            elif self.p("generator"):
                st["generator"] = True
                if r.random() < 0.4:
                    st["gen_on_build"] = True      # bound on the build statement instead of the rule
            if self.p("early"):
                st["early"] = True      # starts writing its outputs (and depfile) in place as soon as it runs
            if sc["pools"] and self.p("pools"):
                st["pool"] = r.choice(sorted(sc["pools"]))
            elif self.p("console") and st["deps"] != "msvc":
                # (a console command's output goes to the terminal, not through ninja: /showIncludes notes could not be parsed)
                st["pool"] = "console"
            if self.p("rsp"):
                st["rsp"] = outs[0] + ".rsp"
                st["rsp_content"] = r.choice(["$in", "$in_newline", "-o $out $in", "flags $in"])
            sc["stmts"].append(st)
            for o in outs + iouts:
                avail.append(o)
            gen_headers.append(outs[0])
        # validations: either an earlier output, or a dedicated checker that depends on its requester
        cmds = [s for s in sc["stmts"] if s["kind"] == "cmd"]
        nextid = self.size
        for s in list(cmds):
            if not self.p("vals"):
                continue
            if r.random() < 0.5:
                v = St("s%d" % nextid, ["o/chk%d.ok" % nextid], ins=[s["outs"][0]])
                nextid += 1
                sc["stmts"].append(v)
                s["vals"].append(v["outs"][0])
            else:
                earlier = [o for t in cmds if t is not s for o in t["outs"][:1]]
                if earlier:
                    s["vals"].append(r.choice(earlier))
        if self.p("dyndep"):
            self.add_dyndep(sc)
        if r.random() < 0.3:
            roots = self.roots(sc)
            if roots:
                sc["defaults"] = r.sample(roots, r.randint(1, len(roots)))
        return sc

    def add_dyndep(self, sc, static=False, on_rule=False, tag="d", respell=True):
        """adds statements served by a dyndep file (produced by a scanner statement, or pre-existing): implicit inputs
        (leaf headers, outputs of other statements, outputs provided by earlier served statements), implicit outputs, restat"""
        from .simlib import dyndep_text
        r = self.r
        leafs = []
        for i in range(r.randint(1, 3)):
            sc["sources"]["m%d.h" % i] = "// leaf %d\n" % i
            leafs.append("m%d.h" % i)
        base_outs = [s["outs"][0] for s in sc["stmts"] if s["kind"] == "cmd"]
        nserved = r.randint(1, 4)
        dd = "dd/x.dd" if tag == "d" else "dd/%s.dd" % tag
        scan_id = "scan" if tag == "d" else "scan_" + tag
        scan_cfg = "ddscan.src" if tag == "d" else "ddscan_%s.src" % tag
        served, provided = [], []
        for i in range(nserved):
            src = "%s%d.src" % (tag, i)
            out0 = "o/%s%d.o" % (tag, i)
            lines = []
            for h in leafs:
                if r.random() < 0.5:
                    lines.append("#include " + h)
            for b in base_outs:
                if r.random() < 0.3:
                    lines.append("#include " + b)
            for p in provided:
                if r.random() < 0.5:
                    lines.append("#include " + p)
            if r.random() < 0.6:
                mod = "o/%s%d.mod" % (tag, i)
                lines.append("#provides " + mod)
                provided.append(mod)
            if r.random() < 0.25:
                lines.append("#ddrestat")
            sc["sources"][src] = "\n".join(lines + ["// dyndep-served source %d" % i]) + "\n"
            st = St("%s%d" % (tag, i), [out0], ins=[src], dd=True, dyndep=dd, dyndep_on_rule=on_rule)
            if r.random() < self.f.get("dd_deps", 0.3):
                # a served statement that also reports what it read (modules through the dyndep file, headers through a depfile):
                # its own header includes another one, which only the depfile / deps log knows about
                x = r.random()
                st["deps"] = "msvc" if x < 0.2 else ("depfile" if x < 0.45 else "gcc")
                if st["deps"] != "msvc":
                    st["depfile"] = out0 + ".d"
                own, nested = "p_%s%d.h" % (tag, i), "q_%s%d.h" % (tag, i)
                sc["sources"][nested] = "// nested header of %s%d\n" % (tag, i)
                sc["sources"][own] = "#include %s\n// own header of %s%d\n" % (nested, tag, i)
                sc["sources"][src] = "#include %s\n" % own + sc["sources"][src]
            if r.random() < 0.5:
                st["oins"] = [dd]
            else:
                st["iins"] = [dd]
            st["ins"] += [b for b in base_outs if r.random() < 0.2]
            for ln in lines:
                if ln.startswith("#include ") and ln[9:] in base_outs and ln[9:] not in st["ins"] and r.random() < 0.4:
                    st["oins"].append(ln[9:])
            if r.random() < 0.5:
                # the dyndep file anywhere among the order-only inputs, also behind one that is ready from the start (a header)
                if dd in st["oins"] and r.random() < 0.5:
                    st["oins"].insert(0, r.choice(leafs))
                r.shuffle(st["oins"]) if r.random() < 0.5 else None
            served.append(st)
        # the scanner also has an input of its own (its configuration): touching it regenerates the dyndep file without
        # making any served statement out of date by itself
        sc["sources"][scan_cfg] = "// scanner configuration\n"
        scan = St(scan_id, [dd], ins=["%s%d.src" % (tag, i) for i in range(nserved)] + [scan_cfg], kind="scan",
                  serves=[[s["outs"][0], s["ins"][0]] for s in served])
        if not static:
            # where the scanner's statement names the dyndep file: its only output, a further output, or an implicit output
            # behind a stamp file ('build scan.stamp | x.dd: scan ...')
            x = r.random()
            stamp = dd[:-3] + ".stamp"
            if x < 0.25:
                scan["outs"], scan["iouts"] = [stamp], [dd]
            elif x < 0.4:
                scan["outs"] = [stamp, dd]
        if static:
            text = dyndep_text(scan, sc["sources"])
            if respell and r.random() < 0.5:
                # a hand-written (or differently generated) dyndep file spells paths as it likes: './x', 'a//b', 'a/./b'
                lines = []
                for ln in text.split("\n"):
                    if ln.startswith("build ") and ": dyndep" in ln:
                        left, right = ln.split(": dyndep", 1)

                        def resp(tok):
                            if tok in ("|", "build", "") or r.random() < 0.5:
                                return tok
                            x = r.random()
                            if x < 0.5:
                                return "./" + tok
                            if "/" in tok:
                                return tok.replace("/", "//" if x < 0.75 else "/./", 1)
                            return "./" + tok
                        lt = left.split(" ")
                        left = " ".join(lt[:2] + [resp(t_) for t_ in lt[2:]])          # the statement's own first output stays as written
                        right = " ".join(resp(t_) for t_ in right.split(" "))
                        ln = left + ": dyndep" + right
                    lines.append(ln)
                text = "\n".join(lines)
            sc["sources"][dd] = text
            sc.setdefault("static_dd", {})[dd] = scan["serves"]
        else:
            sc["stmts"].append(scan)
        sc["stmts"] += served
        for i, s in enumerate(served):
            tail = s["outs"][0]
            if r.random() < 0.3:
                # aliases (also nested) behind a served statement: phony statements enter and leave the plan with it
                for lv in range(r.randint(1, 3)):
                    al = "al_%s%d_%d" % (tag, i, lv)
                    sc["stmts"].append(St(al, [al], ins=[tail], kind="phony"))
                    tail = al
            if r.random() < 0.5 or tail != s["outs"][0]:
                un = "u%d" % i if tag == "d" else "u%s%d" % (tag, i)
                c = St(un, ["o/%s.o" % un], ins=[tail] if r.random() < 0.7 else [], oins=[] )
                if not c["ins"]:
                    sc["sources"]["c%s.c" % un] = "// %s\n" % un
                    c["ins"] = ["c%s.c" % un]
                    c["oins"] = [tail]
                if r.random() < 0.3:
                    c["restat"] = True
                sc["stmts"].append(c)
        return sc

    @staticmethod
    def roots(sc):
        # like State::RootNodes(): every output that no statement uses as an input (validations do not count)
        used = set()
        for s in sc["stmts"]:
            used.update(s["ins"] + s["iins"] + s["oins"])
        return [o for s in sc["stmts"] for o in all_outs(s) if o not in used]

    @staticmethod
    def all_targets(sc):
        return [o for s in sc["stmts"] for o in all_outs(s)]

    # ------------------------------------------------------------------ history
    def pick_targets(self, sc):
        r = self.r
        x = r.random()
        if x < 0.45:
            return []          # default targets
        outs = [s["outs"][0] for s in sc["stmts"]]
        return r.sample(outs, r.randint(1, min(3, len(outs))))

    def build_step(self, sc, faults=False, **kw):
        r = self.r
        st = {"op": "build", "targets": self.pick_targets(sc), "j": r.choice((1, 2, 3, 8)), "k": r.choice((1, 1, 2, 0)),
              "sched": {"mode": "prng", "seed": r.randint(1, 10 ** 6)}}
        if faults:
            cmds = [s for s in sc["stmts"] if s["kind"] != "phony"]
            n = r.randint(1, min(2, len(cmds)))
            st["faults"] = {s["outs"][0]: {"exit": r.choice((1, 2, 3, 127, 255)), "touch": r.random() < 0.5}
                            for s in r.sample(cmds, n)}
        st.update(kw)
        return st

    def change(self, sc, world_files, kinds=None):
        """Applies one random change to (sc, disk). Returns (steps, description) — steps for nsim; sc is
        mutated when the manifest changes. world_files: set of existing paths."""
        r = self.r
        kinds = kinds or ["edit", "edit", "touch", "rm_out", "cmd", "rsp", "rmlog", "rm_depfile", "edit_hdr", "edit_hdr"]
        for _ in range(20):
            k = r.choice(kinds)
            srcs = sorted(p for p in sc["sources"] if p.endswith((".c", ".cc", ".cpp", ".src")))    # .src: what dyndep files are scanned from
            hdrs = sorted(p for p in sc["sources"] if p.endswith(".h"))
            cmds = [s for s in sc["stmts"] if s["kind"] != "phony"]
            if k == "edit" and srcs:
                p = r.choice(srcs)
                sc["sources"][p] += "// e%d\n" % r.randint(0, 10 ** 6)
                return [{"op": "write", "path": p, "content": sc["sources"][p]}], ("edit", p)
            if k == "edit_hdr" and hdrs:
                p = r.choice(hdrs)
                sc["sources"][p] += "// e%d\n" % r.randint(0, 10 ** 6)
                return [{"op": "write", "path": p, "content": sc["sources"][p]}], ("edit", p)
            if k == "touch" and (srcs or hdrs):
                p = r.choice(srcs + hdrs)
                return [{"op": "touch", "path": p}], ("touch", p)
            if k == "rm_out":
                outs = [o for s in cmds for o in all_outs(s) if o in world_files]
                if outs:
                    p = r.choice(outs)
                    return [{"op": "rm", "path": p}], ("rm_out", p)
            if k == "rm_depfile":
                dfs = [s["depfile"] for s in cmds if s["deps"] == "depfile" and s["depfile"] in world_files]
                if dfs:
                    p = r.choice(dfs)
                    return [{"op": "rm", "path": p}], ("rm_depfile", p)
            if k == "cmd" and cmds:
                s = r.choice(cmds)
                s["ver"] += 1
                from .simlib import manifest_step
                return [manifest_step(sc)], ("cmd", s["id"])
            if k == "rsp":
                rs = [s for s in cmds if s["rsp"]]
                if rs:
                    s = r.choice(rs)
                    toks = s["rsp_content"].split(" ")
                    if len(toks) > 1 and r.random() < 0.45:
                        # the content gets shorter: what is left is the beginning of what was there (a flag or the last names dropped)
                        s["rsp_content"] = " ".join(toks[:-1])
                    else:
                        s["rsp_content"] += " x%d" % r.randint(0, 99)
                    from .simlib import manifest_step
                    return [manifest_step(sc)], ("rsp", s["id"])
            if k == "rmlog":
                w = r.choice(("ninja_log", "ninja_deps"))
                return [{"op": "rmlog", "which": w}], ("rmlog", w)
        return [], ("none", "")
