import json, os, re, subprocess, tempfile, shutil, signal
from concurrent.futures import ThreadPoolExecutor
from . import build

NCPU = os.cpu_count() or 4


def scratch(prefix="nverif-"):
    base = "/dev/shm" if os.path.isdir("/dev/shm") and os.access("/dev/shm", os.W_OK) else None
    return tempfile.mkdtemp(prefix=prefix, dir=base)


def rmtree(d):
    shutil.rmtree(d, ignore_errors=True)


_FRAME = re.compile(r"^\s*#\d+ 0x[0-9a-f]+ in (\S+)")


def san_signature(text):
    """Sanitizer report -> stable signature (kind + top 3 repo frames, no line numbers)."""
    kind = None
    m = re.search(r"(\w[\w:~]*)\([^)]*\): Assertion `(.*?)' failed", text) or re.search(r"()Assertion `(.*?)' failed", text)
    if m:
        fn = re.search(r"(\w+::\w+|\w+)\s*\([^()]*(\([^()]*\)[^()]*)*\): Assertion", text)
        return "assert:%s@%s" % (m.group(2)[:70], fn.group(1) if fn else "?")
    m = re.search(r"ERROR: AddressSanitizer: ([\w-]+)", text)
    if m:
        kind = "asan:" + m.group(1)
    else:
        m = re.search(r"runtime error: (.*)", text)
        if m:
            msg = re.sub(r"0x[0-9a-f]+|\d+", "N", m.group(1))
            kind = "ubsan:" + msg[:80]
        elif "terminate called" in text or "libc++abi" in text:
            kind = "uncaught-exception"
        elif "Assertion" in text and "failed" in text:
            m = re.search(r"Assertion `(.*?)' failed", text)
            kind = "assert:" + (m.group(1)[:60] if m else "?")
    if kind is None:
        return None
    frames = []
    for line in text.splitlines():
        m = _FRAME.match(line)
        if m:
            fn = m.group(1)
            if fn.startswith("__") or fn in ("malloc", "free", "operator", "memcpy", "memmove"):
                continue
            fn = re.sub(r"\(.*", "", fn)
            frames.append(fn)
            if len(frames) == 3:
                break
    return kind + "@" + ">".join(frames)


def run(cmd, timeout=600, env=None, input=None, cwd=None):
    """Runs cmd; returns (rc, stdout, stderr, timed_out)."""
    try:
        p = subprocess.run(cmd, stdout=subprocess.PIPE, stderr=subprocess.PIPE, timeout=timeout,
                           env=env if env is not None else build.san_env(), input=input, cwd=cwd)
        return p.returncode, p.stdout, p.stderr, False
    except subprocess.TimeoutExpired as e:
        return -999, e.stdout or b"", e.stderr or b"", True


def run_many(cmds, timeout=600, workers=NCPU, env=None):
    with ThreadPoolExecutor(max_workers=workers) as ex:
        return list(ex.map(lambda c: run(c, timeout=timeout, env=env), cmds))


def unhex(s):
    return bytes.fromhex(s)


def show(b):
    """bytes -> printable repr for evidence"""
    if isinstance(b, str):
        return b
    return b.decode("latin-1").encode("unicode_escape").decode("ascii")
