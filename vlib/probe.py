"""Runs many independent probe 'cases' (small scripts in a probe's command language) sharded over
all cores.  A sanitizer abort kills the probe process: the case in progress is blamed (last MARK
seen) and the shard is resumed after it, so one crash never hides the remaining cases."""
import os
from concurrent.futures import ThreadPoolExecutor
from . import util, build


def run_cases(binary, probe_name, cases, timeout=900, extra_args=(), workers=None):
    """cases: list of (case_id:str, script:str).  Returns (outputs, crashes, timeouts):
    outputs[case_id] = [lines]; crashes[case_id] = stderr text; timeouts = [case_id]."""
    workers = workers or util.NCPU
    shards = [cases[i::workers] for i in range(workers)]
    outputs, crashes, timeouts = {}, {}, []

    def run_shard(shard):
        res, cr, tos = {}, {}, []
        d = util.scratch("nprobe-")
        try:
            pending = list(shard)
            while pending:
                script = "".join("mark %s\n%s" % (cid, sc if sc.endswith("\n") else sc + "\n")
                                 for cid, sc in pending)
                rc, out, err, to = util.run([binary, probe_name] + list(extra_args),
                                            input=script.encode(), timeout=timeout, cwd=d)
                cur = None
                seen = []
                for ln in out.decode("latin-1").splitlines():
                    if ln.startswith("MARK "):
                        cur = ln[5:]
                        seen.append(cur)
                        res[cur] = []
                    elif cur is not None:
                        res[cur].append(ln)
                if rc == 0 and not to:
                    break
                # crashed or timed out inside case `cur` (or before the first mark)
                ids = [cid for cid, _ in pending]
                if cur is None:
                    cur = ids[0]
                if to:
                    tos.append(cur)
                else:
                    cr[cur] = err.decode("latin-1")
                res.pop(cur, None)
                k = ids.index(cur)
                pending = pending[k + 1:]
            return res, cr, tos
        finally:
            util.rmtree(d)

    with ThreadPoolExecutor(max_workers=workers) as ex:
        for res, cr, tos in ex.map(run_shard, shards):
            outputs.update(res)
            crashes.update(cr)
            timeouts.extend(tos)
    return outputs, crashes, timeouts
