"""Shared workload + monitors for C01 (incremental == clean), C02 (convergence), C03 (minimality):
generated histories run through nsim; every build step is judged offline from the recorded trace."""
import copy, json, random
from . import simlib, gen, model, util, core
from .simlib import all_outs, St, directives


def make_history(g, sc, rounds, allow_faults=True, allow_interrupt=True, allow_edit_running=True, change_kinds=None,
                 manifest_changes=True, nchg_choices=(1, 1, 1, 2, 3)):
    """-> (steps, meta) ; meta[i] = dict(kind=..., sc=<scenario snapshot valid for that step>)"""
    r = g.r
    steps, meta = [], []
    cur = copy.deepcopy(sc)

    def add(step, **m):
        steps.append(step)
        m["sc"] = copy.deepcopy(cur)
        meta.append(m)

    existing = set(cur["sources"])
    first = g.build_step(cur)
    first["targets"] = []
    add(first, kind="build", first=True)
    add(dict(first, sched={"mode": "prng", "seed": r.randint(1, 10 ** 6)}), kind="rebuild")
    for _ in range(rounds):
        nchg = r.choice(nchg_choices)
        descs = []
        for _ in range(nchg):
            st, desc = g.change(cur, existing | set(o for s in cur["stmts"] for o in all_outs(s)) |
                                set(s["depfile"] for s in cur["stmts"] if s["depfile"]), kinds=change_kinds)
            for s_ in st:
                add(s_, kind="change", desc=desc)
            descs.append(desc)
        if r.random() < 0.06:
            add({"op": "bloatlogs", "big": r.random() < 0.4}, kind="change", desc=("bloatlogs", ""))       # same records, many times over: due for recompaction (big: beyond the 256 KiB the log is read through at a time)
        x = r.random()
        b = g.build_step(cur)
        if allow_faults and x < 0.15:
            b = g.build_step(cur, faults=True)
            add(b, kind="build", faulty=True, changes=descs)
        elif allow_interrupt and x < 0.25:
            b["interrupt_at"] = r.randint(0, 3)
            add(b, kind="build", interrupted=True, changes=descs)
        elif allow_edit_running and x < 0.35:
            # edit a source while the command that reads it runs (non restat/generator readers only)
            cands = [s for s in cur["stmts"] if s["kind"] == "cmd" and not s["restat"] and not s["generator"] and s["ins"]
                     and s["ins"][0] in cur["sources"]
                     and not (s["dd"] and "#ddrestat" in cur["sources"][s["ins"][0]])]     # restat through the dyndep file
            if cands:
                s = r.choice(cands)
                p = s["ins"][0]
                cur["sources"][p] += "// live%d\n" % r.randint(0, 10 ** 6)
                b["edits"] = [{"after": s["outs"][0], "path": p, "content": cur["sources"][p]}]
                add(b, kind="build", edited_while_running=True, changes=descs)
            else:
                add(b, kind="build", changes=descs)
        else:
            add(b, kind="build", changes=descs)
        add(dict(b, sched={"mode": "prng", "seed": r.randint(1, 10 ** 6)}, faults={}, interrupt_at=-1, edits=[]),
            kind="rebuild")
        if r.random() < 0.3:
            add(dict(b, sched={"mode": "prng", "seed": r.randint(1, 10 ** 6)}, faults={}, interrupt_at=-1, edits=[]),
                kind="rebuild")
    return steps, meta


def make_regen_history(g, sc, rounds):
    """Histories with a manifest that ninja regenerates itself: `build build.ninja: r_regen config.txt` (generator).
    The content of config.txt selects one of several variants of the graph (command lines changed, statements added
    or removed); editing it makes the next invocation rebuild and reload the manifest before the real build.
    -> (files, stmts table, steps, meta)"""
    r = g.r
    base = copy.deepcopy(sc)
    base["sources"]["config.txt"] = "variant 0\n"
    regen_map = {}
    base["stmts"].append(St("regen", ["build.ninja"], ins=["config.txt"], kind="regen", generator=True,
                            regen=regen_map, regen_from="config.txt"))
    variants = [base]
    union = {s["id"]: s for s in base["stmts"]}
    nnew = 0
    for v in range(1, r.randint(2, 3) + 1):
        nv = copy.deepcopy(variants[-1])
        for s in nv["stmts"]:
            if s["kind"] == "regen":
                s["regen"] = regen_map
        cmds = [s for s in nv["stmts"] if s["kind"] == "cmd"]
        for _ in range(r.randint(1, 2)):
            k = r.choice(("ver", "ver", "add", "remove"))
            if k == "ver" and cmds:
                r.choice(cmds)["ver"] += 1
            elif k == "add":
                outs_avail = [o for s in cmds for o in s["outs"]]
                src = "cn%d.c" % nnew
                nid = "n%d" % nnew
                nnew += 1
                for vv in variants + [nv]:
                    vv["sources"][src] = "// added source %s\n" % nid
                st = St(nid, ["o/%s.o" % nid], ins=[src] + (r.sample(outs_avail, 1) if outs_avail and r.random() < 0.7 else []))
                if r.random() < 0.3:
                    st["restat"] = True
                nv["stmts"].append(st)
                union[nid] = st
                if nv["defaults"]:
                    nv["defaults"].append(st["outs"][0])
            elif k == "remove":
                users = set()
                for s in nv["stmts"]:
                    users |= set(s["ins"] + s["iins"] + s["oins"] + s["vals"])
                    if s["dyndep"]:
                        users.add(s["dyndep"])
                leafs = [s for s in cmds if not any(o in users for o in all_outs(s)) and not s["dd"] and s["kind"] == "cmd"]
                if leafs and len(cmds) > 1:
                    victim = r.choice(leafs)
                    nv["stmts"] = [s for s in nv["stmts"] if s is not victim]
                    nv["defaults"] = [d for d in nv["defaults"] if d not in all_outs(victim)]
                    cmds = [s for s in nv["stmts"] if s["kind"] == "cmd"]
        nv["sources"]["config.txt"] = "variant %d\n" % v
        variants.append(nv)
    for v, vv in enumerate(variants):
        regen_map["variant %d\n" % v] = simlib.render_manifest(vv)["build.ninja"]
    usc = copy.deepcopy(base)
    usc["stmts"] = [copy.deepcopy(x) for x in union.values()]
    table = simlib.render_stmts(usc)
    steps, meta = [], []
    cur_v = 0
    cur = copy.deepcopy(variants[0])

    def add(step, **m):
        steps.append(step)
        m["sc"] = copy.deepcopy(cur)
        meta.append(m)

    def bstep():
        b = g.build_step(cur)
        if r.random() < 0.6:
            b["targets"] = []
        return b
    first = bstep()
    first["targets"] = []
    add(first, kind="build", first=True)
    add(dict(first, sched={"mode": "prng", "seed": r.randint(1, 10 ** 6)}), kind="rebuild")
    existing = set(cur["sources"])
    for _ in range(rounds):
        descs = []
        if r.random() < 0.8:
            nvv = r.choice([x for x in range(len(variants)) if x != cur_v])
            srcs_now = cur["sources"]
            cur = copy.deepcopy(variants[nvv])
            for p_, c_ in srcs_now.items():          # edits made so far stay
                if p_ != "config.txt":
                    cur["sources"][p_] = c_
            cur_v = nvv
            add({"op": "write", "path": "config.txt", "content": cur["sources"]["config.txt"]}, kind="change", desc=("config", nvv))
            descs.append(("config", nvv))
        if r.random() < 0.5 or not descs:
            st, desc = g.change(cur, existing | set(o for s_ in cur["stmts"] for o in all_outs(s_)),
                                kinds=["edit", "edit_hdr", "touch", "rm_out"])
            for s_ in st:
                add(s_, kind="change", desc=desc)
            descs.append(desc)
        b = bstep()
        add(b, kind="build", changes=descs, regen=True)
        add(dict(b, sched={"mode": "prng", "seed": r.randint(1, 10 ** 6)}), kind="rebuild")
    files = dict(variants[0]["sources"])
    for vv in variants:
        for p_, c_ in vv["sources"].items():
            files.setdefault(p_, c_)
    files["config.txt"] = "variant 0\n"
    files["build.ninja"] = regen_map["variant 0\n"]
    return files, table, steps, meta


def make_dd_restat_history(g, sc):
    """The situation in which ninja has to take a verdict back: a statement whose restat flag comes from a dyndep file is
    left older than one of its inputs by a restat no-op; later the dyndep file has to be regenerated, so the first scan
    judges the statement without the flag (dirty), and the re-scan after loading the file finds it clean - together with
    the aliases and consumers behind it - while unrelated work is still pending."""
    r = g.r
    cur = copy.deepcopy(sc)
    served = [s for s in cur["stmts"] if s["dd"]]
    if not served:
        return None
    d = r.choice(served)
    src = d["ins"][0]
    # the dyndep file only orders this statement (were it an implicit input, rewriting it would make the statement dirty by
    # itself), and nothing the statement reads is produced by another statement that could be dirty
    if d["dyndep"] in d["iins"]:
        d["iins"].remove(d["dyndep"])
        d["oins"].append(d["dyndep"])
    hdr = sorted(p for p in cur["sources"] if p.startswith("m") and p.endswith(".h"))[0]
    lines = [l for l in cur["sources"][src].split("\n") if l and not (l.startswith("#include ") and not l[9:].endswith(".h"))]
    d["ins"] = [src]
    d["oins"] = [d["dyndep"]]
    if "#ddrestat" not in lines:
        lines.insert(0, "#ddrestat")
    if "#include " + hdr not in lines:
        lines.insert(0, "#include " + hdr)
    cur["sources"][src] = "\n".join(lines) + "\n"
    # nested aliases and a consumer behind it: they are wanted with it and have to leave the plan with it
    tail = d["outs"][0]
    for lv in range(r.randint(1, 4)):
        al = "alr_%s_%d" % (d["id"], lv)
        cur["stmts"].append(St(al, [al], ins=[tail], kind="phony"))
        tail = al
    cur["sources"]["cur_%s.c" % d["id"]] = "// consumer\n"
    cons = St("ur_" + d["id"], ["o/ur_%s.o" % d["id"]], ins=["cur_%s.c" % d["id"]])
    cons["oins" if r.random() < 0.5 else "ins"].append(tail)
    cur["stmts"].append(cons)
    if cur["defaults"]:
        cur["defaults"].append(cons["outs"][0])
    steps, meta = [], []

    def add(step, **m):
        steps.append(step)
        m["sc"] = copy.deepcopy(cur)
        meta.append(m)

    def b(targets=None):
        st = g.build_step(cur)
        st["targets"] = [] if targets is None else targets
        return st
    first = b()
    add(first, kind="build", first=True)
    add(dict(first, sched={"mode": "prng", "seed": r.randint(1, 10 ** 6)}), kind="rebuild")
    for _ in range(r.randint(1, 2)):
        add({"op": "touch", "path": hdr}, kind="change", desc=("touch", hdr))
        x = b()
        add(x, kind="build", changes=[("touch", hdr)])
        descs = []
        trig = "ddscan.src" if "ddscan.src" in cur["sources"] and r.random() < 0.9 else src
        add({"op": "touch", "path": trig}, kind="change", desc=("touch", trig))
        descs.append(("touch", trig))
        others = sorted(p for p in cur["sources"] if p.endswith(".c"))
        for p_ in r.sample(others, min(len(others), r.randint(1, 2))):
            cur["sources"][p_] += "// e%d\n" % r.randint(0, 10 ** 6)
            add({"op": "write", "path": p_, "content": cur["sources"][p_]}, kind="change", desc=("edit", p_))
            descs.append(("edit", p_))
        y = b()
        y["j"] = r.choice((1, 1, 2, 3))
        add(y, kind="build", changes=descs)
        add(dict(y, sched={"mode": "prng", "seed": r.randint(1, 10 ** 6)}), kind="rebuild")
    return cur, steps, meta


def run_dd_restat(ctx, focus, nscen, salt=11):
    rng = random.Random(ctx.seed * 7919 + {"C01": 1, "C02": 2, "C03": 3}.get(focus, 0) + salt * 104729)
    scenarios, metas = [], {}
    for n in range(nscen):
        g = gen.Gen(random.Random(rng.randint(0, 2 ** 60)), size=rng.randint(1, 4),
                    feat=dict(dyndep=1.0, restat=0.2, phony=0.2, deps=0.2, generator=0.0, chain=0.7, early=0.0))
        sc = g.scenario("%s-%d-ddr-%d" % (focus, ctx.seed, n))
        h = make_dd_restat_history(g, sc)
        if h is None:
            continue
        cur0, steps, meta = h
        base = copy.deepcopy(sc)
        base["sources"] = meta[0]["sc"]["sources"]
        scn = simlib.scenario_json(meta[0]["sc"], steps)
        scenarios.append(scn)
        metas[scn["id"]] = meta
    judge = HistoryJudge(ctx, focus)

    def handler(scn, results, err):
        if results is None:
            ctx.inconclusive += 1
            ctx.count("nsim_died")
            return
        try:
            judge.judge(scn, metas[scn["id"]], results)
            ctx.count("dyndep_restat_histories")
        except Exception:
            import traceback
            traceback.print_exc()
            ctx.inconclusive += 1
            ctx.count("judge_exceptions")
    simlib.run_scenarios(scenarios, handler)
    return scenarios


def make_dd_behind_clean_history(g, sc):
    """Work that is reachable only through what a dyndep file adds to a statement that is, and stays, up to date: the
    served statement D reads a generated header H (known from the dyndep file alone); H's producer is clean, but it has an
    order-only input X whose source was edited.  The dyndep file is regenerated in the same build (scanner configuration
    touched, content unchanged), so the information is loaded in the middle of the build, D is found clean by the re-scan,
    and X still has to be brought up to date before the build may say it succeeded - only D is asked for."""
    r = g.r
    cur = copy.deepcopy(sc)
    served = [s for s in cur["stmts"] if s["dd"]]
    if not served or "ddscan.src" not in cur["sources"]:
        return None
    d = r.choice(served)
    src = d["ins"][0]
    if d["dyndep"] in d["iins"]:
        d["iins"].remove(d["dyndep"])
        d["oins"].append(d["dyndep"])
    k = d["id"]
    cur["sources"]["gx_%s.c" % k] = "// behind the order-only input\n"
    cur["sources"]["gh_%s.c" % k] = "// generated header source\n"
    X = St("gx_" + k, ["o/gx_%s.o" % k], ins=["gx_%s.c" % k])
    depth = r.randint(0, 1)
    tail = X["outs"][0]
    extra = [X]
    if depth:
        al = "algx_" + k
        extra.append(St(al, [al], ins=[tail], kind="phony"))
        tail = al
    H = St("gh_" + k, ["o/gh_%s.h" % k], ins=["gh_%s.c" % k], oins=[tail])
    if r.random() < 0.3:
        H["vals"] = []
    extra.append(H)
    cur["stmts"] = extra + cur["stmts"] if r.random() < 0.5 else cur["stmts"] + extra
    cur["sources"][src] = "#include %s\n" % H["outs"][0] + cur["sources"][src]
    if cur["defaults"]:
        cur["defaults"].append(d["outs"][0])
    steps, meta = [], []

    def add(step, **m):
        steps.append(step)
        m["sc"] = copy.deepcopy(cur)
        meta.append(m)

    def b(targets=None):
        st = g.build_step(cur)
        st["targets"] = [] if targets is None else targets
        st.pop("faults", None)
        return st
    first = b()
    add(first, kind="build", first=True)
    add(dict(first, sched={"mode": "prng", "seed": r.randint(1, 10 ** 6)}), kind="rebuild")
    for _ in range(r.randint(1, 2)):
        descs = []
        add({"op": "touch", "path": "ddscan.src"}, kind="change", desc=("touch", "ddscan.src"))
        descs.append(("touch", "ddscan.src"))
        p_ = "gx_%s.c" % k
        cur["sources"][p_] += "// e%d\n" % r.randint(0, 10 ** 6)
        add({"op": "write", "path": p_, "content": cur["sources"][p_]}, kind="change", desc=("edit", p_))
        descs.append(("edit", p_))
        y = b([d["outs"][0]])
        y["j"] = r.choice((1, 1, 2, 3))
        add(y, kind="build", changes=descs)
        add(dict(y, sched={"mode": "prng", "seed": r.randint(1, 10 ** 6)}), kind="rebuild")
    return cur, steps, meta


def run_dd_behind_clean(ctx, focus, nscen, salt=19):
    rng = random.Random(ctx.seed * 7919 + {"C01": 1, "C02": 2, "C03": 3}.get(focus, 0) + salt * 104729)
    scenarios, metas = [], {}
    for n in range(nscen):
        g = gen.Gen(random.Random(rng.randint(0, 2 ** 60)), size=rng.randint(1, 4),
                    feat=dict(dyndep=1.0, restat=0.2, phony=0.2, deps=0.2, generator=0.0, chain=0.7, early=0.0))
        sc = g.scenario("%s-%d-ddc-%d" % (focus, ctx.seed, n))
        h = make_dd_behind_clean_history(g, sc)
        if h is None:
            continue
        cur0, steps, meta = h
        scn = simlib.scenario_json(meta[0]["sc"], steps)
        scenarios.append(scn)
        metas[scn["id"]] = meta
    judge = HistoryJudge(ctx, focus)

    def handler(scn, results, err):
        if results is None:
            ctx.inconclusive += 1
            ctx.count("nsim_died")
            return
        try:
            judge.judge(scn, metas[scn["id"]], results)
            ctx.count("dyndep_behind_clean_histories")
        except Exception:
            import traceback
            traceback.print_exc()
            ctx.inconclusive += 1
            ctx.count("judge_exceptions")
    simlib.run_scenarios(scenarios, handler)
    return scenarios


def make_rsp_kept_history(g, sc):
    """A response file that a failed command left on disk, and a content that gets shorter before the command is run again:
    the statement's rspfile_content grows, the command fails (ninja keeps the file for inspection), then the content loses its
    tail - what is to be written is the beginning of what is there - and the cause of the failure is gone."""
    r = g.r
    cur = copy.deepcopy(sc)
    rs = [s for s in cur["stmts"] if s["kind"] == "cmd" and s["rsp"] and not s["generator"]]
    if not rs:
        return None
    v = r.choice(rs)
    steps, meta = [], []

    def add(step, **m):
        steps.append(step)
        m["sc"] = copy.deepcopy(cur)
        meta.append(m)

    def b(**kw):
        st = g.build_step(cur)
        st["targets"] = []
        st.pop("faults", None)
        st.update(kw)
        return st
    first = b()
    add(first, kind="build", first=True)
    for _ in range(r.randint(1, 2)):
        v["rsp_content"] += " -Wextra%d -Dlong_tail=%d" % (r.randint(0, 99), r.randint(0, 99))
        add(simlib.manifest_step(cur), kind="change", desc=("rsp", v["id"]))
        y = b(k=r.choice((1, 0)))
        y["faults"] = {v["outs"][0]: {"exit": r.choice((1, 2, 3)), "touch": r.random() < 0.3}}
        add(y, kind="build", faulty=True, changes=[("rsp", v["id"])])
        toks = v["rsp_content"].split(" ")
        v["rsp_content"] = " ".join(toks[:-r.randint(1, 2)])
        add(simlib.manifest_step(cur), kind="change", desc=("rsp", v["id"]))
        z = b()
        add(z, kind="build", changes=[("rsp", v["id"])])
        add(dict(z, sched={"mode": "prng", "seed": r.randint(1, 10 ** 6)}), kind="rebuild")
    return cur, steps, meta


def run_rsp_kept(ctx, focus, nscen, salt=23):
    rng = random.Random(ctx.seed * 7919 + {"C01": 1, "C02": 2, "C03": 3}.get(focus, 0) + salt * 104729)
    scenarios, metas = [], {}
    for n in range(nscen):
        g = gen.Gen(random.Random(rng.randint(0, 2 ** 60)), size=rng.randint(2, 6),
                    feat=dict(rsp=0.9, deps=0.3, restat=0.15, phony=0.15, generator=0.0, chain=0.7, dyndep=0.0))
        sc = g.scenario("%s-%d-rspk-%d" % (focus, ctx.seed, n))
        h = make_rsp_kept_history(g, sc)
        if h is None:
            continue
        cur0, steps, meta = h
        scn = simlib.scenario_json(meta[0]["sc"], steps)
        scenarios.append(scn)
        metas[scn["id"]] = meta
    judge = HistoryJudge(ctx, focus)

    def handler(scn, results, err):
        if results is None:
            ctx.inconclusive += 1
            ctx.count("nsim_died")
            return
        try:
            judge.judge(scn, metas[scn["id"]], results)
            ctx.count("rspfile_kept_then_shorter_histories")
        except Exception:
            import traceback
            traceback.print_exc()
            ctx.inconclusive += 1
            ctx.count("judge_exceptions")
    simlib.run_scenarios(scenarios, handler)
    return scenarios


def make_dd_deps_history(g, sc):
    """A statement served by a dyndep file that also has discovered dependencies of its own (depfile / deps log).  What the
    scan finds out about those - record missing, or older than the output because the command failed after rewriting it, or
    the depfile gone - must survive the second look ninja takes at the statement after the dyndep file, regenerated in the
    same build, has been loaded."""
    r = g.r
    cur = copy.deepcopy(sc)
    served = [s for s in cur["stmts"] if s["dd"] and s["deps"] != "none" and s["dyndep"] and not s["dyndep_on_rule"]]
    if not served:
        return None
    d = r.choice(served)
    if r.random() < 0.7:
        # the dyndep file order-only (a regenerated file that is a real input makes the statement out of date by itself)
        d["iins"] = [x for x in d["iins"] if x != d["dyndep"]]
        if d["dyndep"] not in d["oins"]:
            d["oins"].append(d["dyndep"])
    nested = "q_%s.h" % d["id"]
    if nested not in cur["sources"]:
        return None
    steps, meta = [], []

    def add(step, **m):
        steps.append(step)
        m["sc"] = copy.deepcopy(cur)
        meta.append(m)

    def b(**kw):
        st = g.build_step(cur)
        st["targets"] = []
        st.update(kw)
        return st
    first = b()
    add(first, kind="build", first=True)
    add(dict(first, sched={"mode": "prng", "seed": r.randint(1, 10 ** 6)}), kind="rebuild")
    for _ in range(r.randint(1, 2)):
        how = r.choice(("failed-after-writing", "failed-after-writing", "rmlog", "rm_depfile"))
        descs = []
        if how == "failed-after-writing":
            cur["sources"][nested] += "// e%d\n" % r.randint(0, 10 ** 6)
            add({"op": "write", "path": nested, "content": cur["sources"][nested]}, kind="change", desc=("edit", nested))
            f = b(k=r.choice((1, 0)))
            f["faults"] = {d["outs"][0]: {"exit": r.choice((1, 2, 255)), "touch": True}}
            add(f, kind="build", faulty=True, changes=[("edit", nested)])
            if r.random() < 0.5:
                cur["sources"][nested] += "// e%d\n" % r.randint(0, 10 ** 6)
                add({"op": "write", "path": nested, "content": cur["sources"][nested]}, kind="change", desc=("edit", nested))
                descs.append(("edit", nested))
        elif how == "rmlog":
            add({"op": "rmlog", "which": "ninja_deps"}, kind="change", desc=("rmlog", "ninja_deps"))
            descs.append(("rmlog", "ninja_deps"))
        else:
            if d["deps"] != "depfile" or not d["depfile"]:
                continue
            add({"op": "rm", "path": d["depfile"]}, kind="change", desc=("rm_depfile", d["depfile"]))
            descs.append(("rm_depfile", d["depfile"]))
        # ... and the dyndep file has to be made again in the next build
        scan = next((s_ for s_ in cur["stmts"] if s_["kind"] == "scan" and d["dyndep"] in s_["outs"] + s_["iouts"]), None)
        trig = None
        if scan is not None:
            cfgs = [x for x in scan["ins"] if x.startswith("ddscan")]
            trig = r.choice(cfgs) if cfgs else None
        if trig is None:
            return None
        add({"op": "touch", "path": trig}, kind="change", desc=("touch", trig))
        descs.append(("touch", trig))
        y = b(j=r.choice((1, 1, 2, 3)))
        add(y, kind="build", changes=descs)
        add(dict(y, sched={"mode": "prng", "seed": r.randint(1, 10 ** 6)}), kind="rebuild")
    return cur, steps, meta


def run_dd_deps(ctx, focus, nscen, salt=17):
    rng = random.Random(ctx.seed * 7919 + {"C01": 1, "C02": 2, "C03": 3}.get(focus, 0) + salt * 104729)
    scenarios, metas = [], {}
    for n in range(nscen):
        g = gen.Gen(random.Random(rng.randint(0, 2 ** 60)), size=rng.randint(1, 4),
                    feat=dict(dyndep=1.0, dd_deps=0.9, restat=0.15, phony=0.15, deps=0.3, generator=0.0, chain=0.7, early=0.0))
        sc = g.scenario("%s-%d-ddd-%d" % (focus, ctx.seed, n))
        h = make_dd_deps_history(g, sc)
        if h is None:
            continue
        cur0, steps, meta = h
        scn = simlib.scenario_json(meta[0]["sc"], steps)
        scenarios.append(scn)
        metas[scn["id"]] = meta
    judge = HistoryJudge(ctx, focus)

    def handler(scn, results, err):
        if results is None:
            ctx.inconclusive += 1
            ctx.count("nsim_died")
            return
        try:
            judge.judge(scn, metas[scn["id"]], results)
            ctx.count("dyndep_plus_own_deps_histories")
        except Exception:
            import traceback
            traceback.print_exc()
            ctx.inconclusive += 1
            ctx.count("judge_exceptions")
    simlib.run_scenarios(scenarios, handler)
    return scenarios


def make_late_deps_history(g, sc):
    """A generated header that other statements know from their recorded dependencies gets `deps =` itself only later (the
    manifest is edited), so that in the deps log its consumers come first; then the logs grow until ninja recompacts them
    on its own during a run in which nothing else happens."""
    r = g.r
    cur = copy.deepcopy(sc)
    incl = {}
    for s in cur["stmts"]:
        if s["kind"] == "cmd" and s["deps"] != "none":
            for p_ in directives(cur["sources"].get(s["ins"][0], ""), "#include"):
                incl.setdefault(p_, []).append(s)
    cands = [s for s in cur["stmts"] if s["kind"] == "cmd" and s["deps"] == "none" and not s["generator"] and s["outs"][0] in incl]
    if not cands:
        return None
    gsts = r.sample(cands, min(len(cands), r.randint(1, 2)))
    steps, meta = [], []

    def add(step, **m):
        steps.append(step)
        m["sc"] = copy.deepcopy(cur)
        meta.append(m)

    def b():
        st = g.build_step(cur)
        st["targets"] = []
        return st
    first = b()
    add(first, kind="build", first=True)
    add(dict(first, sched={"mode": "prng", "seed": r.randint(1, 10 ** 6)}), kind="rebuild")
    for gs in gsts:
        gs["deps"] = r.choice(("gcc", "msvc"))
        if gs["deps"] == "gcc":
            gs["depfile"] = gs["outs"][0] + ".d"
    add(simlib.manifest_step(cur), kind="change", desc=("add_deps", [x["id"] for x in gsts]))
    x = b()
    add(x, kind="build", changes=[("add_deps", [q["id"] for q in gsts])])
    add(dict(x, sched={"mode": "prng", "seed": r.randint(1, 10 ** 6)}), kind="rebuild")
    for _ in range(r.randint(1, 2)):
        add({"op": "bloatlogs", "big": r.random() < 0.5}, kind="change", desc=("bloatlogs", ""))
        y = b()
        add(y, kind="rebuild")            # nothing changed: the run that recompacts must do nothing else
        add(dict(y, sched={"mode": "prng", "seed": r.randint(1, 10 ** 6)}), kind="rebuild")
        if r.random() < 0.5:
            st_, desc = g.change(cur, set(), kinds=["edit", "edit_hdr", "touch"])
            for s_ in st_:
                add(s_, kind="change", desc=desc)
            z = b()
            add(z, kind="build", changes=[desc])
            add(dict(z, sched={"mode": "prng", "seed": r.randint(1, 10 ** 6)}), kind="rebuild")
    return steps, meta


def run_late_deps(ctx, focus, nscen, salt=13):
    rng = random.Random(ctx.seed * 7919 + {"C01": 1, "C02": 2, "C03": 3}.get(focus, 0) + salt * 104729)
    scenarios, metas = [], {}
    for n in range(nscen):
        g = gen.Gen(random.Random(rng.randint(0, 2 ** 60)), size=rng.randint(3, 7),
                    feat=dict(deps=0.6, restat=0.15, phony=0.1, generator=0.0, chain=0.8, dyndep=0.0, early=0.0, rsp=0.05, vals=0.05))
        sc = g.scenario("%s-%d-late-%d" % (focus, ctx.seed, n))
        sc["defaults"] = []
        h = make_late_deps_history(g, sc)
        if h is None:
            continue
        steps, meta = h
        scn = simlib.scenario_json(sc, steps)
        scenarios.append(scn)
        metas[scn["id"]] = meta
    judge = HistoryJudge(ctx, focus)

    def handler(scn, results, err):
        if results is None:
            ctx.inconclusive += 1
            ctx.count("nsim_died")
            return
        try:
            judge.judge(scn, metas[scn["id"]], results)
            ctx.count("late_deps_histories")
        except Exception:
            import traceback
            traceback.print_exc()
            ctx.inconclusive += 1
            ctx.count("judge_exceptions")
    simlib.run_scenarios(scenarios, handler)
    return scenarios


def run_regen(ctx, focus, nscen, size_range=(2, 6), rounds=(2, 4), salt=7, feat=None):
    rng = random.Random(ctx.seed * 7919 + {"C01": 1, "C02": 2, "C03": 3}.get(focus, 0) + salt * 104729)
    scenarios, metas = [], {}
    f = dict(dyndep=0.0, generator=0.0, phony=0.15)
    f.update(feat or {})
    for n in range(nscen):
        g = gen.Gen(random.Random(rng.randint(0, 2 ** 60)), size=rng.randint(*size_range), feat=f)
        sc = g.scenario("%s-%d-regen-%d" % (focus, ctx.seed, n))
        files, table, steps, meta = make_regen_history(g, sc, rng.randint(*rounds))
        # the config file is written before the manifest so that the manifest starts out up to date
        ordered = {p_: c_ for p_, c_ in files.items() if p_ != "build.ninja"}
        ordered["build.ninja"] = files["build.ninja"]
        scn = {"id": sc["id"], "files": ordered, "stmts": table, "steps": steps}
        scenarios.append(scn)
        metas[scn["id"]] = meta
    judge = HistoryJudge(ctx, focus)

    def handler(scn, results, err):
        if results is None:
            ctx.inconclusive += 1
            ctx.count("nsim_died")
            return
        try:
            regens = sum(1 for res in results if res.get("op") == "build"
                         for ev in res.get("trace", {}).get("events", []) if ev.get("e") == "REGEN")
            ctx.count("manifest_regenerations_observed", regens)
            judge.judge(scn, metas[scn["id"]], results)
        except Exception:
            import traceback
            traceback.print_exc()
            ctx.inconclusive += 1
            ctx.count("judge_exceptions")
    simlib.run_scenarios(scenarios, handler)
    return scenarios


def default_targets(sc):
    return sc["defaults"] or gen.Gen.roots(sc)


class HistoryJudge:
    """Replays one scenario's results and produces verdict callbacks."""

    def __init__(self, ctx, focus):
        self.ctx = ctx
        self.focus = focus      # "C01" | "C02" | "C03"

    def judge(self, scn, meta, results):
        ctx = self.ctx
        self.cur_meta = meta
        world = None                # {path: [mtime, content]} after the previous step
        recs = model.Records()
        converged_for = None        # (targets tuple) if the previous step was a successful build of these
        prev_ok_build = None
        files0 = dict(scn["files"])
        sources = {p: c for p, c in files0.items()}
        pending_unjudged_edit = False
        self.prov = {}              # path -> who wrote the current content: ok-cmd | failed-cmd | killed-cmd | edit
        for i, res in enumerate(results):
            m = meta[i]
            sc = m["sc"]
            if res.get("skipped"):
                return
            if res["op"] != "build":
                # scripted change: keep our copy of the sources / records in step
                st = scn["steps"][i]
                if st["op"] == "rmlog":
                    if "log" in st["which"]:
                        recs.drop_log()
                    if "deps" in st["which"]:
                        recs.drop_deps()
                if world is not None:
                    for ev in res.get("events", []):
                        if ev["e"] == "W":
                            world[ev["p"]] = [ev["t"], self._content_of(scn, st, ev["p"], world)]
                        elif ev["e"] == "RM":
                            world.pop(ev["p"], None)
                converged_for = None
                continue
            tr = res.get("trace", {})
            if tr.get("crash"):
                sig = util.san_signature(tr.get("stderr", "")) or ("timeout" if tr.get("timeout") else "crash-signal-%s" % tr.get("signal"))
                ctx.violation("%s/nsim-crash/%s" % (self.focus, sig), "scenario %s step %d: %s" % (scn["id"], i, tr.get("stderr", "")[-1500:]),
                              {"scenario": scn})
                return
            before = world
            world = tr["world"]["files"]
            result = tr["result"]
            events = tr["events"]
            step = scn["steps"][i]
            srcs = {p: v[1] for p, v in world.items() if p in sc["sources"]}
            try:
                graph = model.Graph(sc, srcs)
                clean, clean_reads = graph.clean()
            except model.Invalid as e:
                ctx.inconclusive += 1
                ctx.count("invalid_scenarios")
                return
            targets = step["targets"] or default_targets(sc)
            # ninja brings a manifest that is itself a build output up to date first, whatever was asked for
            regen_outs = [o for s_ in sc["stmts"] if s_["kind"] == "regen" for o in s_["outs"]]
            targets = list(targets) + [o for o in regen_outs if o not in targets]
            started = [ev["o"] for ev in events if ev["e"] == "S"]
            started_ids = {graph.producer[o]["id"] for o in started if o in graph.producer}
            ok = result.get("exit") == 0
            concurrent_edit = any(ev["e"] in ("W", "RM") and ev.get("by") == "edit" for ev in events)
            ctx.evaluations += 1
            ctx.count("builds")
            if m.get("faulty"):
                ctx.count("builds_with_faults")
            if m.get("interrupted"):
                ctx.count("builds_interrupted")
            # ---------------- C03: expected set, computed from the state *before* this build
            if self.focus == "C03" and before is not None and ok and not step.get("faults") and step.get("interrupt_at", -1) < 0 \
                    and not concurrent_edit and not pending_unjudged_edit:
                self._c03(scn, i, m, graph, clean, before, recs, targets, started_ids, events)
            # ---------------- provenance of file contents
            fstat = {ev["o"]: ev["status"] for ev in events if ev["e"] == "F"}
            for ev in events:
                if ev["e"] == "W" and ev.get("by", "").startswith("cmd:"):
                    o = ev["by"][4:]
                    self.prov[ev["p"]] = "ok-cmd" if fstat.get(o) == 0 else ("failed-cmd" if o in fstat else "killed-cmd")
                elif ev["e"] == "W" and ev.get("by") == "edit":
                    self.prov[ev["p"]] = "edit"
            # ---------------- records
            recs_before = recs.copy()
            recs.observe_build(graph, events, world)
            # ---------------- C01
            if ok and not concurrent_edit and self.focus == "C01":
                self._c01(scn, i, m, graph, clean, world, recs, targets, started_ids, before, recs_before)
            if ok and not concurrent_edit:
                pending_unjudged_edit = False
            if concurrent_edit:
                pending_unjudged_edit = True
                ctx.count("builds_with_concurrent_edit")
            # ---------------- C02
            if self.focus == "C02" and m["kind"] == "rebuild" and prev_ok_build is not None and ok:
                pj, pstep = prev_ok_build
                if pstep["targets"] == step["targets"]:
                    self._c02(scn, i, m, graph, result, started, world, targets)
            prev_ok_build = (i, step) if (ok and not concurrent_edit) else None

    def _content_of(self, scn, st, path, world):
        if st["op"] == "write":
            return st["content"]
        if st["op"] == "manifest":
            return st["files"].get(path, "")
        return world.get(path, [0, ""])[1]

    # ------------------------------------------------------------------ C01
    def _c01(self, scn, i, m, graph, clean, world, recs, targets, started_ids, before, recs_before):
        ctx = self.ctx
        wfiles = {p: v[1] for p, v in world.items()}
        extra = {}
        for s in graph.sc["stmts"]:
            if s["kind"] != "phony":
                d = model.discovered(graph, s, recs, wfiles, {p: v[0] for p, v in world.items()})
                if d:
                    extra[s["id"]] = d
        C = graph.closure(targets, extra)
        ncmp = 0
        try:
            order = graph.topo(C, extra)      # most upstream difference first: that is the root cause
        except model.Invalid:
            order = sorted(C)
        for sid in order:
            s = graph.by_id[sid]
            if s["kind"] == "phony":
                continue
            for o in graph.outs(s):
                ncmp += 1
                got = world.get(o)
                if got is None or got[1] != clean.get(o):
                    ran = sid in started_ids
                    why = "?"
                    if before is not None:
                        try:
                            _, reasons = model.expected_runs(graph, targets, before, recs_before, clean)
                            why = "+".join(sorted(set(x.split(":")[0] + (":disc" if x.split(":")[-1] not in graph.decl_inputs(s) and ":" in x else "")
                                                      for x in reasons.get(sid, [])))) or "none"
                        except model.Invalid:
                            pass
                    prov = self.prov.get(o, "?")
                    sig = "C01/%s/%s/deps=%s%s/why=%s%s" % ("missing" if got is None else "stale", "ran" if ran else "not-run",
                                                            s["deps"], "/restat" if graph.restat(s) else "", why,
                                                            "/content-left-by-" + prov if prov not in ("ok-cmd", "?") else "")
                    if prov == "failed-cmd" and why == "none" and not ran:
                        sig = "C01/stale/not-run/why=none/content-left-by-failed-cmd"
                    # the failed command had already truncated its depfile: the discovered dependencies that made it dirty
                    # (the only reasons the model has) are gone with it and the old log record vouches for what it left
                    dfc = world.get(s["depfile"]) if s["depfile"] else None
                    if prov == "failed-cmd" and not ran and s["deps"] == "depfile" and dfc is not None and dfc[1] == s["outs"][0] + ": \\\n" \
                            and why != "none" and all(x.endswith(":disc") for x in why.split("+")):
                        sig = "C01/stale/not-run/depfile-truncated-by-failed-cmd"
                    ctx.violation(sig, "scenario %s step %d (%s): after a successful build of %s, %s is %r but a clean build gives %r; "
                                       "statement %s %s in this build; model reasons: %s" %
                                  (scn["id"], i, m.get("changes"), targets, o, got and got[1], clean.get(o), sid,
                                   "ran" if ran else "did not run", why), {"scenario": scn, "step": i, "meta": self.cur_meta})
                    return
        ctx.count("files_compared", ncmp)
        ctx.count("successful_builds_judged")
        if m.get("changes"):
            ctx.nontrivial((scn["id"], i))
        if any(meta_prev for meta_prev in [m] if m.get("kind") == "build") and len(ctx.samples) < 2 and m.get("changes") and started_ids:
            ctx.sample({"scenario": scn["id"], "step": i, "changes": m.get("changes"), "targets": targets,
                        "ran": sorted(started_ids), "files_compared": ncmp})

    # ------------------------------------------------------------------ C02
    def _c02(self, scn, i, m, graph, result, started, world, targets):
        ctx = self.ctx
        # documented always-dirty case: phony without inputs whose file is missing in the closure
        C = graph.closure(targets)
        for sid in C:
            s = graph.by_id[sid]
            if s["kind"] == "phony" and not (s["ins"] or s["iins"] or s["oins"] or s["vals"]) and any(o not in world for o in s["outs"]):
                ctx.count("always_dirty_phony_skipped")
                return
        ctx.count("rebuilds_judged")
        ctx.nontrivial((scn["id"], i))
        if started or not result.get("uptodate"):
            sids = sorted({graph.producer[o]["id"] for o in started if o in graph.producer})
            kinds = sorted({("deps=" + graph.by_id[x]["deps"]) + ("/restat" if graph.restat(graph.by_id[x]) else "") for x in sids})
            ctx.violation("C02/not-converged/%s" % ",".join(kinds),
                          "scenario %s step %d: immediately after a successful build of %s, running again started %s (uptodate=%s)" %
                          (scn["id"], i, targets, started, result.get("uptodate")), {"scenario": scn, "step": i, "meta": self.cur_meta})
        elif len(ctx.samples) < 2:
            ctx.sample({"scenario": scn["id"], "step": i, "targets": targets, "no_work": True})

    # ------------------------------------------------------------------ C03
    def _c03(self, scn, i, m, graph, clean, before, recs, targets, started_ids, events):
        ctx = self.ctx
        try:
            exp, reasons = model.expected_runs(graph, targets, before, recs, clean)
        except model.Invalid:
            ctx.inconclusive += 1
            return
        ctx.count("c03_builds_judged")
        if m.get("changes"):
            ctx.nontrivial((scn["id"], i))
        if exp == started_ids:
            ctx.count("c03_sets_equal")
            ctx.count("c03_commands_expected", len(exp))
            if len(ctx.samples) < 3 and exp and m.get("changes"):
                ctx.sample({"scenario": scn["id"], "step": i, "changes": m.get("changes"), "expected_and_ran": sorted(exp)})
            return
        unneeded = started_ids - exp
        missed = exp - started_ids
        for kind, ids in (("unneeded", unneeded), ("missed", missed)):
            for sid in sorted(ids)[:1]:
                s = graph.by_id[sid]
                why = "+".join(sorted(set(x.split(":")[0] for x in reasons.get(sid, [])))) or "none"
                ctx.violation("C03/%s/deps=%s%s/why=%s" % (kind, s["deps"], "/restat" if graph.restat(s) else "", why),
                              "scenario %s step %d changes=%s targets=%s: ran %s, expected %s; %s=%s reasons=%s" %
                              (scn["id"], i, m.get("changes"), targets, sorted(started_ids), sorted(exp), kind, sid, reasons.get(sid)),
                              {"scenario": scn, "step": i, "meta": self.cur_meta})


def replay(ctx, focus, path):
    j = json.load(open(path))["replay"]
    scn, meta = j["scenario"], j["meta"]
    judge = HistoryJudge(ctx, focus)
    w = simlib.NsimWorker(simlib.nsim_bin())
    res = w.run(scn)
    w.close()
    judge.judge(scn, meta, res)
    ctx.distinct_extra += 2
    print("replayed scenario %s: %d violations" % (scn["id"], len(ctx.violations)))


def run_incremental(ctx, focus, nscen, size_range=(3, 9), rounds=(2, 5), feat=None, salt=0, **hopts):
    rng = random.Random(ctx.seed * 7919 + {"C01": 1, "C02": 2, "C03": 3}.get(focus, 0) + salt * 104729)
    judge = HistoryJudge(ctx, focus)
    BATCH = 2000       # scenarios (and what the judge needs about them) are made, run, judged and dropped in batches
    for base in range(0, nscen, BATCH):
        scenarios, metas = [], {}
        for n in range(base, min(nscen, base + BATCH)):
            g = gen.Gen(random.Random(rng.randint(0, 2 ** 60)), size=rng.randint(*size_range), feat=feat)
            sc = g.scenario("%s-%d-%d-%d" % (focus, ctx.seed, salt, n))
            steps, meta = make_history(g, sc, rng.randint(*rounds), **hopts)
            scn = simlib.scenario_json(sc, steps)
            scenarios.append(scn)
            metas[scn["id"]] = meta

        def handler(scn, results, err):
            if results is None:
                ctx.inconclusive += 1
                ctx.count("nsim_died")
                return
            try:
                judge.judge(scn, metas[scn["id"]], results)
            except Exception as e:
                import traceback
                traceback.print_exc()
                ctx.inconclusive += 1
                ctx.count("judge_exceptions")
        simlib.run_scenarios(scenarios, handler)
