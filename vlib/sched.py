"""Schedule exploration on small graphs (C04, C05, C06): completion orders are enumerated exhaustively
by nsim (stateless re-execution over choice lists) or sampled; the monitors below judge every trace."""
import copy, json, os, random
from . import simlib, gen, model, util, core
from .simlib import all_outs, rsp_string, hhex, DiskReplay
from .logmodel import parse_build_log, parse_deps_log, deps_view


def small_scenarios(ctx, focus, n, rng, size=(2, 6), feat=None, with_history=0.5, faults=False, jobserver=0.0,
                    cap=300, salt=0, change_kinds=None, build_everything_first=False):
    """-> list of (scenario_json, info) ; the last step of every scenario is an exploring build."""
    out = []
    for k in range(n):
        g = gen.Gen(random.Random(rng.randint(0, 2 ** 60)), size=rng.randint(*size), feat=feat)
        sc = g.scenario("%s-%d-%d-%d" % (focus, ctx.seed, salt, k))
        if build_everything_first:
            sc["defaults"] = []          # no argument = every root: nothing stays unbuilt after the first build
        steps, scs = [], []
        cur = copy.deepcopy(sc)
        base = sc
        if rng.random() < with_history:
            b = g.build_step(cur)
            b["targets"] = []
            if build_everything_first and any(s_.get("nmp") for s_ in cur["stmts"]):
                # the first build is done with the generated headers still declared (order-only), as a project starts out;
                # the declarations are then dropped and the recorded discoveries are all that is left
                base = copy.deepcopy(sc)
                for s_ in base["stmts"]:
                    for h in s_.get("nmp", []):
                        if h not in s_["oins"]:
                            s_["oins"].append(h)
                steps.append(b)
                scs.append(copy.deepcopy(base))
                steps.append(simlib.manifest_step(cur))
                scs.append(copy.deepcopy(cur))
            else:
                steps.append(b)
                scs.append(copy.deepcopy(cur))
            for _ in range(rng.randint(1, 3)):
                st, desc = g.change(cur, set(), kinds=change_kinds or ["edit", "edit_hdr", "touch", "cmd", "rm_out", "edit", "rmlog"])
                for s_ in st:
                    steps.append(s_)
                    scs.append(copy.deepcopy(cur))
        j = rng.choice((1, 2, 2, 3, 3, 8, 8))
        kk = rng.choice((1, 1, 2, 3, 0))
        ex = {"op": "build", "targets": g.pick_targets(cur), "j": j, "k": kk, "sched": {"mode": "all", "cap": cap, "keep_world": True}}
        if faults:
            cmds = [s for s in cur["stmts"] if s["kind"] != "phony"]
            nf = rng.randint(1, min(3, len(cmds)))
            ex["faults"] = {s["outs"][0]: {"exit": rng.choice((1, 2, 3, 127, 255)), "touch": rng.random() < 0.5}
                            for s in rng.sample(cmds, nf)}
        if rng.random() < jobserver:
            ex["jobserver"] = {"tokens": rng.randint(0, 4), "thief": [rng.choice((0, 0, -1, 1, -2, 2)) for _ in range(rng.randint(0, 8))]}
        steps.append(ex)
        scs.append(copy.deepcopy(cur))
        scn = simlib.scenario_json(base, steps)
        out.append((scn, {"scs": scs, "explore_step": len(steps) - 1}))
    return out


class TraceView:
    """Everything the monitors need about one explored run."""

    def __init__(self, sc, step, trace, world_before, recs_before):
        self.sc, self.step, self.trace = sc, step, trace
        self.events = trace["events"]
        self.result = trace["result"]
        self.world_before = world_before        # {path: [mtime, content]}
        self.recs_before = recs_before
        srcs = {p: v[1] for p, v in world_before.items() if p in sc["sources"]}
        self.graph = model.Graph(sc, srcs)
        self.clean, self.clean_reads = self.graph.clean()
        self.targets = step["targets"] or (sc["defaults"] or gen.Gen.roots(sc))
        wfiles = {p: v[1] for p, v in world_before.items()}
        wm = {p: v[0] for p, v in world_before.items()}
        self.disc = {}
        for s in sc["stmts"]:
            if s["kind"] != "phony":
                d = model.discovered(self.graph, s, recs_before, wfiles, wm)
                if d:
                    self.disc[s["id"]] = d
        self.closure = self.graph.closure(self.targets, self.disc)
        self.pairs = model.ordering_constraints(self.graph, self.closure, self.disc)
        self.preds = {}
        for p, c in self.pairs:
            self.preds.setdefault(c, set()).add(p)
        self.sid_of = {s["outs"][0]: s["id"] for s in sc["stmts"]}

    def ancestors(self, sid):
        seen, work = set(), [sid]
        while work:
            x = work.pop()
            for p in self.preds.get(x, ()):
                if p not in seen:
                    seen.add(p)
                    work.append(p)
        return seen

    def needed_files(self, s):
        """files that must be in place when s starts: every input (phony looked through), dyndep inputs,
        recorded discoveries"""
        g = self.graph
        out, seen = [], set()

        def add(f):
            if f in seen:
                return
            seen.add(f)
            p = g.producer.get(f)
            if p is not None and p["kind"] == "phony":
                for q in g.all_inputs(p):
                    add(q)
            else:
                out.append(f)
        for f in g.all_inputs(s) + list(self.disc.get(s["id"], [])):
            add(f)
        return out


# ---------------------------------------------------------------------------------------------- C04
def monitor_c04(ctx, scn, tv):
    g = tv.graph
    disk = DiskReplay({p: (v[0], hhex(v[1])) for p, v in tv.world_before.items()})
    disk.dirs = set()
    nchecks = 0
    for i, ev in enumerate(tv.events):
        if ev["e"] != "S":
            disk.apply(ev)
            continue
        sid = tv.sid_of.get(ev["o"])
        if sid is None:
            ctx.violation("C04/unknown-edge-started", "scenario %s: START of %s" % (scn["id"], ev["o"]), {"scenario": scn})
            return
        s = g.by_id[sid]
        for f in tv.needed_files(s):
            nchecks += 1
            p = g.producer.get(f)
            cur = disk.f.get(f)
            if p is None:
                if cur is None and f in g.decl_inputs(s):
                    ctx.count("c04_missing_source_at_start")
                continue
            want = tv.clean.get(f)
            if cur is None or (want is not None and cur[1] != hhex(want)):
                kind = "order-only" if f in s["oins"] else ("discovered" if f in tv.disc.get(sid, []) and f not in g.all_inputs(s) else
                                                            "dyndep" if f in g.dd_iins.get(sid, []) else "declared")
                # was the producer still to run / running?
                started = [e2["o"] for e2 in tv.events[:i] if e2["e"] == "S"]
                finished = [e2["o"] for e2 in tv.events[:i] if e2["e"] == "F"]
                pst = "running" if p["outs"][0] in started and p["outs"][0] not in finished else (
                    "not-started-yet" if p["outs"][0] in [e2["o"] for e2 in tv.events[i:] if e2["e"] == "S"] else
                    ("finished" if p["outs"][0] in finished else "never-ran"))
                ctx.violation("C04/input-not-ready/%s/producer-%s" % (kind, pst),
                              "scenario %s choices=%s: %s started while its %s input %s was %s (producer %s %s)" %
                              (scn["id"], tv.trace.get("_choices"), sid, kind, f, "missing" if cur is None else "stale", p["id"], pst),
                              {"scenario": scn, "choices": tv.trace.get("_choices")})
                return
        # ... and "in place" is meant all the way down: a statement between this one and a producer - a stamp file, an alias - that
        # has nothing to do itself is up to date only when what IT waits for (order-only inputs included) is; so every statement
        # below this one, through inputs of every kind, that runs in this build at all has finished before this one starts
        # (validations are not inputs; recorded discoveries of the statements in between are left to the direct check above)
        seen_f, work, below = set(), list(g.all_inputs(s)), {}
        while work:
            f = work.pop()
            if f in seen_f:
                continue
            seen_f.add(f)
            p_ = g.producer.get(f)
            if p_ is None:
                continue
            below[p_["id"]] = p_
            work.extend(g.all_inputs(p_))
        for pid, p_ in below.items():
            if p_["kind"] == "phony" or pid == sid:
                continue
            o_ = p_["outs"][0]
            js = [j for j, e2 in enumerate(tv.events) if e2["e"] == "S" and e2["o"] == o_]
            if not js:
                continue
            nchecks += 1
            fin_ok = any(e2["e"] == "F" and e2["o"] == o_ and e2.get("status") == 0 for e2 in tv.events[:i])
            if not fin_ok:
                pst = "not-started-yet" if js[0] > i else ("running" if not any(e2["e"] == "F" and e2["o"] == o_ for e2 in tv.events[:i]) else "failed")
                ctx.violation("C04/input-not-ready/transitive/producer-%s" % pst,
                              "scenario %s choices=%s: %s started while %s, which it depends on through %s, was %s" %
                              (scn["id"], tv.trace.get("_choices"), sid, pid, "other statements" if o_ not in g.all_inputs(s) else "a direct input", pst),
                              {"scenario": scn, "choices": tv.trace.get("_choices")})
                return
        if ev.get("nodirs"):
            ctx.violation("C04/directory-missing", "scenario %s: %s started, directories missing for %s" % (scn["id"], sid, ev["nodirs"]),
                          {"scenario": scn, "choices": tv.trace.get("_choices")})
            return
        if s["rsp"]:
            nchecks += 1
            if ev.get("rsp") != rsp_string(s):
                ctx.violation("C04/rspfile-content", "scenario %s: %s started with rspfile %r, expected %r" %
                              (scn["id"], sid, ev.get("rsp"), rsp_string(s)), {"scenario": scn, "choices": tv.trace.get("_choices")})
                return
        if ev.get("missing"):
            ctx.violation("C04/read-missing-file", "scenario %s: %s read missing %s" % (scn["id"], sid, ev["missing"]),
                          {"scenario": scn, "choices": tv.trace.get("_choices")})
            return
    ctx.count("c04_start_checks", nchecks)
    # response files: removed after success, kept after failure
    fin = {e["o"]: e["status"] for e in tv.events if e["e"] == "F"}
    after = tv.trace.get("world", {}).get("files") if tv.trace.get("world") else None
    if after is not None:
        for o, stt in fin.items():
            s = g.by_id[tv.sid_of[o]]
            if not s["rsp"]:
                continue
            ctx.count("c16_rspfile_lifecycle_checks")
            if stt == 0 and s["rsp"] in after:
                ctx.violation("C04/rspfile-kept-after-success", "scenario %s: %s" % (scn["id"], s["rsp"]), {"scenario": scn})
            if stt != 0 and s["rsp"] not in after:
                ctx.violation("C04/rspfile-removed-after-failure", "scenario %s: %s" % (scn["id"], s["rsp"]), {"scenario": scn})


# ---------------------------------------------------------------------------------------------- C06
def _behind_pooled_phony(g, sid):
    seen, work = set(), [sid]
    while work:
        x = work.pop()
        for f in g.all_inputs(g.by_id[x]):
            p = g.producer.get(f)
            if p is None or p["id"] in seen:
                continue
            seen.add(p["id"])
            if p["kind"] == "phony" and p["pool"]:
                return True
            work.append(p["id"])
    return False


def monitor_c06(ctx, scn, tv):
    step, sc, g = tv.step, tv.sc, tv.graph
    j = step.get("j", 1)
    js = step.get("jobserver")
    k = step.get("k", 1) or 10 ** 9
    pools = dict(sc.get("pools", {}))
    pools["console"] = 1
    running, seen_start = [], set()
    failures = 0
    held = 0            # tokens held (jobserver mode)
    finish_idx, start_idx = {}, {}
    for i, ev in enumerate(tv.events):
        if ev["e"] == "S":
            start_idx.setdefault(ev["o"], i)
        elif ev["e"] == "F":
            finish_idx[ev["o"]] = (i, ev["status"])
    ncmds = len(start_idx)
    known_wanted = {}
    never_started = None
    for i, ev in enumerate(tv.events):
        e = ev["e"]
        if e == "TOK":
            if ev["op"] == "acq" and ev["ok"]:
                held += 1
            elif ev["op"] == "rel":
                held -= 1
                if held < 0:
                    ctx.violation("C06/token-released-twice", "scenario %s" % scn["id"], {"scenario": scn, "choices": tv.trace.get("_choices")})
                    return
        elif e == "S":
            o = ev["o"]
            if ev.get("twice") or o in seen_start:
                ctx.violation("C06/started-twice", "scenario %s: %s started twice in one invocation" % (scn["id"], o),
                              {"scenario": scn, "choices": tv.trace.get("_choices")})
                return
            seen_start.add(o)
            running.append(o)
            if js is None and len(running) > j:
                ctx.violation("C06/over-j", "scenario %s: %d commands running with -j%d: %s" % (scn["id"], len(running), j, running),
                              {"scenario": scn, "choices": tv.trace.get("_choices")})
                return
            if js is not None and len(running) > held:
                ctx.violation("C06/over-tokens", "scenario %s: %d commands running with %d tokens held" % (scn["id"], len(running), held),
                              {"scenario": scn, "choices": tv.trace.get("_choices")})
                return
            pool = ev.get("pool") or ""
            if pool:
                inpool = [r for r in running if (g.by_id[tv.sid_of[r]]["pool"] or "") == pool]
                if len(inpool) > pools.get(pool, 10 ** 9):
                    ctx.violation("C06/over-pool-depth", "scenario %s: pool %s depth %s running %s" % (scn["id"], pool, pools.get(pool), inpool),
                                  {"scenario": scn, "choices": tv.trace.get("_choices")})
                    return
            if failures >= k:
                ctx.violation("C06/started-after-budget", "scenario %s: %s started after %d failures with -k%s" % (scn["id"], o, failures, step.get("k")),
                              {"scenario": scn, "choices": tv.trace.get("_choices")})
                return
        elif e == "F":
            if ev["o"] in running:
                running.remove(ev["o"])
            if ev["status"] != 0:
                failures += 1
        elif e == "ABORT":
            running = []
        elif e == "WAIT":
            if ev.get("hang"):
                ctx.violation("C06/wait-with-nothing-running", "scenario %s: ninja waits although no command runs (would block forever)" % scn["id"],
                              {"scenario": scn, "choices": tv.trace.get("_choices")})
                return
            if ev.get("spin"):
                ctx.count("jobserver_busy_wait_points_observed")
            if ev.get("step_bound"):
                ctx.violation("C06/step-bound", "scenario %s: more wait steps than 2*commands+10" % scn["id"], {"scenario": scn})
                return
            if failures >= k or "pick" not in ev:
                continue
            if step.get("load_caps"):
                continue        # capacity is scripted: whether a slot was free is not for this monitor to say
            # no-idle: is there a command that starts later but was startable now?
            free_global = (len(running) < j) if js is None else (ev.get("free", 0) > 0 or ev.get("implicit_free"))
            if not free_global:
                continue
            if js is not None and ev.get("watch") and (ev.get("free", 0) > 0 or ev.get("implicit_free")):
                # ninja asked to be woken for a token and one is free: this wait returns immediately in the
                # real runner; not an idle wait
                continue
            # what ninja can know to be wanted now: dyndep files that are (re)generated in this build and have
            # not finished yet have not been loaded
            unloaded = frozenset(o2 for s2 in g.sc["stmts"] if s2["kind"] == "scan" and s2["outs"][0] in start_idx and
                                 (finish_idx.get(s2["outs"][0]) is None or finish_idx[s2["outs"][0]][0] > i or finish_idx[s2["outs"][0]][1] != 0)
                                 for o2 in s2["outs"] + s2["iouts"])
            if unloaded not in known_wanted:
                known_wanted[unloaded] = g.closure(tv.targets, unloaded=unloaded) if unloaded else None
            kw = known_wanted[unloaded]
            for o, si in start_idx.items():
                if si < i:
                    continue
                sid = tv.sid_of[o]
                if kw is not None and sid not in kw:
                    ctx.count("c06_not_yet_known_wanted")
                    continue
                if _behind_pooled_phony(g, sid):
                    # a phony statement that was put into a pool waits for a slot of that pool like any other statement of
                    # it (it just holds it for no time): what is behind it is not startable before
                    ctx.count("c06_behind_pooled_phony")
                    continue
                ok = True
                # every transitive prerequisite that runs in this build must have finished: a clean
                # intermediate statement is not "ready" before its own (order-only) prerequisites are
                for p in tv.ancestors(sid):
                    po = g.by_id[p]["outs"][0]
                    if po in start_idx:
                        fi = finish_idx.get(po)
                        if fi is None or fi[0] > i or fi[1] != 0:
                            ok = False
                            break
                if not ok:
                    continue
                pool = g.by_id[sid]["pool"] or ""
                if pool:
                    inpool = [r for r in running if (g.by_id[tv.sid_of[r]]["pool"] or "") == pool]
                    if len(inpool) >= pools.get(pool, 10 ** 9):
                        continue
                # a command whose (dyndep) producer only just made it known is startable from the next loop on
                ctx.violation("C06/idle-slot/%s" % ("pool" if pool else "nopool"),
                              "scenario %s choices=%s: at wait %d ninja waits with %d/%s running although %s is startable (it starts later)" %
                              (scn["id"], tv.trace.get("_choices"), ev["n"], len(running), j, sid),
                              {"scenario": scn, "choices": tv.trace.get("_choices")})
                return
            # ... or one that is needed, startable now, and never started at all although failure budget is left (the budget is
            # what the property names: -k N lasts until N commands have failed, whatever else has completed meanwhile)
            if failures == 0 or step.get("fail_start") or step.get("disk_faults") or step.get("interrupt_at", -1) not in (-1, None):
                continue
            if never_started is None:
                try:
                    exp, _ = model.expected_runs(g, tv.targets, {p: v for p, v in tv.world_before.items()}, tv.recs_before, tv.clean)
                except model.Invalid:
                    exp = set()
                never_started = (exp, [sid for sid in sorted(exp) if g.by_id[sid]["outs"][0] not in start_idx])
            exp, cands = never_started
            for sid in cands:
                if kw is not None and sid not in kw:
                    continue
                if _behind_pooled_phony(g, sid):
                    continue
                ok = True
                for p in tv.ancestors(sid):
                    st = g.by_id[p]
                    po = st["outs"][0]
                    if po in start_idx:
                        fi = finish_idx.get(po)
                        if fi is None or fi[0] > i or fi[1] != 0:
                            ok = False
                            break
                    elif p in exp or g.restat(st) or st["kind"] == "scan" or st.get("dyndep"):
                        # a prerequisite that has to run but did not, or one whose effect on what is needed the model does not pin down
                        ok = False
                        break
                if not ok or g.by_id[sid].get("dyndep"):
                    continue
                pool = g.by_id[sid]["pool"] or ""
                if pool:
                    inpool = [r for r in running if (g.by_id[tv.sid_of[r]]["pool"] or "") == pool]
                    if len(inpool) >= pools.get(pool, 10 ** 9):
                        continue
                ctx.violation("C06/idle-slot/never-started/%s" % ("pool" if pool else "nopool"),
                              "scenario %s choices=%s: at wait %d ninja waits with %d/%s running and %d/%s failures although %s is needed, "
                              "startable and never started" % (scn["id"], tv.trace.get("_choices"), ev["n"], len(running), j, failures,
                                                               step.get("k"), sid),
                              {"scenario": scn, "choices": tv.trace.get("_choices")})
                return
    res = tv.result
    if "exit" not in res:
        ctx.violation("C06/no-result", "scenario %s: invocation did not return" % scn["id"], {"scenario": scn})
        return
    if "stuck" in (res.get("err") or ""):
        ctx.violation("C06/stuck", "scenario %s: %s" % (scn["id"], res.get("err")), {"scenario": scn, "choices": tv.trace.get("_choices")})
        return
    # "always terminates, either having run everything needed or with an error": exit 0 means nothing needed is left
    if res.get("exit") == 0 and res.get("stage") == "build" and not step.get("faults") and step.get("interrupt_at", -1) in (-1, None) \
            and not step.get("fail_start") and not step.get("disk_faults"):
        try:
            exp, _ = model.expected_runs(g, tv.targets, {p: v for p, v in tv.world_before.items()}, tv.recs_before, tv.clean)
        except model.Invalid:
            exp = None
        if exp is not None:
            started_ids = {tv.sid_of[o] for o in start_idx if o in tv.sid_of}
            missing = exp - started_ids
            # (the model simulates restat commands forward: what they leave untouched is pruned in `exp` as well)
            ctx.count("c06_exit0_completeness_checks")
            if missing:
                ctx.violation("C06/exit-0-with-work-left%s" % ("/load-limited" if step.get("load_caps") else ""),
                              "scenario %s choices=%s: ninja exit 0 but %s never started" % (scn["id"], tv.trace.get("_choices"), sorted(missing)),
                              {"scenario": scn, "choices": tv.trace.get("_choices")})
                return
    if res.get("waits", 0) > 2 * ncmds + 10:
        ctx.violation("C06/too-many-waits", "scenario %s: %d waits for %d commands" % (scn["id"], res.get("waits"), ncmds), {"scenario": scn})
    tk = res.get("tokens")
    if tk is not None:
        ctx.count("c06_token_balance_checks")
        if tk["acquired"] != tk["released"]:
            ctx.violation("C06/token-leak/%s" % ("failure" if res.get("exit") else "success"),
                          "scenario %s choices=%s: %d tokens acquired, %d released when ninja returned (exit %s: %s)" %
                          (scn["id"], tv.trace.get("_choices"), tk["acquired"], tk["released"], res.get("exit"), res.get("err")),
                          {"scenario": scn, "choices": tv.trace.get("_choices")})
    ctx.count("c06_traces_ok")


# ---------------------------------------------------------------------------------------------- C05
def monitor_c05(ctx, scn, tv, recs_before_logs):
    step, g = tv.step, tv.graph
    k = step.get("k", 1) or 10 ** 9
    faults = step.get("faults") or {}
    failed, failures = set(), 0
    statuses = []
    rep = {"scenario": scn, "choices": tv.trace.get("_choices")}
    started = []
    for i, ev in enumerate(tv.events):
        if ev["e"] == "S":
            sid = tv.sid_of.get(ev["o"])
            started.append(sid)
            bad = tv.ancestors(sid) & failed
            if bad:
                ctx.violation("C05/dependent-started", "scenario %s: %s started although %s failed" % (scn["id"], sid, sorted(bad)), rep)
                return
            if failures >= k:
                ctx.violation("C05/started-after-budget", "scenario %s: %s started after %d failures (-k %s)" % (scn["id"], sid, failures, step.get("k")), rep)
                return
        elif ev["e"] == "F" and ev["status"] != 0:
            failed.add(tv.sid_of.get(ev["o"]))
            failures += 1
            statuses.append(ev["status"])
    res = tv.result
    killed = [x for ev in tv.events if ev["e"] == "ABORT" for x in ev.get("killed", [])]
    if failures:
        ctx.count("c05_runs_with_failures")
        if res.get("exit") == 0:
            ctx.violation("C05/exit-zero-after-failure", "scenario %s: exit 0 although %s failed" % (scn["id"], sorted(failed)), rep)
            return
        if res.get("exit") not in statuses:
            ctx.violation("C05/exit-status-not-from-failed-command", "scenario %s: exit %s, failed commands returned %s" %
                          (scn["id"], res.get("exit"), statuses), rep)
            return
        if killed:
            ctx.violation("C05/running-commands-not-waited-for", "scenario %s: %s killed when the failure budget ran out" % (scn["id"], killed), rep)
            return
    # completeness while budget lasts
    try:
        exp, _ = model.expected_runs(g, tv.targets, {p: v for p, v in tv.world_before.items()}, recs_before_logs, tv.clean)
    except model.Invalid:
        exp = None
    if exp is not None and failures < k and res.get("stage") == "build":
        blocked = {sid for sid in exp if tv.ancestors(sid) & failed}
        must = exp - blocked
        # a dyndep file whose producer failed (or could not run) is never loaded: statements ninja could only
        # have learnt about from it are not demanded
        unloaded = {o for sid in (failed | blocked) if sid in g.by_id and g.by_id[sid]["kind"] == "scan"
                    for o in g.by_id[sid]["outs"] + g.by_id[sid]["iouts"]}
        if unloaded:
            must &= g.closure(tv.targets, unloaded=unloaded)
            ctx.count("c05_runs_with_unloaded_dyndep")
        missing = must - set(started)
        # restat pruning may legitimately remove statements downstream of a kept output: recompute is in C03;
        # here only statements with no failed ancestor and no restat ancestor that ran are demanded
        restat_anc = {sid for sid in missing if any(g.restat(g.by_id[a]) for a in tv.ancestors(sid))}
        missing -= restat_anc
        if missing:
            ctx.violation("C05/independent-work-not-started", "scenario %s: budget left (%d/%s failures) but %s never started" %
                          (scn["id"], failures, step.get("k"), sorted(missing)), rep)
            return
    # logs: no record for a failed statement; records for the successful ones
    w = tv.trace.get("world")
    if w:
        logs = {p: bytes.fromhex(h) for p, h in w.get("logs", {}).items()}
        blog = parse_build_log(logs.get(".ninja_log", b""))[1] if ".ninja_log" in logs else {}
        before_log = tv.trace.get("_log_before", {})
        fin = {ev["o"]: ev for ev in tv.events if ev["e"] == "F"}
        st_ev, lock_t, last_lock = {}, {}, None
        for ev in tv.events:
            if ev["e"] == "W" and ev["p"].endswith(".ninja_lock"):
                last_lock = ev["t"]
            elif ev["e"] == "S":
                st_ev[ev["o"]] = ev
                lock_t[ev["o"]] = last_lock
        for o, ev in fin.items():
            s = g.by_id[tv.sid_of[o]]
            for out in g.outs(s):
                rec = blog.get(out.encode())
                old = before_log.get(out.encode())
                ctx.count("c05_log_checks")
                if ev["status"] != 0:
                    if rec is not None and rec != old:
                        ctx.violation("C05/failed-command-recorded", "scenario %s: build log has a new record %r for %s whose command failed" %
                                      (scn["id"], rec, out), rep)
                        return
                else:
                    if rec is None or rec == old and old is not None and False:
                        ctx.violation("C05/successful-command-not-recorded", "scenario %s: no build-log record for %s (finished successfully%s)" %
                                      (scn["id"], out, ", while other commands failed" if failures else ""), rep)
                        return
                    if not g.restat(s) and not s["generator"] and rec[3] != lock_t[o]:
                        ctx.violation("C05/recorded-mtime-not-start-time", "scenario %s: %s recorded mtime %s, command started at %s" %
                                      (scn["id"], out, rec[3], lock_t[o]), rep)
                        return
        if ".ninja_deps" in logs:
            dv = deps_view(parse_deps_log(logs[".ninja_deps"]))
            before_deps = tv.trace.get("_deps_before", {})
            for o, ev in fin.items():
                s = g.by_id[tv.sid_of[o]]
                if s["deps"] not in ("gcc", "msvc"):
                    continue
                ctx.count("c05_deps_log_checks")
                if ev["status"] != 0 and dv.get(o.encode()) != before_deps.get(o.encode()):
                    ctx.violation("C05/failed-command-deps-recorded", "scenario %s: deps log changed for failed %s" % (scn["id"], o), rep)
                    return
    ctx.count("c05_traces_ok")


# ---------------------------------------------------------------------------------------------- driver
def _canaries(ctx, focus, scn, sc, step, tr, wb, recs, done):
    """Oracle canaries: a trace that the monitor has just passed is turned into a violating one by a single mutation
    (a consumer's START moved in front of its producer's FINISH, a producer's status turned into a failure, -j lowered
    below what ran at once, a START duplicated) and the monitor must object.  Each mutation is tried on the first
    suitable trace of the run; a monitor that stays silent makes the check inconclusive."""
    from . import core
    ev = tr["events"]
    S = [(i, e["o"]) for i, e in enumerate(ev) if e["e"] == "S"]
    F = {e["o"]: (i, e["status"]) for i, e in enumerate(ev) if e["e"] == "F"}
    if len(S) < 2 or step.get("jobserver") or step.get("load_caps") or step.get("interrupt_at", -1) not in (-1, None) \
            or step.get("fail_start") or step.get("disk_faults"):
        return
    if focus != "C05" and (step.get("faults") or tr["result"].get("exit") != 0):
        return
    tv0 = TraceView(sc, step, tr, wb, recs)

    def probe(name, ev2, step2=None):
        if done.get(name):
            return
        tr2 = dict(tr, events=ev2)
        c2 = core.Ctx(focus, ctx.tier, ctx.seed, ctx.level)
        tv2 = TraceView(sc, step2 or step, tr2, wb, recs)
        try:
            if focus == "C04":
                monitor_c04(c2, scn, tv2)
            elif focus == "C06":
                monitor_c06(c2, scn, tv2)
            else:
                monitor_c05(c2, scn, tv2, recs)
        except Exception:
            pass
        done[name] = True
        ctx.canary(bool(c2.violations), "%s/%s" % (focus, name))
    # a consumer and a producer that both ran, the producer first
    pair = None
    for i, o in S:
        sid = tv0.sid_of.get(o)
        for p_ in tv0.preds.get(sid, ()):
            po = tv0.graph.by_id[p_]["outs"][0]
            if po in F and F[po][0] < i and F[po][1] == 0 and po in [x[1] for x in S]:
                pair = (i, o, po)
                break
        if pair:
            break
    if focus == "C04" and pair:
        i, o, po = pair
        ps = next(k for k, x in S if x == po)
        ev2 = [e for k, e in enumerate(ev) if k != i]
        ev2.insert(ps + 1, ev[i])            # the consumer starts right after its producer started
        probe("consumer-started-before-producer-finished", ev2)
    if focus == "C05" and pair:
        i, o, po = pair
        ev2 = [dict(e, status=3) if (e["e"] == "F" and e["o"] == po) else e for e in ev]
        probe("dependent-started-after-failure", ev2)
    if focus == "C06":
        mx, run = 0, 0
        for e in ev:
            if e["e"] == "S":
                run += 1
                mx = max(mx, run)
            elif e["e"] == "F":
                run -= 1
        if mx >= 2:
            probe("more-commands-than-j", ev, dict(step, j=mx - 1))
        k, o = S[0]
        ev3 = list(ev)
        ev3.insert(F[o][0] + 1 if o in F else len(ev3), dict(ev[k]))
        probe("command-started-twice", ev3)


def run_explore(ctx, focus, items):
    """items: list of (scenario_json, info). Judges every explored trace with the focus' monitor."""
    infos = {scn["id"]: info for scn, info in items}
    stats = {"exhaustive": 0, "capped": 0}
    canary_done = {}

    def handler(scn, results, err):
        if results is None:
            ctx.inconclusive += 1
            ctx.count("nsim_died")
            return
        try:
            judge(scn, results)
        except model.Invalid:
            ctx.inconclusive += 1
            ctx.count("invalid_scenarios")
        except Exception:
            import traceback
            traceback.print_exc()
            ctx.inconclusive += 1
            ctx.count("judge_exceptions")

    def judge(scn, results):
        info = infos[scn["id"]]
        ctx.replay_extra = {"info": info}
        world, recs = None, model.Records()
        logs_before = {}
        orders = set()
        for res in results:
            i = res["step"]
            sc = info["scs"][i]
            step = scn["steps"][i]
            if res.get("skipped"):
                return
            if "explore" in res:
                tr = res["trace"]
                ctx.evaluations += 1
                if tr.get("crash"):
                    sig = util.san_signature(tr.get("stderr", "")) or ("timeout" if tr.get("timeout") else "signal-%s" % tr.get("signal"))
                    ctx.violation("%s/nsim-crash/%s" % (focus, sig), "scenario %s choices %s: %s" % (scn["id"], res.get("choices"), tr.get("stderr", "")[-1500:]),
                                  {"scenario": scn, "choices": res.get("choices")})
                    return
                wb = world if world is not None else {p: [1000 + n, c] for n, (p, c) in enumerate(scn["files"].items())}
                tr["_choices"] = res.get("choices")
                tr["_log_before"] = logs_before.get("log", {})
                tr["_deps_before"] = logs_before.get("deps", {})
                if step.get("_missing_source"):
                    judge_missing_source(ctx, scn, step, tr)
                    continue
                tv = TraceView(sc, step, tr, wb, recs)
                order = tuple((e["e"], e["o"]) for e in tr["events"] if e["e"] in ("S", "F"))
                ncmd = sum(1 for x in order if x[0] == "S")
                if ncmd >= 2:
                    orders.add(hash(order))
                    ctx.nontrivial((scn["id"], order))
                nv0 = len(ctx.violations)
                if focus == "C04":
                    monitor_c04(ctx, scn, tv)
                elif focus == "C06":
                    monitor_c06(ctx, scn, tv)
                elif focus == "C05":
                    monitor_c05(ctx, scn, tv, recs)
                    if res.get("then"):
                        retry_c05(ctx, scn, tv, res["then"])
                if len(ctx.violations) == nv0:
                    _canaries(ctx, focus, scn, sc, step, tr, wb, recs, canary_done)
                if len(ctx.samples) < 3 and ncmd >= 3:
                    ctx.sample({"scenario": scn["id"], "j": step.get("j"), "k": step.get("k"), "faults": step.get("faults"),
                                "choices": res.get("choices"), "order": ["%s %s" % x for x in order]})
                continue
            if res.get("explored") is not None:
                stats["exhaustive" if res.get("exhaustive") else "capped"] += 1
                ctx.count("schedules_explored", res["explored"])
                continue
            if res["op"] == "build":
                tr = res["trace"]
                if tr.get("crash"):
                    return
                srcs = {p: v[1] for p, v in tr["world"]["files"].items() if p in sc["sources"]}
                graph = model.Graph(sc, srcs)
                world = tr["world"]["files"]
                recs.observe_build(graph, tr["events"], world)
                lg = {p: bytes.fromhex(h) for p, h in tr["world"].get("logs", {}).items()}
                logs_before = {"log": parse_build_log(lg.get(".ninja_log", b""))[1],
                               "deps": deps_view(parse_deps_log(lg[".ninja_deps"])) if ".ninja_deps" in lg else {}}
            else:
                if step["op"] == "rmlog":
                    if "log" in step["which"]:
                        recs.drop_log()
                        logs_before["log"] = {}
                    if "deps" in step["which"]:
                        recs.drop_deps()
                        logs_before["deps"] = {}
                if world is not None:
                    for ev in res.get("events", []):
                        if ev["e"] == "W":
                            c = step.get("content") if step["op"] == "write" else (
                                step["files"].get(ev["p"], "") if step["op"] == "manifest" else world.get(ev["p"], [0, ""])[1])
                            world[ev["p"]] = [ev["t"], c]
                        elif ev["e"] == "RM":
                            world.pop(ev["p"], None)

    simlib.run_scenarios([s for s, _ in items], handler)
    ctx.count("graphs_explored_exhaustively", stats["exhaustive"])
    ctx.count("graphs_capped", stats["capped"])


def retry_c05(ctx, scn, tv, then):
    """the invocation after a failed build (no faults, -k 0) must start every statement that failed"""
    g = tv.graph
    failed = [ev["o"] for ev in tv.events if ev["e"] == "F" and ev["status"] != 0]
    if not failed or not then or then[0].get("crash"):
        return
    t2 = then[0]
    started2 = {ev["o"] for ev in t2["events"] if ev["e"] == "S"}
    faults = tv.step.get("faults") or {}
    for o in failed:
        ctx.count("c05_retry_checks")
        if o not in started2:
            st = g.by_id[tv.sid_of[o]]
            # (a command that writes in place from its first instant has touched its outputs whenever it fails)
            touched = bool(faults.get(o, {}).get("touch")) or bool(st.get("early"))
            disc_only = False
            try:
                _, reasons = model.expected_runs(g, tv.targets, tv.world_before, tv.recs_before, tv.clean)
                rs = reasons.get(st["id"], [])
                why = "+".join(sorted(set(x.split(":")[0] for x in rs))) or "none"
                disc_only = bool(rs) and all(":" in x and x.split(":", 1)[1] not in g.decl_inputs(st) for x in rs)
            except model.Invalid:
                why = "?"
            sig = "C05/not-retried/%s/why=%s" % ("outputs-touched" if touched else "outputs-untouched", why)
            if touched and st["generator"]:
                sig = "C05/not-retried/outputs-touched/generator"      # no log check at all for generator rules
            if st.get("early") and st["deps"] == "depfile" and disc_only:
                # the failed command had already truncated its depfile; what made it dirty was known only from there
                sig = "C05/not-retried/depfile-truncated-by-failed-cmd"
            ctx.violation(sig,
                          "scenario %s choices=%s: %s failed (exit %s) and the next build did not retry it (%s)" %
                          (scn["id"], tv.trace.get("_choices"), o, faults.get(o, {}).get("exit"), t2["result"]),
                          {"scenario": scn, "choices": tv.trace.get("_choices")})
            return


def replay(ctx, focus, path):
    j = json.load(open(path))["replay"]
    scn, info = j["scenario"], j["info"]
    print("re-exploring scenario %s (violating choices were %s)" % (scn["id"], j.get("choices")))
    run_explore(ctx, focus, [(scn, info)])
    ctx.distinct_extra += 2


def special_c06(ctx, rng, n):
    """exit paths other than plain success/failure: StartCommand failure, mkdir failure for an output directory,
    interrupts at every wait index - with and without a jobserver (token conservation on every path)"""
    out = []
    for kx in range(n):
        g = gen.Gen(random.Random(rng.randint(0, 2 ** 60)), size=rng.randint(2, 5), feat=dict(pools=0.5, chain=0.5, subdirs=0.9))
        sc = g.scenario("C06-%d-9-%d" % (ctx.seed, kx))
        cmds = [s for s in sc["stmts"] if s["kind"] != "phony"]
        ex = {"op": "build", "targets": [], "j": rng.choice((1, 2, 3, 8)), "k": rng.choice((1, 2, 0)),
              "sched": {"mode": "all", "cap": 60, "keep_world": True}}
        if rng.random() < 0.7:
            ex["jobserver"] = {"tokens": rng.randint(0, 3), "thief": [rng.choice((0, -1, 1)) for _ in range(rng.randint(0, 4))]}
        x = rng.random()
        victim = rng.choice(cmds)
        if x < 0.2:
            # the stat() of a restat output fails after the command ran: FinishCommand bails out
            victim["restat"] = True
            ex["disk_faults"] = {"stat_err_late": [victim["outs"][0]]}
        elif x < 0.4:
            ex["fail_start"] = victim["outs"][0]
        elif x < 0.6:
            d = simlib_dir(victim["outs"][0])
            if d:
                ex["disk_faults"] = {"mkdir_fail": [d]}
            else:
                ex["fail_start"] = victim["outs"][0]
        else:
            ex["interrupt_at"] = rng.randint(0, 3)
            if rng.random() < 0.3:
                ex["interrupt_via"] = "status"
        scn = simlib.scenario_json(sc, [ex])
        out.append((scn, {"scs": [copy.deepcopy(sc)], "explore_step": 0}))
    return out


def simlib_dir(p):
    return p.rsplit("/", 1)[0] if "/" in p else ""


def judge_missing_source(ctx, scn, step, tr):
    src = step["_missing_source"]
    res = tr["result"]
    starts = [e["o"] for e in tr["events"] if e["e"] == "S"]
    how = step.get("_missing_how", "primary")
    ctx.count("c05_missing_source_cases")
    ctx.count("c05_missing_source_" + how)
    ctx.nontrivial((scn["id"], "missing-source"))
    if res.get("exit") == 0 and step.get("_missing_victim") not in starts and ("order-only" in how or "/oins" in how):
        # an order-only input does not make its statement out of date: when that statement has nothing to run there is nothing the
        # file is needed for (the property speaks of commands that would run); what else is built meanwhile is not the point
        ctx.count("c05_missing_order_only_source_nothing_to_run")
    elif res.get("exit") == 0:
        ctx.violation("C05/missing-source/accepted/%s" % how, "scenario %s: declared source %s (%s) is missing, ninja exit 0" % (scn["id"], src, how), {"scenario": scn})
    elif starts:
        ctx.violation("C05/missing-source/commands-ran/%s" % how, "scenario %s: %s (%s) missing, but %s were started before the error" % (scn["id"], src, how, starts),
                      {"scenario": scn})
    elif ("'%s'" % src) not in (res.get("err") or "") or "missing and no known rule to make it" not in (res.get("err") or ""):
        ctx.violation("C05/missing-source/message", "scenario %s: error does not name %s: %r" % (scn["id"], src, res.get("err")), {"scenario": scn})
