"""Content-addressed build cache: sanitised objects of /repo's *current working tree*
plus the harness binaries that link against them.

Every check calls get_bin(...); the cache key is a hash of every file under /repo/src
(and the harness sources, and the flags), so an edited /repo is always rebuilt and an
unchanged one is not.  Builds live in /verif/.build/<key>/ (git-ignored, LRU capped).
"""
import hashlib, os, shutil, subprocess, sys, time, fcntl
from concurrent.futures import ThreadPoolExecutor

VERIF = os.path.dirname(os.path.dirname(os.path.abspath(__file__)))
REPO = os.environ.get("VERIF_REPO", "/repo")
CACHE = os.path.join(VERIF, ".build")
HARNESS = os.path.join(VERIF, "harness")
MAX_ENTRIES = 6

LIB_SOURCES = """build_log.cc build.cc clean.cc clparser.cc dyndep.cc dyndep_parser.cc
debug_flags.cc deps_log.cc disk_interface.cc edit_distance.cc elide_middle.cc eval_env.cc
explanations.cc graph.cc graphviz.cc jobserver.cc json.cc line_printer.cc
manifest_parser.cc metrics.cc missing_deps.cc parser.cc real_command_runner.cc state.cc
status_printer.cc string_piece_util.cc util.cc version.cc jobserver-posix.cc
subprocess-posix.cc depfile_parser.cc lexer.cc""".split()

CXX = "clang++"
BASE = ["-std=gnu++17", "-O1", "-g", "-fno-omit-frame-pointer", "-DUSE_PPOLL=1",
        "-DNINJA_VERIF=1", "-Wno-deprecated", "-Wno-unused-result",
        # libstdc++'s own precondition checks (operator[] / front() / back() / iterator ranges on vector, string, deque...):
        # an index past size() but inside the capacity is invisible to ASan (libstdc++ has no container annotations)
        "-D_GLIBCXX_ASSERTIONS"]
# experiments (e.g. VERIF_EXTRA_FLAGS="-D_GLIBCXX_ASSERTIONS"): part of every cache key
BASE += os.environ.get("VERIF_EXTRA_FLAGS", "").split()
FLAVORS = {
    # the default: ASan + UBSan, reports fatal
    "asan": ["-fsanitize=address,undefined", "-fno-sanitize-recover=all",
             "-fno-sanitize=object-size"],
    # libFuzzer instrumentation for the library, harness adds -fsanitize=fuzzer
    "fuzz": ["-fsanitize=fuzzer-no-link,address,undefined", "-fno-sanitize-recover=all",
             "-fno-sanitize=object-size"],
    # no sanitizer (for valgrind memcheck and for speed-critical volume probes)
    "plain": [],
    # for valgrind memcheck: valgrind 3.19 cannot read clang 14's default DWARF 5
    "vg": ["-gdwarf-4", "-fno-inline-functions"],
}


def _sha(paths, extra=""):
    h = hashlib.sha256()
    h.update(extra.encode())
    for p in sorted(paths):
        h.update(p.encode() + b"\0")
        try:
            with open(p, "rb") as f:
                h.update(f.read())
        except OSError:
            h.update(b"<missing>")
        h.update(b"\0")
    return h.hexdigest()


def repo_sources():
    d = os.path.join(REPO, "src")
    return [os.path.join(d, f) for f in os.listdir(d)
            if f.endswith((".cc", ".h", ".c"))]


def repo_key(flavor):
    return _sha(repo_sources(), "lib:" + flavor + ":" + " ".join(BASE + FLAVORS[flavor]))[:20]


def _run(cmd, what):
    r = subprocess.run(cmd, stdout=subprocess.PIPE, stderr=subprocess.STDOUT, text=True)
    if r.returncode != 0:
        sys.stderr.write("BUILD FAILED (%s): %s\n%s\n" % (what, " ".join(cmd), r.stdout))
        raise BuildError(what)
    return r.stdout


class BuildError(Exception):
    pass


def _lock(path):
    os.makedirs(os.path.dirname(path), exist_ok=True)
    f = open(path, "w")
    fcntl.flock(f, fcntl.LOCK_EX)
    return f


def _prune():
    try:
        # (the directory of the repo-independent helpers - vtool, argvdump - is not a cache entry: every running check uses it)
        ents = [os.path.join(CACHE, e) for e in os.listdir(CACHE)
                if os.path.isdir(os.path.join(CACHE, e)) and e != "tools"]
    except OSError:
        return
    ents.sort(key=lambda p: os.path.getmtime(p))
    import time
    # never an entry that was used in the last two hours: another check process may be building in it right now
    while len(ents) > MAX_ENTRIES and time.time() - os.path.getmtime(ents[0]) > 2 * 3600:
        shutil.rmtree(ents.pop(0), ignore_errors=True)


def get_lib(flavor="asan"):
    """Returns (dir, libpath). Builds /repo/src into objects + libninja.a."""
    key = repo_key(flavor)
    d = os.path.join(CACHE, "%s-%s" % (flavor, key))
    lib = os.path.join(d, "libninja.a")
    lk = _lock(os.path.join(CACHE, ".lock-%s-%s" % (flavor, key)))
    try:
        if os.path.exists(lib):
            os.utime(d)
            return d, lib
        os.makedirs(d, exist_ok=True)
        flags = BASE + FLAVORS[flavor]
        srcs = LIB_SOURCES + ["ninja.cc"]

        def comp(s):
            o = os.path.join(d, s.replace(".cc", ".o"))
            _run([CXX] + flags + ["-iquote", os.path.join(REPO, "src"), "-c",
                                  os.path.join(REPO, "src", s), "-o", o], s)
            return o
        with ThreadPoolExecutor(max_workers=os.cpu_count() or 4) as ex:
            objs = list(ex.map(comp, srcs))
        libobjs = [o for o in objs if not o.endswith("/ninja.o")]
        tmp = lib + ".tmp"
        if os.path.exists(tmp):
            os.unlink(tmp)
        _run(["ar", "rcs", tmp] + libobjs, "ar")
        os.rename(tmp, lib)
        _prune()
        return d, lib
    finally:
        lk.close()


def get_bin(name, sources=None, flavor="asan", extra=None, link_extra=None, with_main=False):
    """Builds harness binary `name` from harness/<sources> against the sanitised lib.
    with_main: link ninja.o (the real ninja main) instead of harness sources."""
    extra = extra or []
    link_extra = link_extra or []
    d, lib = get_lib(flavor)
    sources = sources or []
    spaths = [os.path.join(HARNESS, s) for s in sources]
    hdrs = [os.path.join(HARNESS, f) for f in os.listdir(HARNESS) if f.endswith(".h")]
    hk = _sha(spaths + hdrs, " ".join(extra + link_extra) + name)[:12]
    out = os.path.join(d, "%s-%s" % (name, hk))
    if os.path.exists(out):
        return out
    lk = _lock(os.path.join(CACHE, ".lock-bin-%s" % os.path.basename(d)))
    try:
        if os.path.exists(out):
            return out
        flags = BASE + FLAVORS[flavor] + extra
        objs = []
        if with_main:
            objs.append(os.path.join(d, "ninja.o"))

        def comp(s):
            o = os.path.join(d, "h-%s-%s.o" % (hk, os.path.basename(s).replace(".", "_")))
            _run([CXX] + flags + ["-iquote", os.path.join(REPO, "src"), "-I", HARNESS, "-c", s,
                                  "-o", o], s)
            return o
        with ThreadPoolExecutor(max_workers=8) as ex:
            objs += list(ex.map(comp, spaths))
        tmp = out + ".tmp"
        _run([CXX] + flags + objs + [lib] + link_extra + ["-o", tmp], "link " + name)
        os.rename(tmp, out)
        for o in objs:
            if os.path.basename(o).startswith("h-"):
                os.unlink(o)
        return out
    finally:
        lk.close()


def get_tool(name, source, flags=None, cc="clang++"):
    """Repo-independent helper (vtool, argvdump...). Cached by its own source hash."""
    flags = flags or ["-O1", "-g"]
    sp = os.path.join(HARNESS, source)
    hk = _sha([sp], " ".join(flags) + cc)[:12]
    d = os.path.join(CACHE, "tools")
    os.makedirs(d, exist_ok=True)
    out = os.path.join(d, "%s-%s" % (name, hk))
    if os.path.exists(out):
        return out
    lk = _lock(os.path.join(CACHE, ".lock-tools"))
    try:
        if not os.path.exists(out):
            _run([cc] + flags + [sp, "-o", out + ".tmp"], name)
            os.rename(out + ".tmp", out)
        return out
    finally:
        lk.close()


SAN_ENV = {
    "ASAN_OPTIONS": "abort_on_error=1:detect_leaks=0:handle_abort=1:allocator_may_return_null=0:"
                    "detect_stack_use_after_return=0:symbolize=1",
    "UBSAN_OPTIONS": "print_stacktrace=1:halt_on_error=1",
    "ASAN_SYMBOLIZER_PATH": "/usr/bin/llvm-symbolizer-14",
}


def san_env(base=None):
    e = dict(base if base is not None else os.environ)
    e.update(SAN_ENV)
    return e


if __name__ == "__main__":
    t = time.time()
    print(get_lib(sys.argv[1] if len(sys.argv) > 1 else "asan"), time.time() - t)
