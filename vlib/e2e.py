"""e2e engine (DESIGN 2.2): the real sanitised ninja binary with real processes in scratch trees.
Commands are `vtool` invocations with the same command function as nsim, so the same reference
model (vlib/model.py) supplies clean contents."""
import json, os, re, shutil, signal, subprocess, time, random, threading
from concurrent.futures import ThreadPoolExecutor
from . import build, util, simlib, model, gen
from .simlib import all_outs, direct_reads, cmd_string, rsp_string, follows, directives

WATCHDOG = 120


def ninja_bin():
    return build.get_bin("ninja", with_main=True)


def vtool_bin():
    return build.get_tool("vtool", "vtool.cc", ["-O1", "-g", "-std=gnu++17"])


def render(sc, vtool, log, extra=None):
    """manifest text for the real binary. extra: {stmt id: [vtool args]}"""
    extra = extra or {}
    L = []
    if sc.get("builddir"):
        L.append("builddir = %s" % sc["builddir"])
    for name, depth in sorted(sc.get("pools", {}).items()):
        L += ["pool %s" % name, "  depth = %d" % depth]
    for st in sc["stmts"]:
        if st["kind"] == "phony":
            continue
        key = "sim %s v%d" % (st["id"], st["ver"]) + (" $in" if st["ins"] else "") + " > $out"
        if st["rsp"]:
            key += " @$rspfile"
        cmd = "%s --log %s --id %s --key '%s'" % (vtool, log, st["outs"][0], key)
        if st["generator"]:
            cmd += " --nocmd"
        if follows(st) and st["kind"] != "scan":
            cmd += " --follow"
        if st["restat"] or st.get("restat_like"):
            cmd += " --restat"
        if st["early"]:
            cmd += " --early"
        if st.get("atomic"):
            cmd += " --atomic"
        if st["deps"] == "msvc":
            cmd += " --msvc"
        if st["depfile"] and st["deps"] != "msvc":
            cmd += " --depfile $depfile"
        if st["rsp"]:
            cmd += " --rsp $rspfile"
        if st["dd"]:
            cmd += " --dd"
        for a in extra.get(st["id"], []) + st.get("vtool_args", []):
            cmd += " " + a
        if st["kind"] == "scan":
            cmd += " --dyndep-for " + " ".join("%s:%s" % (o, s) for o, s in st["serves"])
        rd = direct_reads(sc, st)
        if rd:
            cmd += " --reads " + " ".join(rd)
        cmd += " --outs " + " ".join(all_outs(st))
        L.append("rule r_%s" % st["id"])
        L.append("  command = %s" % cmd)
        if st.get("description"):
            L.append("  description = %s" % st["description"])
        if st["restat"]:
            L.append("  restat = 1")
        if st["generator"]:
            L.append("  generator = 1")
        if st["deps"] in ("gcc", "msvc"):
            L.append("  deps = %s" % st["deps"])
        if st["depfile"] and st["deps"] != "msvc":
            L.append("  depfile = %s" % st["depfile"])
        if st["rsp"]:
            L.append("  rspfile = %s" % st["rsp"])
            L.append("  rspfile_content = %s" % st["rsp_content"])
    for st in sc["stmts"]:
        line = "build " + " ".join(st["outs"])
        if st["iouts"]:
            line += " | " + " ".join(st["iouts"])
        line += ": " + ("phony" if st["kind"] == "phony" else "r_" + st["id"])
        if st["ins"]:
            line += " " + " ".join(st["ins"])
        if st["iins"]:
            line += " | " + " ".join(st["iins"])
        if st["oins"]:
            line += " || " + " ".join(st["oins"])
        if st["vals"]:
            line += " |@ " + " ".join(st["vals"])
        L.append(line)
        if st["pool"] and st["kind"] != "phony":
            L.append("  pool = %s" % st["pool"])
        if st["dyndep"]:
            L.append("  dyndep = %s" % st["dyndep"])
    if sc.get("defaults"):
        L.append("default " + " ".join(sc["defaults"]))
    return "\n".join(L) + "\n"


class Tree:
    """A scratch build directory with real files."""

    def __init__(self, sc=None, prefix="ne2e-"):
        self.d = util.scratch(prefix)
        self.log = os.path.join(self.d, ".vtool.log")
        self.ninja, self.vtool = ninja_bin(), vtool_bin()
        self.max_mtime = 0
        self.sc = None
        if sc is not None:
            self.install(sc)

    def close(self):
        util.rmtree(self.d)

    def path(self, p):
        return os.path.join(self.d, p)

    def install(self, sc, extra=None):
        self.sc = sc
        for p, c in sc["sources"].items():
            if not os.path.exists(self.path(p)) or open(self.path(p)).read() != c:
                self.write(p, c)
        self.write("build.ninja", render(sc, self.vtool, ".vtool.log", extra))

    # ---- edits with a timestamp barrier: the new mtime is strictly larger than anything in the tree
    def _barrier(self):
        probe = self.path(".probe")
        mx = self.tree_max_mtime()
        for _ in range(2000):
            with open(probe, "w") as f:
                f.write("x")
            if os.stat(probe).st_mtime_ns > mx:
                os.unlink(probe)
                return
            time.sleep(0.001)
        os.unlink(probe)

    def tree_max_mtime(self):
        mx = 0
        for root, dirs, files in os.walk(self.d):
            for f in files:
                if f in (".probe",):
                    continue
                try:
                    mx = max(mx, os.stat(os.path.join(root, f)).st_mtime_ns)
                except OSError:
                    pass
        return mx

    def write(self, p, content):
        self._barrier()
        fp = self.path(p)
        os.makedirs(os.path.dirname(fp) or self.d, exist_ok=True)
        with open(fp, "w") as f:
            f.write(content)

    def touch(self, p):
        self._barrier()
        os.utime(self.path(p), None)

    def rm(self, p):
        try:
            os.unlink(self.path(p))
        except OSError:
            pass

    # ---- running ninja
    def run(self, args=(), env=None, timeout=WATCHDOG, input=None):
        e = build.san_env()
        e["TERM"] = "dumb"
        e.pop("MAKEFLAGS", None)
        e.pop("NINJA_STATUS", None)
        if env:
            e.update(env)
        try:
            p = subprocess.run([self.ninja] + list(args), cwd=self.d, env=e, stdout=subprocess.PIPE, stderr=subprocess.PIPE,
                               timeout=timeout, input=input)
            return p.returncode, p.stdout, p.stderr
        except subprocess.TimeoutExpired as ex:
            return None, ex.stdout or b"", ex.stderr or b""

    def popen(self, args=(), env=None, **kw):
        e = build.san_env()
        e["TERM"] = "dumb"
        e.pop("MAKEFLAGS", None)
        if env:
            e.update(env)
        return subprocess.Popen([self.ninja] + list(args), cwd=self.d, env=e, stdout=subprocess.PIPE, stderr=subprocess.PIPE,
                                start_new_session=True, **kw)

    # ---- observations
    def events(self, clear=False):
        ev = []
        try:
            for ln in open(self.log):
                f = ln.rstrip("\n").split(" ", 4)
                if len(f) >= 4:
                    ev.append({"e": f[0], "id": f[1], "t": float(f[2]), "pid": int(f[3]), "x": f[4] if len(f) > 4 else ""})
        except OSError:
            pass
        if clear:
            try:
                os.unlink(self.log)
            except OSError:
                pass
        return ev

    def snapshot(self, with_logs=False):
        r = {}
        for root, dirs, files in os.walk(self.d):
            for dn in dirs:
                r[os.path.relpath(os.path.join(root, dn), self.d) + "/"] = (0, "<dir>")
            for f in files:
                fp = os.path.join(root, f)
                rel = os.path.relpath(fp, self.d)
                if rel in (".vtool.log", ".probe") or (not with_logs and os.path.basename(rel) in (".ninja_log", ".ninja_deps")):
                    continue
                try:
                    with open(fp, "rb") as fh:
                        r[rel] = (os.stat(fp).st_mtime_ns, fh.read().decode("latin-1"))
                except OSError:
                    pass
        return r

    def read(self, p):
        try:
            with open(self.path(p), "rb") as f:
                return f.read()
        except OSError:
            return None


def clean_contents(sc, tree):
    srcs = {p: tree.read(p).decode("latin-1") for p in sc["sources"] if tree.read(p) is not None}
    g = model.Graph(sc, srcs)
    files, _ = g.clean()
    return g, files


def compare_with_clean(sc, tree, targets=None):
    """-> list of (path, got, want) for outputs in the closure of targets that differ from the clean build"""
    g, clean = clean_contents(sc, tree)
    targets = targets or (sc["defaults"] or gen.Gen.roots(sc))
    bad = []
    for sid in g.closure(targets):
        s = g.by_id[sid]
        if s["kind"] == "phony":
            continue
        for o in g.outs(s):
            got = tree.read(o)
            got = got.decode("latin-1") if got is not None else None
            if got != clean.get(o):
                bad.append((o, got, clean.get(o)))
    return bad


def parallel(fn, items, workers=None):
    with ThreadPoolExecutor(max_workers=workers or util.NCPU) as ex:
        return list(ex.map(fn, items))
