"""e2e engine (DESIGN 2.2): the real sanitised ninja binary with real processes in scratch trees.
Commands are `vtool` invocations with the same command function as nsim, so the same reference
model (vlib/model.py) supplies clean contents."""
import hashlib
import json, os, re, shutil, signal, subprocess, time, random, threading
from concurrent.futures import ThreadPoolExecutor
from . import build, util, simlib, model, gen
from .simlib import all_outs, direct_reads, cmd_string, rsp_string, follows, directives

WATCHDOG = 120


def ninja_bin():
    return build.get_bin("ninja", with_main=True)


def vtool_bin():
    return build.get_tool("vtool", "vtool.cc", ["-O1", "-g", "-std=gnu++17"])


def render(sc, vtool, log, extra=None):
    """manifest text for the real binary. extra: {stmt id: [vtool args]}"""
    extra = extra or {}
    L = []
    if sc.get("builddir"):
        L.append("builddir = %s" % sc["builddir"])
    for name, depth in sorted(sc.get("pools", {}).items()):
        L += ["pool %s" % name, "  depth = %d" % depth]
    for st in sc["stmts"]:
        if st["kind"] == "phony":
            continue
        key = "sim %s v%d" % (st["id"], st["ver"]) + (" $in" if st["ins"] else "") + " > $out"
        if st["rsp"]:
            key += " @$rspfile"
        cmd = "%s --log %s --id %s --key '%s'" % (vtool, log, st["outs"][0], key)
        if st["generator"]:
            cmd += " --nocmd"
        if follows(st) and st["kind"] != "scan":
            cmd += " --follow"
        if st["restat"] or st.get("restat_like"):
            cmd += " --restat"
        if st["early"]:
            cmd += " --early"
        if st.get("atomic"):
            cmd += " --atomic"
        if st["deps"] == "msvc":
            cmd += " --msvc"
        if st["depfile"] and st["deps"] != "msvc":
            cmd += " --depfile $depfile"
        if st["rsp"]:
            cmd += " --rsp $rspfile"
        if st["dd"]:
            cmd += " --dd"
        for a in extra.get(st["id"], []) + st.get("vtool_args", []):
            cmd += " " + a
        if st["kind"] == "scan":
            cmd += " --dyndep-for " + " ".join("%s:%s" % (o, s) for o, s in st["serves"])
        rd = direct_reads(sc, st)
        if rd:
            cmd += " --reads " + " ".join(rd)
        cmd += " --outs " + " ".join(all_outs(st))
        cmd += st.get("shell_suffix", "")          # e.g. "; kill -KILL $$$$": the spawned shell itself dies by a signal
        L.append("rule r_%s" % st["id"])
        L.append("  command = %s%s" % (st.get("shell_prefix", ""), cmd))      # e.g. "exec ": the tool takes the shell's place
        if st.get("description"):
            L.append("  description = %s" % st["description"])
        if st["restat"]:
            L.append("  restat = 1")
        if st["generator"] and not st.get("gen_on_build"):
            L.append("  generator = 1")
        if st["deps"] in ("gcc", "msvc"):
            L.append("  deps = %s" % st["deps"])
        if st["depfile"] and st["deps"] != "msvc":
            L.append("  depfile = %s" % st["depfile"])
        if st["rsp"]:
            L.append("  rspfile = %s" % st["rsp"])
            L.append("  rspfile_content = %s" % st["rsp_content"])
    for st in sc["stmts"]:
        line = "build " + " ".join(st["outs"])
        if st["iouts"]:
            line += " | " + " ".join(st["iouts"])
        line += ": " + ("phony" if st["kind"] == "phony" else "r_" + st["id"])
        if st["ins"]:
            line += " " + " ".join(st["ins"])
        if st["iins"]:
            line += " | " + " ".join(st["iins"])
        if st["oins"]:
            line += " || " + " ".join(st["oins"])
        if st["vals"]:
            line += " |@ " + " ".join(st["vals"])
        L.append(line)
        if st["pool"]:
            L.append("  pool = %s" % st["pool"])
        if st["generator"] and st.get("gen_on_build"):
            L.append("  generator = 1")
        if st["dyndep"]:
            L.append("  dyndep = %s" % st["dyndep"])
    if sc.get("regen_manifest"):
        # the manifest is itself a build output (generator rule): regenerating it = touching it, after leaving a trace in
        # the event log and on disk so that a tool that runs the generator is seen
        L.append("rule r_regen")
        L.append("  command = %s --log %s --id build.ninja --key regen --nocmd --reads build.ninja.in --outs .regen.out && touch build.ninja" % (vtool, log))
        L.append("  generator = 1")
        # (optionally the manifest's statement waits for / asks for other statements: a stamp of the generator's own tools as an
        # order-only input, a lint step as a validation - work that can be out of date while the manifest itself is current)
        L.append("build build.ninja: r_regen build.ninja.in" +
                 (" || " + " ".join(sc["regen_manifest_oins"]) if sc.get("regen_manifest_oins") else "") +
                 (" |@ " + " ".join(sc["regen_manifest_vals"]) if sc.get("regen_manifest_vals") else ""))
    if sc.get("defaults"):
        L.append("default " + " ".join(sc["defaults"]) + (" build.ninja" if sc.get("regen_manifest") else ""))
    return "\n".join(L) + "\n"


def session_quiet(sid, timeout=60.0):
    """wait until no live (non-zombie) process of session `sid` is left; -> True if quiet"""
    t0 = time.time()
    while time.time() - t0 < timeout:
        alive = False
        for pid in os.listdir("/proc"):
            if not pid.isdigit():
                continue
            try:
                with open("/proc/%s/stat" % pid) as f:
                    rest = f.read().rsplit(")", 1)[1].split()
                # rest[0]=state rest[1]=ppid rest[2]=pgrp rest[3]=session
                if int(rest[3]) == sid and rest[0] not in ("Z", "X"):
                    alive = True
                    break
            except (OSError, IndexError, ValueError):
                continue
        if not alive:
            return True
        time.sleep(0.01)
    return False


def session_kill(sid):
    """SIGKILL every live process of session `sid` (each command has a process group of its own)"""
    for pid in os.listdir("/proc"):
        if not pid.isdigit():
            continue
        try:
            with open("/proc/%s/stat" % pid) as f:
                rest = f.read().rsplit(")", 1)[1].split()
            if int(rest[3]) == sid and rest[0] not in ("Z", "X"):
                os.kill(int(pid), signal.SIGKILL)
        except (OSError, IndexError, ValueError):
            continue


class Tree:
    """A scratch build directory with real files."""

    def __init__(self, sc=None, prefix="ne2e-"):
        self.d = util.scratch(prefix)
        self.log = os.path.join(self.d, ".vtool.log")
        self.ninja, self.vtool = ninja_bin(), vtool_bin()
        self.max_mtime = 0
        self.sc = None
        if sc is not None:
            self.install(sc)

    def close(self):
        util.rmtree(self.d)

    def path(self, p):
        return os.path.join(self.d, p)

    def install(self, sc, extra=None):
        self.sc = sc
        for p, c in sc["sources"].items():
            if not os.path.exists(self.path(p)) or open(self.path(p)).read() != c:
                self.write(p, c)
        self.write("build.ninja", render(sc, self.vtool, ".vtool.log", extra))

    # ---- edits with a timestamp barrier: the new mtime is strictly larger than anything in the tree
    def _barrier(self):
        probe = self.path(".probe")
        mx = self.tree_max_mtime()
        for _ in range(2000):
            with open(probe, "w") as f:
                f.write("x")
            if os.stat(probe).st_mtime_ns > mx:
                os.unlink(probe)
                return
            time.sleep(0.001)
        os.unlink(probe)

    def tree_max_mtime(self):
        mx = 0
        for root, dirs, files in os.walk(self.d):
            for f in files:
                if f in (".probe",):
                    continue
                try:
                    mx = max(mx, os.stat(os.path.join(root, f)).st_mtime_ns)
                except OSError:
                    pass
        return mx

    def write(self, p, content):
        self._barrier()
        fp = self.path(p)
        os.makedirs(os.path.dirname(fp) or self.d, exist_ok=True)
        with open(fp, "w") as f:
            f.write(content)

    def touch(self, p):
        self._barrier()
        os.utime(self.path(p), None)

    def rm(self, p):
        try:
            os.unlink(self.path(p))
        except OSError:
            pass

    # ---- running ninja
    def run(self, args=(), env=None, timeout=WATCHDOG, input=None, settle=False):
        """settle: ninja runs as the leader of a session of its own and, after it is gone, we wait until nothing is left in
        that session - commands a dying ninja had just spawned may not even have started executing yet"""
        e = build.san_env()
        e["TERM"] = "dumb"
        e.pop("MAKEFLAGS", None)
        e.pop("NINJA_STATUS", None)
        if env:
            e.update(env)
        if settle:
            p = subprocess.Popen([self.ninja] + list(args), cwd=self.d, env=e, stdout=subprocess.PIPE, stderr=subprocess.PIPE,
                                 stdin=subprocess.DEVNULL, start_new_session=True)
            try:
                so, se = p.communicate(timeout=timeout)
            except subprocess.TimeoutExpired:
                try:
                    os.killpg(p.pid, signal.SIGKILL)
                except OSError:
                    pass
                so, se = p.communicate()
                return None, so, se
            session_quiet(p.pid)
            return p.returncode, so, se
        try:
            p = subprocess.run([self.ninja] + list(args), cwd=self.d, env=e, stdout=subprocess.PIPE, stderr=subprocess.PIPE,
                               timeout=timeout, input=input)
            return p.returncode, p.stdout, p.stderr
        except subprocess.TimeoutExpired as ex:
            return None, ex.stdout or b"", ex.stderr or b""

    def popen(self, args=(), env=None, **kw):
        e = build.san_env()
        e["TERM"] = "dumb"
        e.pop("MAKEFLAGS", None)
        if env:
            e.update(env)
        return subprocess.Popen([self.ninja] + list(args), cwd=self.d, env=e, stdout=subprocess.PIPE, stderr=subprocess.PIPE,
                                start_new_session=True, **kw)

    # ---- observations
    def events(self, clear=False):
        ev = []
        try:
            for ln in open(self.log):
                f = ln.rstrip("\n").split(" ", 4)
                if len(f) >= 4:
                    ev.append({"e": f[0], "id": f[1], "t": float(f[2]), "pid": int(f[3]), "x": f[4] if len(f) > 4 else ""})
        except OSError:
            pass
        if clear:
            try:
                os.unlink(self.log)
            except OSError:
                pass
        return ev

    def snapshot(self, with_logs=False):
        r = {}
        for root, dirs, files in os.walk(self.d):
            for dn in dirs:
                r[os.path.relpath(os.path.join(root, dn), self.d) + "/"] = (0, "<dir>")
            for f in files:
                fp = os.path.join(root, f)
                rel = os.path.relpath(fp, self.d)
                if rel in (".vtool.log", ".probe") or (not with_logs and os.path.basename(rel) in (".ninja_log", ".ninja_deps")):
                    continue
                try:
                    with open(fp, "rb") as fh:
                        r[rel] = (os.stat(fp).st_mtime_ns, fh.read().decode("latin-1"))
                except OSError:
                    pass
        return r

    def read(self, p):
        try:
            with open(self.path(p), "rb") as f:
                return f.read()
        except OSError:
            return None


def clean_contents(sc, tree):
    srcs = {p: tree.read(p).decode("latin-1") for p in sc["sources"] if tree.read(p) is not None}
    g = model.Graph(sc, srcs)
    files, _ = g.clean()
    return g, files


def compare_with_clean(sc, tree, targets=None):
    """-> list of (path, got, want) for outputs in the closure of targets that differ from the clean build"""
    g, clean = clean_contents(sc, tree)
    targets = targets or (sc["defaults"] or gen.Gen.roots(sc))
    bad = []
    for sid in g.closure(targets):
        s = g.by_id[sid]
        if s["kind"] == "phony":
            continue
        for o in g.outs(s):
            got = tree.read(o)
            got = got.decode("latin-1") if got is not None else None
            if got != clean.get(o):
                bad.append((o, got, clean.get(o)))
    return bad


def parallel(fn, items, workers=None):
    with ThreadPoolExecutor(max_workers=workers or util.NCPU) as ex:
        return list(ex.map(fn, items))


# ------------------------------------------------------------------------------------------ C06: real runner + FIFO jobserver
def _overlap(ev):
    """max number of simultaneously running commands from vtool's own S/E stamps, and per pool id lists"""
    pts = []
    for e in ev:
        if e["e"] == "S":
            pts.append((e["t"], 1, e["id"]))
        elif e["e"] in ("E", "K"):
            pts.append((e["t"], -1, e["id"]))
    pts.sort(key=lambda x: (x[0], x[1]))
    cur, mx, running, maxset = 0, 0, set(), set()
    hist = []
    for t, d, i in pts:
        if d > 0:
            running.add(i)
        else:
            running.discard(i)
        hist.append(set(running))
        if len(running) > mx:
            mx, maxset = len(running), set(running)
    return mx, maxset, hist


def c06_case(ctx, seed):
    from .simlib import St
    rng = random.Random(seed)
    n = rng.randint(4, 9)
    sc = {"id": "C06e-%d" % seed, "sources": {}, "stmts": [], "pools": {}, "defaults": []}
    if rng.random() < 0.5:
        sc["pools"]["p1"] = rng.randint(1, 2)
    outs = []
    for i in range(n):
        sc["sources"]["c%d.c" % i] = "// %d\n" % i
        st = St("s%d" % i, ["o/x%d.o" % i], ins=["c%d.c" % i] + ([rng.choice(outs)] if outs and rng.random() < 0.25 else []))
        st["vtool_args"] = ["--sleep-after", str(rng.choice((80, 150, 250)))]
        x = rng.random()
        if x < 0.3 and sc["pools"]:
            st["pool"] = "p1"
        elif x < 0.4:
            st["pool"] = "console"
        sc["stmts"].append(st)
        outs.append(st["outs"][0])
    mode = rng.choice(("j", "j", "jobserver", "jobserver", "jobserver"))
    path = rng.choice(("success", "failure", "sigint", "startedge"))
    if path == "failure":
        v = rng.choice(sc["stmts"])
        v["vtool_args"] += ["--exit", "3"]
    if path == "startedge":
        # an output below a path component that is a regular file: mkdir fails with ENOTDIR inside StartEdge
        sc["sources"]["blk"] = "i am a file\n"
        st = St("bad", ["blk/sub/y.o"], ins=["c0.c"])
        sc["stmts"].append(st)
    t = Tree(sc)
    rep = {"seed": seed, "mode": mode, "path": path}
    what = "e2e scenario %d (%s, exit path %s)" % (seed, mode, path)
    fifo = os.path.join(t.d, ".jobserver.fifo")
    fd = None
    try:
        rep["manifest"] = open(t.path("build.ninja")).read()
        env, args = {}, []
        ntok = None
        if mode == "jobserver":
            os.mkfifo(fifo)
            fd = os.open(fifo, os.O_RDWR | os.O_NONBLOCK)
            ntok = rng.randint(0, 4)
            # a token is a byte; the protocol asks a client to give back exactly the bytes it took ('+' with GNU make, '|' with
            # the Rust implementation, anything - with the top bit set, too - with others)
            tokbytes = bytes(rng.choice(b"+++|+a0\x01\x7f\x80\xa0\xe9\xff") for _ in range(ntok)) if rng.random() < 0.6 else b"+" * ntok
            os.write(fd, tokbytes)
            env["MAKEFLAGS"] = " -j%d --jobserver-auth=fifo:%s" % (ntok + 1, fifo)
            limit = ntok + 1
            args = ["-k", str(rng.choice((1, 0)))]
        else:
            limit = rng.choice((1, 2, 3, 8))
            args = ["-j%d" % limit, "-k", str(rng.choice((1, 0)))]
            if rng.random() < 0.3:
                # a load limit that is always exceeded: ninja may only start a command when nothing runs, and must still get through
                args += ["-l", rng.choice(("0.01", "0.5"))]
                rep["load_limited"] = True
        p = t.popen(args, env=env)
        thief_took = b""
        if mode == "jobserver" and rng.random() < 0.4 and ntok:
            # a competing client takes a token for a while and gives it back
            time.sleep(0.05)
            try:
                thief_took = os.read(fd, 1)
            except OSError:
                pass
            time.sleep(0.2)
            if thief_took:
                os.write(fd, thief_took)
        if path == "sigint":
            time.sleep(rng.random() * 0.3 + 0.05)
            try:
                os.kill(p.pid, signal.SIGINT)
            except OSError:
                pass
        try:
            so, se = p.communicate(timeout=WATCHDOG)
        except subprocess.TimeoutExpired:
            os.killpg(p.pid, signal.SIGKILL)
            ctx.violation("C06/e2e-ninja-does-not-terminate/%s" % path, what, rep)
            return
        rc = p.returncode
        ctx.evaluations += 1
        txt = (so + se).decode("latin-1")
        sig = util.san_signature(txt)
        if sig:
            ctx.violation("C06/e2e-sanitizer/" + sig, "%s: %s" % (what, txt[-1500:]), rep)
            return
        if "stuck" in txt:
            ctx.violation("C06/e2e-stuck", "%s: %s" % (what, txt[-300:]), rep)
            return
        ev = t.events()
        mx, mset, hist = _overlap(ev)
        ctx.count("e2e_runs_%s_%s" % (mode, path))
        if mx >= 2:
            ctx.nontrivial((seed, mx))
        if mx > limit:
            ctx.violation("C06/e2e-over-limit/%s" % mode, "%s: %d commands ran at once (%s), limit %d" % (what, mx, sorted(mset), limit), rep)
            return
        sid_of = {s["outs"][0]: s for s in sc["stmts"]}
        for running in hist:
            for pool, depth in list(sc["pools"].items()) + [("console", 1)]:
                k = [o for o in running if sid_of[o]["pool"] == pool]
                if len(k) > depth:
                    ctx.violation("C06/e2e-over-pool-depth", "%s: %s ran together in pool %s (depth %d)" % (what, k, pool, depth), rep)
                    return
        starts = [e["id"] for e in ev if e["e"] == "S"]
        if len(starts) != len(set(starts)):
            ctx.violation("C06/e2e-started-twice", "%s: %s" % (what, starts), rep)
            return
        if path == "success":
            # "always terminates, either having run everything needed or with an error"
            ctx.count("e2e_completeness_checks")
            want = {s["outs"][0] for s in sc["stmts"]}
            if rc != 0 or set(starts) != want:
                ctx.violation("C06/e2e-exit-0-with-work-left%s" % ("/load-limited" if rep.get("load_limited") else "") if rc == 0 else "C06/e2e-build-failed",
                              "%s (%s): exit %s, started %s of %s: %s" % (what, " ".join(args), rc, sorted(starts), sorted(want), txt[-200:]), rep)
                return
        if mode == "jobserver":
            time.sleep(0.05)
            gotb = b""
            try:
                while True:
                    b = os.read(fd, 64)
                    if not b:
                        break
                    gotb += b
            except OSError:
                pass
            got = len(gotb)
            ctx.count("e2e_fifo_token_checks")
            if any(c != 0x2b for c in tokbytes):
                ctx.count("e2e_fifo_pools_with_other_token_bytes")
            if got != ntok or sorted(gotb) != sorted(tokbytes):
                ctx.violation("C06/e2e-fifo-tokens/%s" % path, "%s: the FIFO held %d tokens (%r) before and %d (%r) after ninja exited (rc %s): %s" %
                              (what, ntok, tokbytes, got, gotb, rc, txt[-200:]), rep)
                return
        if len(ctx.samples) < 6 and mx >= 2 and mode == "jobserver":
            ctx.sample({"scenario": what, "tokens": ntok, "max_concurrency": mx, "exit": rc})
    finally:
        if fd is not None:
            os.close(fd)
        t.close()


def c06_simultaneous_case(ctx, seed, attempt=0):
    """Two commands finish while ninja is not looking (it is stopped, as when the machine is busy), so that ninja sees both
    completions in one wake-up, with a FIFO jobserver and more ready commands than tokens.  Both must be reaped at once:
    the waiting commands start together (no slot idles behind a finished command), and when the first one reaped is a
    failure that ends the build, ninja must still terminate and return every token."""
    from .simlib import St
    rng = random.Random(seed)
    variant = rng.choice(("idle", "idle", "terminate", "abort", "abort"))
    sc = {"id": "C06s-%d" % seed, "sources": {}, "stmts": [], "pools": {}, "defaults": []}
    names = ["a", "b", "c", "d"]
    for nm in names:
        sc["sources"][nm + ".c"] = "// %s\n" % nm
        st = St(nm, ["o/%s.o" % nm], ins=[nm + ".c"])
        st["vtool_args"] = ["--wait-for", "gate"] if nm in "ab" else ["--sleep-after", "1500"]
        sc["stmts"].append(st)
    # c and d come after a and b in the plan only through the token shortage (2 slots: the implicit one + 1 token)
    failing = None
    if variant == "terminate":
        failing = rng.choice("ab")
        next(s_ for s_ in sc["stmts"] if s_["id"] == failing)["vtool_args"] += ["--exit", "3"]
        sc["stmts"] = [s_ for s_ in sc["stmts"] if s_["id"] in "ab"]
        # one more ready command that can never get a token keeps ninja watching the jobserver
        sc["sources"]["e.c"] = "// e\n"
        sc["stmts"].append(St("e", ["o/e.o"], ins=["e.c"]))
    first = ["a", "b"]
    ntok = 1
    if variant == "abort":
        # three commands hold the implicit slot and two tokens; all three end while ninja is stopped, and one of them ended
        # with an interrupt status (its tool was hit by SIGTERM/SIGINT/SIGHUP): ninja abandons the build - and still has to
        # give back the tokens of the commands that had finished but were not looked at yet
        first = ["a", "b", "c"]
        ntok = 2
        sc["stmts"] = [s_ for s_ in sc["stmts"] if s_["id"] in first]
        for s_ in sc["stmts"]:
            s_["vtool_args"] = ["--wait-for", "gate"]
        failing = rng.choice(["a", "a", "b", "c"])      # (the earlier it is looked at, the more finished commands wait behind it)
        next(s_ for s_ in sc["stmts"] if s_["id"] == failing)["vtool_args"] += ["--kill-self", str(rng.choice((15, 2, 1)))]
    t = Tree(sc)
    rep = {"seed": seed, "variant": variant}
    what = "e2e simultaneous-completion scenario %d (%s)" % (seed, variant)
    fifo = os.path.join(t.d, ".jobserver.fifo")
    fd = None
    p = None
    try:
        rep["manifest"] = open(t.path("build.ninja")).read()
        os.mkfifo(fifo)
        fd = os.open(fifo, os.O_RDWR | os.O_NONBLOCK)
        os.write(fd, b"+" * ntok)
        env = {"MAKEFLAGS": " -j%d --jobserver-auth=fifo:%s" % (ntok + 1, fifo)}
        p = t.popen(["-k", "1"], env=env)
        # wait until a and b run
        for _ in range(3000):
            if {e["id"] for e in t.events() if e["e"] == "S"} >= {"o/%s.o" % x for x in first}:
                break
            if p.poll() is not None:
                break
            time.sleep(0.005)
        else:
            ctx.inconclusive += 1
            return
        if p.poll() is not None:
            ctx.inconclusive += 1
            return
        os.kill(p.pid, signal.SIGSTOP)
        t.write("gate", "open\n")
        for _ in range(3000):       # both commands finish while ninja is stopped
            ended = {e["id"] for e in t.events() if e["e"] in ("E", "K")}
            if ended >= {"o/%s.o" % x for x in first}:
                break
            time.sleep(0.005)
        time.sleep(0.2)
        os.kill(p.pid, signal.SIGCONT)
        try:
            so, se = p.communicate(timeout=45)
        except subprocess.TimeoutExpired:
            os.killpg(p.pid, signal.SIGKILL)
            p.communicate()
            if attempt == 0:
                ctx.count("e2e_simultaneous_retry_after_timeout")
                t.close()
                return c06_simultaneous_case(ctx, seed, attempt=1)
            ctx.violation("C06/e2e-ninja-does-not-terminate/simultaneous-completion-%s" % variant,
                          "%s: ninja still runs 45 s after both commands ended (twice)" % what, rep)
            return
        rc = p.returncode
        ctx.evaluations += 1
        txt = (so + se).decode("latin-1")
        sig = util.san_signature(txt)
        if sig:
            ctx.violation("C06/e2e-sanitizer/" + sig, "%s: %s" % (what, txt[-1500:]), rep)
            return
        ev = t.events()
        ctx.count("e2e_simultaneous_%s" % variant)
        ctx.nontrivial(("simul", seed))
        if variant == "idle":
            st_ = {e["id"]: e["t"] for e in ev if e["e"] == "S"}
            en_ = {e["id"]: e["t"] for e in ev if e["e"] in ("E", "K")}
            if rc != 0 or not {"o/c.o", "o/d.o"} <= set(st_):
                ctx.violation("C06/e2e-simultaneous-completion/build-failed", "%s: exit %s: %s" % (what, rc, txt[-300:]), rep)
                return
            first, second = sorted(("o/c.o", "o/d.o"), key=lambda o: st_[o])
            # both slots are free once a and b are reaped: the second of c/d must not wait for the first to end (1.5 s)
            if st_[second] >= en_[first]:
                ctx.violation("C06/e2e-idle-slot/finished-command-not-reaped",
                              "%s: %s started %.2f s after %s, only when %s had ended: a slot idled behind a finished command" %
                              (what, second, st_[second] - st_[first], first, first), rep)
                return
        elif variant == "abort":
            if rc == 0:
                ctx.violation("C06/e2e-simultaneous-completion/exit-zero", "%s: exit 0 although the tool of %s was killed" % (what, failing), rep)
                return
        else:
            if rc == 0:
                ctx.violation("C06/e2e-simultaneous-completion/exit-zero", "%s: exit 0 although %s failed" % (what, failing), rep)
                return
        time.sleep(0.05)
        got = 0
        try:
            while True:
                b_ = os.read(fd, 64)
                if not b_:
                    break
                got += len(b_)
        except OSError:
            pass
        if got != ntok:
            ctx.violation("C06/e2e-fifo-tokens/simultaneous-completion" + ("/abandoned-build" if variant == "abort" else ""),
                          "%s: the FIFO held %d token(s) before and %d after ninja exited (rc %s)" % (what, ntok, got, rc), rep)
            return
    finally:
        if p is not None and p.poll() is None:
            try:
                os.killpg(p.pid, signal.SIGKILL)
            except OSError:
                pass
        if fd is not None:
            os.close(fd)
        t.close()


def c06_scenarios(ctx):
    rng = random.Random(ctx.seed * 13 + 606)
    seeds = [rng.randint(1, 10 ** 9) for _ in range(48 if ctx.tier == "quick" else 400)]
    from .checks.c07 import safe
    parallel(lambda s: safe(ctx, c06_case, ctx, s), seeds, workers=8)
    seeds2 = [rng.randint(1, 10 ** 9) for _ in range(24 if ctx.tier == "quick" else 160)]
    parallel(lambda s: safe(ctx, c06_simultaneous_case, ctx, s), seeds2, workers=6)


# ------------------------------------------------------------------------------------------ C08: the real binary's log paths
def c08_case(ctx, seed):
    from .simlib import St
    from .logmodel import parse_build_log, build_log_records
    rng = random.Random(seed)
    n = rng.randint(30, 45)
    sc = {"id": "C08e-%d" % seed, "sources": {"in.c": "// in\n"}, "stmts": [], "pools": {}, "defaults": []}
    for i in range(n):
        sc["stmts"].append(St("s%d" % i, ["o%d.o" % i] + (["o%d.map" % i] if rng.random() < 0.25 else []), ins=["in.c"]))
    # a generator statement in the middle of the graph (a generated configuration header): ninja closes the build log
    # before running it and re-opens it afterwards; everything recorded after that must still reach the disk
    with_gen = rng.random() < 0.6
    if with_gen:
        sc["sources"]["gen.in"] = "// 0\n"
        g0 = sc["stmts"][0]
        g0["generator"] = True
        g0["ins"] = ["gen.in"]
        for s in sc["stmts"][1:]:
            if rng.random() < 0.5:
                s["ins"] = s["ins"] + [g0["outs"][0]]
    # ... and a generator that itself works on the build directory the way gn does: its command ends with `ninja -t restat` or
    # `ninja -t recompact`, which replace .ninja_log while the outer ninja is in the middle of its session.  That is what the
    # log is closed for before a generator statement starts.  The generator runs alone here (a few statements before it, all
    # others behind it), so that the outer ninja appends nothing while the file is being replaced.
    nested = None
    if with_gen and rng.random() < 0.5:
        nested = rng.choice(("restat", "recompact"))
        g0 = sc["stmts"][0]
        npre = rng.randint(1, 4)
        pre = sc["stmts"][1:1 + npre]
        for s in pre:
            s["ins"] = ["in.c"]
        g0["oins"] = [s["outs"][0] for s in pre]
        for s in sc["stmts"][1 + npre:]:
            if g0["outs"][0] not in s["ins"]:
                s["ins"] = s["ins"] + [g0["outs"][0]]
    t = Tree(sc)
    if nested:
        sc["stmts"][0]["shell_suffix"] = " && %s -t %s > nested.out 2>&1" % (t.ninja, nested)
        t.install(sc)
        ctx.count("e2e_log_generator_runs_ninja_-t_" + nested)
    rep = {"seed": seed, "generator_statement": with_gen, "generator_runs": nested}
    what = "e2e log scenario %d" % seed
    try:
        rounds = rng.randint(4, 6)
        prev = {}
        for r in range(rounds):
            for s in sc["stmts"]:
                s["ver"] += 1
            if with_gen:
                sc["sources"]["gen.in"] = "// %d\n" % (r + 1)
            t.install(sc)
            t.events(clear=True)
            rc, so, se = t.run(["-j8"])
            if rc != 0:
                ctx.inconclusive += 1
                return
            # every command that ran in this session has its (new) record on disk
            cur = parse_build_log(t.read(".ninja_log") or b"")[1]
            ran = {e["id"] for e in t.events() if e["e"] == "S"}
            for s in sc["stmts"]:
                o = s["outs"][0]
                if o not in ran:
                    continue
                ctx.count("e2e_log_session_record_checks")
                rec = cur.get(o.encode())
                if rec is None or (not s["generator"] and prev.get(o) is not None and rec[0] == prev[o]):
                    ctx.violation("C08/e2e-record-not-persisted/%s" % ("with-generator-edge" if with_gen else "plain"),
                                  "%s, session %d: the command of %s ran (new command line) but the log on disk has %s" %
                                  (what, r, o, "no record" if rec is None else "only the record of the previous command"), rep)
                    return
            prev = {k.decode(): v[0] for k, v in cur.items()}
        log = t.read(".ninja_log")
        nrec = len(build_log_records(log))
        before = parse_build_log(log)[1]
        scenario = rng.choice(("dropped-on-disk", "dropped-deleted", "restat", "recompact", "secondary-record-lost", "secondary-record-lost"))
        multi = [s for s in sc["stmts"] if len(s["outs"]) > 1 and not s["generator"]]
        if scenario == "secondary-record-lost" and not multi:
            scenario = "recompact"
        ctx.evaluations += 1
        ctx.count("e2e_log_%s" % scenario)
        # what a ninja that died in the middle of rewriting the log leaves next to it: the temporary file of a recompaction or of
        # a restat, with a part of the new log in it.  The next rewrite starts over; the leftover neither stops it nor ends up in it.
        if rng.random() < 0.5:
            for tmpname in rng.sample([".ninja_log.recompact", ".ninja_log.restat"], rng.randint(1, 2)):
                cut = rng.randint(0, len(log))
                with open(t.path(tmpname), "wb") as f:
                    f.write(log[:cut] if rng.random() < 0.7 else b"# ninja log v7\n1\t2\t3\tghost.o\tdeadbeef\n")
            ctx.count("e2e_log_leftover_temporary_files")
        if scenario in ("dropped-on-disk", "dropped-deleted"):
            # (not the generator statement: its output is an input of others, which could not be built without it)
            used = {i_ for s_ in sc["stmts"] for i_ in s_["ins"]}
            cand = [k_ for k_, s_ in enumerate(sc["stmts"]) if not (set(s_["outs"]) & used)]
            victim = sc["stmts"].pop(rng.choice(cand))
            vo = victim["outs"][0]
            t.install(sc)
            if scenario == "dropped-deleted":
                t.rm(vo)
            rc, so, se = t.run(["-j4"])
            after_bytes = t.read(".ninja_log")
            after = parse_build_log(after_bytes)[1]
            compacted = len(build_log_records(after_bytes)) < nrec
            if not compacted:
                ctx.count("e2e_log_no_recompaction")
            else:
                ctx.nontrivial((seed, scenario))
            for o, rec in before.items():
                name = o.decode()
                live = name != vo or scenario == "dropped-on-disk"
                if live and after.get(o) is None:
                    ctx.violation("C08/e2e-recompaction-dropped-live-record/%s" % ("removed-from-manifest-but-on-disk" if name == vo else "in-manifest"),
                                  "%s: %d records for %d outputs; after the next run the record of %s is gone" % (what, nrec, len(before), name), rep)
                    return
                if live and name != vo and after[o][0] != rec[0]:
                    ctx.violation("C08/e2e-recompaction-changed-hash", "%s: %s" % (what, name), rep)
                    return
        elif scenario == "secondary-record-lost":
            # the records of one command are written one output after the other; a log that lost (all of, or the tail of) the
            # record of a further output of a statement - ninja died in between, the disk filled up - vouches for nothing
            v = rng.choice(multi)
            o2 = v["outs"][1].encode()
            lines = log.split(b"\n")
            idx = [k for k, ln in enumerate(lines) if ln.split(b"\t")[3:4] == [o2]]
            how = rng.choice(("removed", "torn"))
            for k in idx:
                lines[k] = None if how == "removed" else lines[k][:rng.randint(1, max(1, len(lines[k]) - 2))]
            newlog = b"\n".join(ln for ln in lines if ln is not None)
            if how == "torn":
                # a torn line can only be the last thing in the file
                keep = [ln for ln in lines if ln is not None]
                last = max(idx)
                newlog = b"\n".join(x for x in lines[:last] if x is not None and x.split(b"\t")[3:4] != [o2]) + b"\n" + lines[last]
            with open(t.path(".ninja_log"), "wb") as f:
                f.write(newlog)
            t.events(clear=True)
            rc, so, se = t.run(["-j4"])
            ran = {e["id"] for e in t.events() if e["e"] == "S"}
            ctx.nontrivial((seed, scenario, how))
            if v["outs"][0] not in ran:
                ctx.violation("C08/e2e-lost-record-of-further-output-trusted/%s" % how,
                              "%s: the log has no complete record for %s (the second output of %s) any more, yet ninja does not run the command again: %s" %
                              (what, o2.decode(), v["outs"][0], so.decode("latin-1")[-200:]), rep)
                return
            if how == "torn":
                # the first record appended behind the torn line merged with it and is lost as well (allowed: it can only make an
                # output look out of date): one more run re-does that command, after which the log is whole again
                t.run(["-j4"])
        elif scenario == "restat":
            sel = [s["outs"][0] for s in rng.sample(sc["stmts"], rng.randint(0, 3))]
            for o in rng.sample([s["outs"][0] for s in sc["stmts"]], 3):
                t.touch(o)
            rc, so, se = t.run(["-t", "restat"] + sel)
            after = parse_build_log(t.read(".ninja_log"))[1]
            ctx.nontrivial((seed, scenario, tuple(sel)))
            if rc != 0:
                ctx.violation("C08/e2e-restat-failed", "%s: rc %s %s" % (what, rc, (so + se).decode("latin-1")[-300:]), rep)
                return
            if set(after) != set(before):
                ctx.violation("C08/e2e-restat-lost-records", "%s: -t restat: %d records before, %d after" % (what, len(before), len(after)), rep)
                return
            for o, rec in before.items():
                a = after[o]
                if (a[0], a[1], a[2]) != (rec[0], rec[1], rec[2]):
                    ctx.violation("C08/e2e-restat-changed-more-than-mtime", "%s: %s %r -> %r" % (what, o, rec, a), rep)
                    return
                selected = not sel or o.decode() in sel
                want = os.stat(t.path(o.decode())).st_mtime_ns if selected else rec[3]
                if a[3] != want:
                    ctx.violation("C08/e2e-restat-mtime", "%s: %s recorded mtime %s, file mtime %s (selected=%s)" % (what, o, a[3], want, selected), rep)
                    return
        else:
            rc, so, se = t.run(["-t", "recompact"])
            after_bytes = t.read(".ninja_log")
            after = parse_build_log(after_bytes)[1]
            ctx.nontrivial((seed, scenario))
            if rc != 0 or after != before:
                ctx.violation("C08/e2e-recompact-tool", "%s: rc %s, %d records before, %d after" % (what, rc, len(before), len(after)), rep)
                return
            if len(build_log_records(after_bytes)) != len(before):
                ctx.violation("C08/e2e-recompact-not-compact", "%s: %d lines for %d outputs" % (what, len(build_log_records(after_bytes)), len(before)), rep)
                return
        # and the tree still converges
        rc, so, se = t.run(["-j4"])
        if scenario != "restat" and (rc != 0 or b"no work to do" not in so):
            ctx.violation("C08/e2e-rebuild-after-log-operation", "%s (%s): %s" % (what, scenario, so.decode("latin-1")[-300:]), rep)
    finally:
        t.close()


def c08_scenarios(ctx):
    rng = random.Random(ctx.seed * 17 + 808)
    seeds = [rng.randint(1, 10 ** 9) for _ in range(28 if ctx.tier == "quick" else 400)]
    from .checks.c07 import safe
    parallel(lambda s: safe(ctx, c08_case, ctx, s), seeds)


# ------------------------------------------------------------------------------------------ C02/C03: recompaction on the real binary
def recompaction_case(ctx, seed, prop):
    """NinjaMain::IsPathDead (which decides what a recompaction of the build log keeps) lives in ninja.cc, which the simulator
    cannot link.  So on the real binary: a project with dyndep-provided outputs (paths no manifest line mentions) is built,
    its logs are made as long as repeated rebuilds make them, and the next invocation - which recompacts while it opens the
    logs, before any dyndep file is read - must find nothing to do; after one source change it rebuilds what a clean build
    gives and then again finds nothing to do."""
    rng = random.Random(seed)
    g = gen.Gen(random.Random(rng.randint(0, 2 ** 60)), size=rng.randint(3, 6),
                feat=dict(dyndep=1.0, deps=0.5, restat=0.2, phony=0.15, generator=0.0, pools=0.15, chain=0.6, early=0.0, console=0.0))
    sc = g.scenario("%sr-%d" % (prop, seed))
    if not any(s.get("dd") for s in sc["stmts"]):
        sc = g.add_dyndep(sc) or sc
    sc["defaults"] = []
    t = Tree(sc)
    rep = {"seed": seed}
    what = "recompaction scenario %d" % seed
    try:
        rep["manifest"] = open(t.path("build.ninja")).read()
        rc, so, se = t.run(["-j4"])
        if rc != 0:
            ctx.inconclusive += 1
            return
        t.events(clear=True)
        rc, so, se = t.run(["-j4"])
        if rc != 0 or [e for e in t.events() if e["e"] == "S"]:
            # (what a second build does without any recompaction is the simulator families' business)
            ctx.count("e2e_recompaction_baseline_not_quiet")
            return
        for rnd in range(2):
            lp = t.path(".ninja_log")
            data = open(lp, "rb").read()
            body = b"".join(data.split(b"\n", 1)[1:])
            nrec = body.count(b"\n")
            if nrec == 0:
                ctx.inconclusive += 1
                return
            reps = max(4, 110 // nrec + 1)
            with open(lp, "ab") as f:
                for _ in range(reps):
                    f.write(body)
            size_before = os.path.getsize(lp)
            t.events(clear=True)
            rc, so, se = t.run(["-j4", "-d", "explain"])
            ctx.evaluations += 1
            sig = util.san_signature((so + se).decode("latin-1"))
            if sig:
                ctx.violation(prop + "/e2e-sanitizer/" + sig, "%s: %s" % (what, (so + se).decode("latin-1")[-1200:]), rep)
                return
            compacted = os.path.getsize(lp) < size_before
            ran = sorted({e["id"] for e in t.events() if e["e"] == "S"})
            if compacted:
                ctx.count("e2e_recompactions_observed")
                ctx.nontrivial((prop, "recompaction", seed, rnd))
            if rc != 0 or ran:
                ctx.violation(prop + "/e2e-work-after-recompaction" + ("" if compacted else "/log-only-grew"),
                              "%s: nothing changed since the last successful build (only the build log grew to %d records for %d outputs%s), yet ninja "
                              "ran %s (exit %s): %s" % (what, nrec * (reps + 1), nrec, ", and was recompacted at start-up" if compacted else "", ran, rc,
                                                         (so + se).decode("latin-1")[-500:]), rep)
                return
            if rnd == 1:
                break
            # one change, then the same again
            srcs = sorted(p_ for p_ in sc["sources"] if not p_.endswith(".dd"))
            p_ = rng.choice(srcs)
            sc["sources"][p_] += "// e%d\n" % rng.randint(0, 999999)
            t.write(p_, sc["sources"][p_])
            rc, so, se = t.run(["-j4"])
            if rc != 0:
                ctx.inconclusive += 1
                return
            bad = compare_with_clean(sc, t)
            if bad:
                o, got, want = bad[0]
                ctx.violation(prop + "/e2e-stale-after-recompaction", "%s: after editing %s and a successful build %s is %r, a clean build gives %r" %
                              (what, p_, o, got, want), rep)
                return
            t.events(clear=True)
            rc, so, se = t.run(["-j4"])
            if rc != 0 or [e for e in t.events() if e["e"] == "S"]:
                ctx.count("e2e_recompaction_baseline_not_quiet")
                return
    finally:
        t.close()


def recompaction_scenarios(ctx, prop, n):
    rng = random.Random(ctx.seed * 131 + 77 + int(prop[1:]))
    seeds = [rng.randint(1, 10 ** 9) for _ in range(n)]
    from .checks.c07 import safe
    parallel(lambda sd: safe(ctx, recompaction_case, ctx, sd, prop), seeds)


def regen_sibling_case(ctx, seed, prop):
    """The statement that regenerates the manifest writes other files too (a configure step: build.ninja AND config.h), as a
    write-if-changed generator (generator = 1, restat = 1).  Its input changes in a way that leaves the manifest byte for byte
    what it was but changes the sibling: ninja runs the step, finds the manifest untouched, carries on in the same process - and
    has to bring what depends on the sibling up to date in that same run, so that the next run finds nothing to do."""
    rng = random.Random(seed)
    t = Tree()
    rep = {"seed": seed}
    try:
        nsib = rng.randint(1, 2)
        sibs = ["config%d.h" % k for k in range(nsib)]
        ncons = rng.randint(1, 3)
        L = ["rule configure",
             "  command = cp configure.in %s && { cmp -s build.ninja.tmpl build.ninja || cp build.ninja.tmpl build.ninja; } && echo configure >> ran.log" % " && cp configure.in ".join(sibs),
             "  generator = 1", "  restat = 1",
             "rule cc", "  command = cat $in > $out && echo $out >> ran.log",
             "build build.ninja %s%s: configure configure.in | build.ninja.tmpl" % (" ".join(sibs[:1]), (" | " + " ".join(sibs[1:])) if sibs[1:] else "")]
        outs, explicit = [], []
        for k in range(ncons):
            src = "app%d.c" % k
            with open(t.path(src), "w") as f:
                f.write("// app %d\n" % k)
            kind = rng.choice((" ", " | ", " || "))
            L.append("build app%d.o: cc %s%s%s" % (k, src, kind, rng.choice(sibs)))
            if kind != " || ":
                outs.append("app%d.o" % k)
            if kind == " ":
                explicit.append("app%d.o" % k)         # ($in names it: the new configuration ends up in the output)
        L.append("build prog: cc " + " ".join("app%d.o" % k for k in range(ncons)))
        text = "\n".join(L) + "\n"
        for name in ("build.ninja", "build.ninja.tmpl"):
            with open(t.path(name), "w") as f:
                f.write(text)
        t.write("configure.in", "// configuration 0\n")
        rep["manifest"] = text
        what = "regenerating statement with sibling outputs, scenario %d" % seed
        rc, so, se = t.run(["-j3"])
        rc_, so_, _ = t.run(["-j3"])
        if rc != 0 or rc_ != 0 or b"no work to do" not in so_:
            ctx.inconclusive += 1
            ctx.count("e2e_regen_sibling_setup_failed")
            return
        for rnd in range(rng.randint(1, 2)):
            t.write("configure.in", "// configuration %d\n" % (rnd + 1))
            if rng.random() < 0.4 and outs:
                t.touch("app0.c")
            open(t.path("ran.log"), "w").close()
            tg = rng.choice(([], ["prog"], outs[:1]))
            rc, so, se = t.run(["-j%d" % rng.choice((1, 3))] + tg)
            ctx.evaluations += 1
            ran1 = open(t.path("ran.log")).read().split()
            rc2, so2, se2 = t.run(["-j3"] + tg)
            ran2 = open(t.path("ran.log")).read().split()[len(ran1):]
            ctx.count("e2e_regen_sibling_rounds")
            ctx.nontrivial(("regen-sibling", seed, rnd))
            txt = (so + se + so2 + se2).decode("latin-1")
            sig = util.san_signature(txt)
            if sig:
                ctx.violation(prop + "/e2e-sanitizer/" + sig, "%s: %s" % (what, txt[-1200:]), rep)
                return
            if rc != 0:
                ctx.violation(prop + "/e2e-regen-sibling/build-failed", "%s: %s" % (what, txt[-400:]), rep)
                return
            if rc2 != 0 or b"no work to do" not in so2 or ran2:
                ctx.violation(prop + "/e2e-regen-sibling/not-converged", "%s: after configure.in changed, 'ninja %s' ran %s and exited 0; the next run ran %s (%s)" %
                              (what, " ".join(tg), ran1, ran2, so2.decode("latin-1")[-200:]), rep)
                return
            # and the tree is what a from-scratch evaluation gives: every consumer of a sibling (not order-only) has its new content
            cfg = t.read("configure.in")
            for o in explicit:
                if tg and o not in tg and tg != ["prog"]:
                    continue
                got = t.read(o) or b""
                if not got.endswith(cfg):
                    ctx.violation(prop + "/e2e-regen-sibling/stale", "%s: %s does not end with the new configuration after a successful build (ran %s)" %
                                  (what, o, ran1), rep)
                    return
    finally:
        t.close()


def regen_sibling_scenarios(ctx, prop, n):
    rng = random.Random(ctx.seed * 137 + 91 + int(prop[1:]))
    seeds = [rng.randint(1, 10 ** 9) for _ in range(n)]
    from .checks.c07 import safe
    parallel(lambda sd: safe(ctx, regen_sibling_case, ctx, sd, prop), seeds)


# ------------------------------------------------------------------------------------------ C16: response files on the real disk
def c16_rsp_case(ctx, seed, prop="C16"):
    """Response files through RealDiskInterface and real processes: a file may already be at the rspfile path (kept after a
    failed command, kept by -d keeprsp, or plain stale) and may be longer than the new content; the command must still read
    exactly the evaluated rspfile_content, the file is removed after success and kept - with exactly that content - after a
    failure."""
    rng = random.Random(seed)
    g = gen.Gen(random.Random(rng.randint(0, 2 ** 60)), size=rng.randint(2, 5),
                feat=dict(rsp=1.0, deps=0.2, dyndep=0.0, phony=0.1, generator=0.0, restat=0.1, pools=0.0, vals=0.0, chain=0.8))
    sc = g.scenario("C16e-%d" % seed)
    rsps = [s for s in sc["stmts"] if s["kind"] == "cmd" and s["rsp"]]
    if not rsps:
        return
    t = Tree(sc)
    rep = {"seed": seed}
    try:
        rep["manifest"] = open(t.path("build.ninja")).read()
        what = "scenario %d" % seed
        mode = rng.choice(("stale-file", "kept-after-failure", "keeprsp"))
        rep["mode"] = mode
        if mode == "stale-file":
            for s in rsps:
                if rng.random() < 0.7:
                    t.write(s["rsp"], "STALE CONTENT " * rng.randint(1, 40) + "\n")
        elif mode == "kept-after-failure":
            # first build: some commands fail, ninja keeps their response files; then the content gets shorter
            victims = [s for s in rsps if rng.random() < 0.6] or rsps[:1]
            for s in sc["stmts"]:
                if s["kind"] == "cmd" and s["rsp"]:
                    s["rsp_content"] = "a rather long list of flags before the inputs: " + s["rsp_content"] + " and a long tail after them"
            # "fails" comes in more than one kind: an exit status, or the command's process ended by a signal - SIGKILL/SIGSEGV
            # (an ordinary failure for ninja) or SIGTERM/SIGINT/SIGHUP (which ninja takes for an interrupt of the whole build: it
            # stops the other commands and cleans up after them).  Neither kind of command succeeded: the response files of all of
            # them, and of the commands that were stopped, stay.
            how = {}
            for s in victims:
                if rng.random() < 0.35:
                    how[s["id"]] = rng.choice((15, 2, 1, 9, 11))
                    s["shell_prefix"] = "exec "            # the tool takes the place of the shell ninja spawned
            if how:
                ctx.count("e2e_rsp_commands_ended_by_signal", len(how))
            t.install(sc, extra={s["id"]: (["--kill-self", str(how[s["id"]])] if s["id"] in how else ["--exit", "3"]) for s in victims})
            rc, so, se = t.run(["-k", "0", "-j4"], settle=True)
            for s in victims:
                s.pop("shell_prefix", None)
            ctx.evaluations += 1
            sig = util.san_signature((so + se).decode("latin-1"))
            if sig:
                ctx.violation(prop + "/e2e-sanitizer/" + sig, "%s: %s" % (what, (so + se).decode("latin-1")[-1200:]), rep)
                return
            ran0 = {e["id"] for e in t.events() if e["e"] == "S"}
            ended_ok = {e["id"] for e in t.events() if e["e"] == "E" and e["x"].split(" ")[0] in ("", "0")}
            interrupted = any(v in (15, 2, 1) for v in how.values()) and rc == 130
            for s in (rsps if interrupted else victims):
                if s["outs"][0] not in ran0 or (s not in victims and s["outs"][0] in ended_ok):
                    continue
                ctx.count("e2e_rsp_kept_checks")
                got = t.read(s["rsp"])
                if got is None or got.decode("latin-1") != simlib.rsp_string(s):
                    kind = "failure" if s["id"] not in how else ("signal-%d" % how[s["id"]])
                    if s not in victims:
                        kind = "stopped-with-the-build"
                    ctx.violation(prop + "/e2e-rspfile-after-%s" % ("failure" if kind == "failure" else "unsuccessful-end/" + kind),
                                  "%s: the command of %s did not succeed (%s) and its response file is %r, expected %r" %
                                  (what, s["outs"][0], kind, got, simlib.rsp_string(s)), rep)
                    return
            for s in sc["stmts"]:
                if s["kind"] == "cmd" and s["rsp"]:
                    s["rsp_content"] = rng.choice(["$in", "-o $out $in", "$in_newline"])
            t.install(sc)
        else:
            for s in sc["stmts"]:
                if s["kind"] == "cmd" and s["rsp"]:
                    s["rsp_content"] = "long long long long long long long prefix " + s["rsp_content"]
            t.install(sc)
            rc, so, se = t.run(["-d", "keeprsp", "-j4"])
            ctx.evaluations += 1
            ran0 = {e["id"] for e in t.events() if e["e"] == "S"}
            for s in rsps:
                if s["outs"][0] not in ran0:
                    continue
                ctx.count("e2e_rsp_kept_checks")
                got = t.read(s["rsp"])
                if rc == 0 and (got is None or got.decode("latin-1") != simlib.rsp_string(s)):
                    ctx.violation(prop + "/e2e-rspfile-keeprsp", "%s: -d keeprsp left %r for %s, expected %r" % (what, got, s["outs"][0], simlib.rsp_string(s)), rep)
                    return
            for s in sc["stmts"]:
                if s["kind"] == "cmd" and s["rsp"]:
                    s["rsp_content"] = rng.choice(["$in", "$in_newline"])
            t.install(sc)
        # a response file whose content evaluates to nothing is still a response file: written (empty) before the command
        empties = [s for s in rsps if rng.random() < 0.25]
        if empties:
            for s in empties:
                s["rsp_content"] = "$empty"          # a variable nobody defines: the content evaluates to nothing
            t.install(sc)
            ctx.count("e2e_rsp_statements_with_empty_content", len(empties))
        rc, so, se = t.run(["-j4"])
        ctx.evaluations += 1
        if rc is None:
            ctx.inconclusive += 1
            return
        sig = util.san_signature((so + se).decode("latin-1"))
        if sig:
            ctx.violation(prop + "/e2e-sanitizer/" + sig, "%s: %s" % (what, (so + se).decode("latin-1")[-1200:]), rep)
            return
        if rc != 0:
            ctx.violation(prop + "/e2e-build-failed/%s" % mode, "%s (%s): exit %s: %s" % (what, mode, rc, (so + se).decode("latin-1")[-600:]), rep)
            return
        bad = compare_with_clean(sc, t)
        if bad:
            o, got, want = bad[0]
            ctx.violation(prop + "/e2e-command-saw-wrong-rspfile/%s" % mode,
                          "%s (%s): %s is %r, a command that read exactly the evaluated rspfile_content writes %r" % (what, mode, o, got, want), rep)
            return
        ran = {e["id"] for e in t.events(clear=False) if e["e"] == "S"}
        for s in rsps:
            if s["outs"][0] not in ran:
                continue        # not part of the default targets
            ctx.count("e2e_rsp_removed_checks")
            if t.read(s["rsp"]) is not None:
                ctx.violation(prop + "/e2e-rspfile-not-removed", "%s (%s): %s still exists after its command succeeded" % (what, mode, s["rsp"]), rep)
                return
        ctx.nontrivial(("e2e", seed))
        ctx.count("e2e_rsp_scenarios_%s" % mode)
    finally:
        t.close()


# ------------------------------------------------------------------------------------------ C05: real exit statuses
SIGNUM = {"KILL": 9, "USR1": 10, "SEGV": 11, "USR2": 12, "PIPE": 13, "ALRM": 14, "ABRT": 6, "BUS": 7, "FPE": 8, "QUIT": 3}


def c05_case(ctx, seed):
    """Real processes that fail the way real tools fail: exit codes 1..255 and death by a signal (crash, OOM kill) of the
    process ninja spawned, after having written their outputs or not.  Whatever the wait status looks like, such a command
    has failed: dependents do not start, ninja's exit status is not 0 and comes from a failed command, nothing is recorded,
    the next build retries."""
    from .logmodel import parse_build_log, parse_deps_log, deps_view
    rng = random.Random(seed)
    g = gen.Gen(random.Random(rng.randint(0, 2 ** 60)), size=rng.randint(2, 6),
                feat=dict(chain=0.9, deps=0.4, dyndep=0.0, phony=0.1, generator=0.0, restat=0.1, pools=0.0, vals=0.0, rsp=0.1, multi=0.2))
    sc = g.scenario("C05e-%d" % seed)
    cmds = [s for s in sc["stmts"] if s["kind"] == "cmd"]
    if not cmds:
        return
    victims = rng.sample(cmds, rng.randint(1, min(2, len(cmds))))
    how = {}
    for v in victims:
        if rng.random() < 0.6:
            sig = rng.choice(sorted(SIGNUM))
            # the shell ninja spawned kills itself (as when it exec()ed a tool that crashed)
            v["shell_suffix"] = "; kill -%s $$$$" % sig
            how[v["outs"][0]] = ("signal", 128 + SIGNUM[sig], True)
        else:
            code = rng.choice((1, 2, 3, 77, 126, 127, 128, 129, 131, 137, 255))
            v["vtool_args"] = ["--exit", str(code)]
            how[v["outs"][0]] = ("exit", code, True)
    t = Tree(sc)
    rep = {"seed": seed, "victims": {k: list(v) for k, v in how.items()}}
    try:
        rep["manifest"] = open(t.path("build.ninja")).read()
        # (-k takes any number: one that does not fit an int means "no limit", like 0)
        k = rng.choice((1, 2, 0, 1, 2, 0, 2 ** 31, 2 ** 32, 2 ** 32 + 1, 10 ** 12))
        args = ["-j%d" % rng.choice((1, 2, 4)), "-k", str(k)]
        what = "scenario %d (%s; victims %s)" % (seed, " ".join(args), {o: h[:2] for o, h in how.items()})
        rc, so, se = t.run(args)
        ctx.evaluations += 1
        if rc is None:
            ctx.inconclusive += 1
            return
        sig = util.san_signature((so + se).decode("latin-1"))
        if sig:
            ctx.violation("C05/e2e-sanitizer/" + sig, "%s: %s" % (what, (so + se).decode("latin-1")[-1200:]), rep)
            return
        ev = t.events()
        started = [e["id"] for e in ev if e["e"] == "S"]
        failed = [o for o in how if o in started]
        if not failed:
            return          # victims not part of the default targets
        ctx.nontrivial(("e2e", seed))
        kinds = "+".join(sorted({how[o][0] for o in failed}))
        ctx.count("e2e_failures_by_%s" % kinds)
        graph = model.Graph(sc, sc["sources"])
        fail_ids = {graph.producer[o]["id"] for o in failed}
        if rc == 0:
            ctx.violation("C05/e2e-exit-zero-after-failure/%s" % kinds, "%s: ninja exit 0 although %s failed" % (what, failed), rep)
            return
        if rc not in {how[o][1] for o in failed}:
            ctx.violation("C05/e2e-exit-status-not-from-failed-command/%s" % kinds, "%s: exit %s, the failed commands ended with %s" %
                          (what, rc, {o: how[o][1] for o in failed}), rep)
            return
        # dependents
        def ancestors(sid):
            anc, work = set(), [sid]
            while work:
                x = work.pop()
                for f in graph.all_inputs(graph.by_id[x]):
                    p_ = graph.producer.get(f)
                    if p_ is not None and p_["id"] not in anc:
                        anc.add(p_["id"])
                        work.append(p_["id"])
            return anc
        for o in started:
            sid = graph.producer[o]["id"]
            bad = ancestors(sid) & fail_ids
            if bad and sid not in fail_ids:
                ctx.violation("C05/e2e-dependent-started/%s" % kinds, "%s: %s started although %s failed" % (what, o, sorted(bad)), rep)
                return
            ctx.count("e2e_dependent_checks")
        # with no limit on failures, everything that does not depend on a failed command is started (nothing was built before)
        if k == 0 or k >= 2 ** 31 - 1:
            wanted = set(graph.closure(sc["defaults"] or gen.Gen.roots(sc)))
            all_failing = {graph.producer[o]["id"] for o in how}
            for s_ in cmds:
                if s_["id"] not in wanted or s_["id"] in all_failing or (ancestors(s_["id"]) & all_failing):
                    continue
                ctx.count("e2e_independent_work_checks")
                if s_["outs"][0] not in started:
                    ctx.violation("C05/e2e-independent-work-not-started/k=%s" % ("0" if k == 0 else "huge"),
                                  "%s: %s does not depend on a failed command and was never started" % (what, s_["outs"][0]), rep)
                    return
        # nothing recorded for the failed ones
        log = t.read(".ninja_log") or b""
        recs = parse_build_log(log)[1]
        for o in failed:
            ctx.count("e2e_log_checks")
            for out in all_outs(graph.producer[o]):
                if out.encode() in recs:
                    ctx.violation("C05/e2e-failed-command-recorded/%s" % how[o][0], "%s: .ninja_log has a record for %s" % (what, out), rep)
                    return
        dl = t.read(".ninja_deps")
        if dl:
            dv = deps_view(parse_deps_log(dl))
            for o in failed:
                if o.encode() in dv:
                    ctx.violation("C05/e2e-failed-command-deps-recorded/%s" % how[o][0], "%s: .ninja_deps has a record for %s" % (what, o), rep)
                    return
        # retried while the cause persists
        t.events(clear=True)
        rc2, so2, se2 = t.run(args)
        ctx.evaluations += 1
        ev2 = t.events()
        started2 = {e["id"] for e in ev2 if e["e"] == "S"}
        if rc2 == 0:
            ctx.violation("C05/e2e-second-build-succeeds/%s" % kinds, "%s: the next build exits 0 although the cause persists: %s" %
                          (what, (so2 + se2).decode("latin-1")[-300:]), rep)
            return
        if not (set(failed) & started2) and k != 1 or (k == 1 and not started2):
            ctx.violation("C05/e2e-not-retried/%s" % kinds, "%s: the next build started %s, none of the failed %s" % (what, sorted(started2), failed), rep)
            return
        ctx.count("e2e_retries_checked")
    finally:
        t.close()


# ------------------------------------------------------------------------------------------ C14: spellings through every entry point
def _respell(rng, p, os_valid=False):
    """a spelling of p that differs only by '.', empty and resolvable '..' components and repeated slashes
    (os_valid: the spelling is handed to the operating system as is - no 'dir/..' through directories that do not exist)"""
    comps = p.split("/")
    out = []
    if rng.random() < 0.3:
        out.append(".")
    for i, c in enumerate(comps):
        x = rng.random()
        if x < 0.25:
            out.append(".")
        elif x < 0.45 and not os_valid:
            out += [rng.choice(("zz", "o", "tmp")), ".."]
        elif x < 0.6 and out:
            out.append("")            # an empty component: a doubled slash (not in front: that would make the path absolute)
        out.append(c)
    s = "/".join(out)
    return s if s != p else "./" + p


def c14_entry_case(ctx, seed):
    """The same small project written twice: with canonical paths everywhere, and with every occurrence of every path -
    manifest outputs and inputs, default and command-line targets, depfile targets (first and further ones) and depfile
    dependencies - respelled independently.  Both must do the same thing at every step."""
    rng = random.Random(seed)
    mode = rng.choice(("depfile", "depfile", "gcc"))
    P = {"out": "o/x.o", "out2": "o/x.map", "src": "s/a.c", "hdr": "h/h.h", "hdr2": "h/sub/g.h", "fin": "bin/final",
         "manifest": "build.ninja", "cfg": "conf/cfg.in"}

    def manifest(sp):
        dep_line = "%s%s: %s %s %s" % (sp("out"), (" " + sp("out2")) if mode == "depfile" and two_targets else "", sp("src"), sp("hdr"), sp("hdr2"))
        L = ["rule cc",
             "  command = cp $in %s && cp $in %s && printf '%%s\\n' '%s' > %s.d" % (P["out"], P["out2"], dep_line, P["out"]),
             "  description = CC",
             "  depfile = %s.d" % sp("out")]
        if mode == "gcc":
            L.append("  deps = gcc")
        # the manifest is itself a build output (generator): asked for under any spelling of its name (-f), ninja has to
        # recognise it and bring it up to date first
        L += ["rule regen", "  command = echo regen >> regen.log && touch build.ninja", "  description = REGEN", "  generator = 1",
              "build %s: regen %s" % (sp("manifest"), sp("cfg"))]
        L += ["rule cat", "  command = cat $in > $out", "  description = CAT",
              "build %s%s: cc %s" % (sp("out"), (" | " + sp("out2")) if mode == "gcc" else (" " + sp("out2")), sp("src")),
              "build %s: cat %s %s" % (sp("fin"), sp("out"), sp("out2")),
              "default %s" % sp("fin")]
        return "\n".join(L) + "\n"
    two_targets = rng.random() < 0.6
    results = {}
    rep = {"seed": seed, "mode": mode}
    for variant in ("canonical", "respelled"):
        sp = (lambda k: P[k]) if variant == "canonical" else (lambda k: _respell(rng, P[k], os_valid=(k == "manifest")))
        t = Tree()
        try:
            for k in ("src", "hdr", "hdr2", "cfg"):
                t.write(P[k], "// %s\n" % k)
            text = manifest(sp)
            t.write("build.ninja", text)
            rep["manifest_" + variant] = text
            seq = []

            def step(args, label):
                rc, so, se = t.run(args)
                txt = (so + se).decode("latin-1")
                sig = util.san_signature(txt)
                ran = sorted(re.findall(r"\] (CC|CAT|REGEN)", txt))
                seq.append((label, rc, tuple(ran), "no work to do" in txt, sig or "", txt[-300:] if rc else ""))
            step([], "first build")
            step([], "again")
            t.touch(P["hdr2"])
            step([], "after touching a header named only in the depfile")
            step([], "again")
            step([sp("out")] if variant == "respelled" else [P["out"]], "command-line target")
            t.touch(P["src"])
            step([sp("fin")] if variant == "respelled" else [P["fin"]], "after touching the source, target given on the command line")
            # the manifest named with -f under another spelling, while it is out of date
            t.touch(P["cfg"])
            step(["-f", sp("manifest") if variant == "respelled" else P["manifest"]], "stale manifest named with -f")
            nreg = (t.read("regen.log") or b"").count(b"regen")
            seq.append(("manifest regenerations", 0, (str(nreg),), False, "", ""))
            rc, so, se = t.run(["-t", "query", sp("out2") if variant == "respelled" else P["out2"]])
            seq.append(("query", rc, tuple(so.decode("latin-1").split("\n")[:1]), False, "", ""))
            if mode == "gcc":
                rc, so, se = t.run(["-t", "deps", sp("out") if variant == "respelled" else P["out"]])
                seq.append(("deps", rc, tuple(l.strip() for l in so.decode("latin-1").split("\n")[1:] if l.strip()), False, "", ""))
            results[variant] = seq
        finally:
            t.close()
    ctx.evaluations += 2
    ctx.count("entry_point_scenarios_%s" % mode)
    a, b = results["canonical"], results["respelled"]
    for (la, rca, rana, nwa, siga, erra), (lb, rcb, ranb, nwb, sigb, errb) in zip(a, b):
        if sigb or siga:
            ctx.violation("C14/entry-points/sanitizer/" + (sigb or siga), "scenario %d step %s" % (seed, la), rep)
            return
        if (rca, rana, nwa) != (rcb, ranb, nwb):
            ctx.violation("C14/entry-points/%s/%s" % (mode, la.split(",")[0].replace(" ", "-")),
                          "scenario %d (%s), step '%s': with canonical paths exit %s ran %s; with respelled paths exit %s ran %s %s" %
                          (seed, mode, la, rca, list(rana), rcb, list(ranb), errb), rep)
            return
    ctx.count("entry_point_steps_equal", len(a))


def c14_dyndep_case(ctx, seed):
    """The dyndep file as an entry point for path names: the statement it is about, implicit outputs and implicit inputs
    (a generated header among them) spelt canonically in one project and respelled in its twin.  Both must do the same thing
    at every step - in particular the generator of the header runs before the consumer and an edit of its source reaches the
    consumer's output in one build."""
    rng = random.Random(seed)
    P = {"out": "o/x.o", "mod": "o/x.mod", "src": "s/a.c", "gen": "h/gen.h", "hdr2": "h/sub/g.h", "fin": "bin/final", "dd": "x.dd"}
    ready = rng.random() < 0.5        # the dyndep file exists from the start, or is made by a statement of the build
    results = {}
    rep = {"seed": seed, "ready": ready}
    for variant in ("canonical", "respelled"):
        sp = (lambda k: P[k]) if variant == "canonical" else (lambda k: _respell(rng, P[k]))
        ddtext = "ninja_dyndep_version = 1\nbuild %s | %s: dyndep | %s %s\n" % (sp("out"), sp("mod"), sp("gen"), sp("hdr2"))
        L = ["rule cc", "  command = cat s/a.c h/gen.h h/sub/g.h > o/x.o && cp o/x.o o/x.mod", "  description = CC",
             "rule gen", "  command = cp $in $out", "  description = GEN",
             "rule cat", "  command = cat $in > $out", "  description = CAT",
             "rule mkdd", "  command = cp $in $out", "  description = MKDD",
             "build h/gen.h: gen conf/gen.in",
             "build o/x.o: cc s/a.c || x.dd", "  dyndep = x.dd",
             "build bin/final: cat o/x.o o/x.mod"]
        if not ready:
            L.append("build x.dd: mkdd x.dd.in")
        L.append("default bin/final")
        t = Tree()
        try:
            for k, v in (("s/a.c", "// src\n"), ("h/sub/g.h", "// g\n"), ("conf/gen.in", "// gen 0\n")):
                t.write(k, v)
            t.write("x.dd" if ready else "x.dd.in", ddtext)
            t.write("build.ninja", "\n".join(L) + "\n")
            rep["dyndep_" + variant] = ddtext
            seq = []

            def step(args, label):
                rc, so, se = t.run(args)
                txt = (so + se).decode("latin-1")
                ran = re.findall(r"\] (CC|CAT|GEN|MKDD)", txt)
                final = t.read("bin/final")
                seq.append((label, rc, tuple(ran), "no work to do" in txt, util.san_signature(txt) or "", txt[-300:] if rc else "",
                            hashlib.sha1(final or b"").hexdigest()[:12]))
            step(["-j1"], "first build")
            step([], "again")
            t.write("conf/gen.in", "// gen 1\n")
            step(["-j1"], "after editing the source of the generated header named in the dyndep file")
            step([], "again")
            t.touch(P["hdr2"])
            step([], "after touching a header named in the dyndep file")
            t.rm("o/x.mod")
            step([], "after deleting the implicit output named in the dyndep file")
            step([], "again")
            results[variant] = seq
        finally:
            t.close()
    ctx.evaluations += 2
    ctx.count("entry_point_scenarios_dyndep")
    for x, y in zip(results["canonical"], results["respelled"]):
        if x[4] or y[4]:
            ctx.violation("C14/entry-points/sanitizer/" + (x[4] or y[4]), "dyndep scenario %d step %s" % (seed, x[0]), rep)
            return
        if (x[1], x[2], x[3], x[6]) != (y[1], y[2], y[3], y[6]):
            ctx.violation("C14/entry-points/dyndep/%s" % x[0].split(",")[0].replace(" ", "-")[:60],
                          "dyndep scenario %d, step '%s': canonical spelling: exit %s ran %s final %s; respelled: exit %s ran %s final %s %s" %
                          (seed, x[0], x[1], list(x[2]), x[6], y[1], list(y[2]), y[6], y[5]), rep)
            return
    ctx.count("entry_point_steps_equal", len(results["canonical"]))


def c14_distinct_case(ctx, seed):
    """The other half of the property at the entry points: two names that differ in anything but '.', empty and resolvable
    '..' components - letter case, one more dot inside a component, a component that merely starts with dots - are two files.
    A source reads both; they are reported to ninja (depfile, deps = gcc, deps = msvc, or declared in the manifest) under
    respelled names.  Editing either one must rebuild the output."""
    rng = random.Random(seed)
    mode = rng.choice(("depfile", "gcc", "msvc", "msvc", "manifest"))
    A, B = rng.choice((("inc/Types.h", "inc/types.h"), ("inc/a.h", "inc/A.h"), ("x/y.h", "x/y.H"), ("Inc/v.h", "inc/v.h"),
                       ("inc/v.h", "inc/v..h"), ("inc/w.h", "inc/..w.h"), ("inc/u.h", "inc/u.h."), ("a/b/c.h", "a/B/c.h")))
    if rng.random() < 0.5:
        A, B = B, A
    rA, rB = (_respell(rng, A), _respell(rng, B)) if rng.random() < 0.8 else (A, B)
    if mode == "msvc":
        report = "printf 'Note: including file: %s\\nNote: including file: %s\\n' '%s' '%s'" % ("%s", "%s", rA, rB)
    else:
        report = "printf '%%s\\n' 'o/x.o: s/a.c %s %s' > o/x.o.d" % (rA, rB)
    L = ["rule cc", "  command = cat s/a.c %s %s > o/x.o && %s" % (A, B, report if mode != "manifest" else "true"), "  description = CC"]
    if mode in ("depfile", "gcc"):
        L.append("  depfile = o/x.o.d")
    if mode in ("gcc", "msvc"):
        L.append("  deps = " + mode)
    L.append("build o/x.o: cc s/a.c" + (" | %s %s" % (rA, rB) if mode == "manifest" else ""))
    text = "\n".join(L) + "\n"
    rep = {"seed": seed, "mode": mode, "manifest": text, "pair": [A, B]}
    kind = "case" if A.lower() == B.lower() else "dots"
    t = Tree()
    try:
        t.write("s/a.c", "// src\n")
        t.write(A, "// A 0\n")
        t.write(B, "// B 0\n")
        t.write("build.ninja", text)
        os.makedirs(t.path("o"), exist_ok=True)

        def build():
            rc, so, se = t.run([])
            txt = (so + se).decode("latin-1")
            return rc, "] CC" in txt, "no work to do" in txt, util.san_signature(txt), txt
        ctx.evaluations += 1
        rc, ran, nw, sig, txt = build()
        if sig:
            ctx.violation("C14/entry-points/sanitizer/" + sig, "distinct-names scenario %d: %s" % (seed, txt[-800:]), rep)
            return
        if rc != 0 or not ran:
            ctx.inconclusive += 1
            ctx.count("distinct_setup_failed")
            return
        rc, ran, nw, sig, txt = build()
        if rc != 0 or ran:
            ctx.violation("C14/distinct-names/%s/%s/not-quiet" % (mode, kind), "scenario %d (%s, %s): the second build runs the command again: %s" % (seed, A, B, txt[-300:]), rep)
            return
        for which, path in rng.sample((("first", A), ("second", B)), 2):
            t.write(path, "// %s edited %d\n" % (path, rng.randint(0, 999999)))
            rc, ran, nw, sig, txt = build()
            want = b"".join(t.read(x) for x in ("s/a.c", A, B))
            ctx.count("distinct_name_edits_checked")
            if rc != 0 or not ran or t.read("o/x.o") != want:
                ctx.violation("C14/distinct-names-merged/%s/%s" % (mode, kind),
                              "scenario %d: the command reads %s and %s (reported as %s and %s through %s); after editing %s ninja says %r and the "
                              "output is %s" % (seed, A, B, rA, rB, mode, path, txt[-120:], "stale" if t.read("o/x.o") != want else "fresh"), rep)
                return
            rc, ran, nw, sig, txt = build()
            if rc != 0 or ran:
                ctx.violation("C14/distinct-names/%s/%s/not-quiet" % (mode, kind), "scenario %d: rebuilds again after the edit of %s was built: %s" % (seed, path, txt[-300:]), rep)
                return
        ctx.nontrivial(("distinct", mode, A, B, rA, rB))
        ctx.count("distinct_name_scenarios_%s" % mode)
    finally:
        t.close()


def c18_links_case(ctx, seed):
    """`-t clean` on the real file system with outputs in states the virtual disk cannot hold: an output that is a symbolic
    link - to nothing (its target was cleaned or never made), to a source file, to another output.  The link itself is the
    file in scope: it is removed (reported with -n), what it points to is not touched."""
    from .checks import c18 as C18
    rng = random.Random(seed)
    g = gen.Gen(random.Random(rng.randint(0, 2 ** 60)), size=rng.randint(3, 7),
                feat=dict(dyndep=0.0, deps=0.5, rsp=0.2, generator=0.1, phony=0.15, pools=0.0, restat=0.1, vals=0.1, chain=0.7, early=0.0, console=0.0))
    sc = g.scenario("C18l-%d" % seed)
    sc["defaults"] = []
    t = Tree(sc)
    rep = {"seed": seed}
    what = "e2e clean scenario %d" % seed
    try:
        rep["manifest"] = open(t.path("build.ninja")).read()
        rc, so, se = t.run(["-j4"])
        if rc != 0:
            ctx.inconclusive += 1
            return
        cmds = [s_ for s_ in sc["stmts"] if s_["kind"] == "cmd"]
        outs = [o for s_ in cmds for o in all_outs(s_)]
        srcs = sorted(sc["sources"])
        links = {}
        for o in rng.sample(outs, rng.randint(1, min(3, len(outs)))):
            kind = rng.choice(("dangling", "dangling", "to-source", "to-output"))
            target = {"dangling": "nowhere/gone.so.1", "to-source": rng.choice(srcs), "to-output": rng.choice(outs)}[kind]
            if target == o:
                kind, target = "dangling", "gone"
            rel = os.path.relpath(t.path(target), os.path.dirname(t.path(o)))
            os.unlink(t.path(o))
            os.symlink(rel, t.path(o))
            links[o] = (kind, target)
        rep["links"] = links
        mode = rng.choice(("all", "all", "targets", "rules"))
        generator = rng.random() < 0.3
        dry = rng.random() < 0.25
        args = []
        if mode == "targets":
            args = rng.sample(outs, rng.randint(1, min(2, len(outs))))
        elif mode == "rules":
            args = ["r_" + s_["id"] for s_ in rng.sample(cmds, rng.randint(1, min(2, len(cmds))))]
        if mode != "all" and generator:
            generator = False         # (-g with targets/rules: see the known finding; not mixed in here)
        sources = {p_: sc["sources"][p_] for p_ in sc["sources"]}
        allowed, required = C18.scope(sc, sources, mode, args, generator, [], ())

        def lsnap():
            r = {}
            for root, dirs, files in os.walk(t.d):
                for f in files + [d_ for d_ in dirs if os.path.islink(os.path.join(root, d_))]:
                    fp = os.path.join(root, f)
                    rel = os.path.relpath(fp, t.d)
                    if rel in (".vtool.log", ".probe") or os.path.basename(rel) in (".ninja_log", ".ninja_deps", ".ninja_lock"):
                        continue
                    r[rel] = ("link", os.readlink(fp)) if os.path.islink(fp) else ("file", open(fp, "rb").read())
            return r
        before = lsnap()
        cli = (["-n"] if dry else []) + ["-t", "clean"] + (["-g"] if generator else []) + (["-r"] if mode == "rules" else []) + args
        rc, so, se = t.run(cli)
        txt = (so + se).decode("latin-1")
        ctx.evaluations += 1
        ctx.count("e2e_clean_links_%s%s" % (mode, "_dry" if dry else ""))
        sig = util.san_signature(txt)
        if sig:
            ctx.violation("C18/e2e-sanitizer/" + sig, "%s: %s" % (what, txt[-1200:]), rep)
            return
        after = lsnap()
        rep["cli"] = cli
        gone = sorted(p_ for p_ in before if p_ not in after)
        changed = sorted(p_ for p_ in before if p_ in after and after[p_] != before[p_])
        ctx.nontrivial(("e2e-links", seed))
        if changed:
            ctx.violation("C18/e2e-clean-modified-file", "%s (%s): %s changed" % (what, " ".join(cli), changed), rep)
            return
        if dry:
            if gone:
                ctx.violation("C18/e2e-dry-run-removed", "%s (%s): removed %s" % (what, " ".join(cli), gone), rep)
            return
        bad = [p_ for p_ in gone if p_ not in allowed]
        if bad:
            ctx.violation("C18/e2e-clean-out-of-scope/%s" % mode, "%s (%s): removed %s, which is not in scope" % (what, " ".join(cli), bad), rep)
            return
        left = sorted(p_ for p_ in required if p_ in before and p_ in after)
        if left:
            lk = [p_ for p_ in left if p_ in links]
            ctx.violation("C18/e2e-clean-not-removed/%s%s" % (mode, "/symlink-" + links[lk[0]][0] if lk else ""),
                          "%s (%s): still there: %s%s" % (what, " ".join(cli), left, " (a symbolic link: %s)" % (links[lk[0]],) if lk else ""), rep)
            return
        ctx.count("e2e_clean_link_outputs_removed", len([p_ for p_ in links if p_ in gone]))
        if any(p_ not in gone for p_ in links):
            return        # (a link that was out of scope is still there: a rebuild would write through it)
        # a following build re-creates what was removed
        rc, so, se = t.run(["-j4"])
        if rc != 0:
            ctx.violation("C18/e2e-rebuild-after-clean-failed", "%s (%s): %s" % (what, " ".join(cli), (so + se).decode("latin-1")[-400:]), rep)
            return
        bad = compare_with_clean(sc, t)
        if bad and bad[0][0] not in links:
            o, got, want = bad[0]
            ctx.violation("C18/e2e-rebuild-after-clean-differs", "%s (%s): %s is %r, clean build %r" % (what, " ".join(cli), o, got, want), rep)
    finally:
        t.close()


# ------------------------------------------------------------------------------------------ C18: cleandead on a long build log
def c18_dead_case(ctx, seed):
    """`-t cleandead` with the real binary after a long history: the build log is due for recompaction (which ninja does
    while opening it, inside the same invocation), statements have been removed from the manifest and their outputs are still
    on disk.  Every such output is removed (or, with -n, reported), nothing else is."""
    from .simlib import St
    rng = random.Random(seed)
    n = rng.randint(28, 40)
    sc = {"id": "C18e-%d" % seed, "sources": {"in.c": "// in\n"}, "stmts": [], "pools": {}, "defaults": []}
    for i in range(n):
        st = St("s%d" % i, ["o%d.o" % i], ins=["in.c"])
        if rng.random() < 0.2:
            st["iouts"] = ["o%d.lst" % i]
        sc["stmts"].append(st)
    t = Tree(sc)
    rep = {"seed": seed}
    what = "e2e cleandead scenario %d" % seed
    try:
        for r in range(rng.randint(4, 5)):
            for s in sc["stmts"]:
                s["ver"] += 1
            t.install(sc)
            rc, so, se = t.run(["-j8"])
            if rc != 0:
                ctx.inconclusive += 1
                return
        victims = rng.sample(sc["stmts"], rng.randint(1, 3))
        dead = [o for v in victims for o in all_outs(v)]
        sc["stmts"] = [s for s in sc["stmts"] if s not in victims]
        t.install(sc)
        t.write("notes.txt", "not ours\n")
        if rng.random() < 0.3:
            t.run(["-t", "recompact"])
        dry = rng.random() < 0.3
        before = t.snapshot()
        rc, so, se = t.run((["-n"] if dry else []) + ["-t", "cleandead"])
        ctx.evaluations += 1
        ctx.count("e2e_cleandead_%s" % ("dry" if dry else "real"))
        txt = (so + se).decode("latin-1")
        sig = util.san_signature(txt)
        if sig:
            ctx.violation("C18/e2e-sanitizer/" + sig, "%s: %s" % (what, txt[-1200:]), rep)
            return
        after = t.snapshot()
        gone = sorted(p for p in before if p not in after)
        ctx.nontrivial(("e2e-dead", seed))
        if dry:
            if gone:
                ctx.violation("C18/e2e-dry-run-removed", "%s: -n -t cleandead removed %s" % (what, gone), rep)
                return
            m = re.search(r"(\d+) files", txt)
            if not m or int(m.group(1)) != len(dead):
                ctx.violation("C18/e2e-cleandead-dry-count", "%s: -n -t cleandead reports %r, %d dead outputs are on disk (%s)" % (what, txt[-120:], len(dead), dead), rep)
            return
        if sorted(gone) != sorted(dead):
            left = sorted(set(dead) - set(gone))
            extra = sorted(set(gone) - set(dead))
            ctx.violation("C18/e2e-cleandead/%s" % ("not-removed" if left else "out-of-scope-removed"),
                          "%s: outputs of statements removed from the manifest: %s; cleandead removed %s (left behind: %s, removed beyond: %s): %s" %
                          (what, dead, gone, left, extra, txt[-200:]), rep)
            return
        rc, so, se = t.run(["-j4"])
        if rc != 0 or b"no work to do" not in so:
            ctx.violation("C18/e2e-build-after-cleandead", "%s: %s" % (what, so.decode("latin-1")[-300:]), rep)
    finally:
        t.close()
