"""e2e engine (DESIGN 2.2): the real sanitised ninja binary with real processes in scratch trees.
Commands are `vtool` invocations with the same command function as nsim, so the same reference
model (vlib/model.py) supplies clean contents."""
import json, os, re, shutil, signal, subprocess, time, random, threading
from concurrent.futures import ThreadPoolExecutor
from . import build, util, simlib, model, gen
from .simlib import all_outs, direct_reads, cmd_string, rsp_string, follows, directives

WATCHDOG = 120


def ninja_bin():
    return build.get_bin("ninja", with_main=True)


def vtool_bin():
    return build.get_tool("vtool", "vtool.cc", ["-O1", "-g", "-std=gnu++17"])


def render(sc, vtool, log, extra=None):
    """manifest text for the real binary. extra: {stmt id: [vtool args]}"""
    extra = extra or {}
    L = []
    if sc.get("builddir"):
        L.append("builddir = %s" % sc["builddir"])
    for name, depth in sorted(sc.get("pools", {}).items()):
        L += ["pool %s" % name, "  depth = %d" % depth]
    for st in sc["stmts"]:
        if st["kind"] == "phony":
            continue
        key = "sim %s v%d" % (st["id"], st["ver"]) + (" $in" if st["ins"] else "") + " > $out"
        if st["rsp"]:
            key += " @$rspfile"
        cmd = "%s --log %s --id %s --key '%s'" % (vtool, log, st["outs"][0], key)
        if st["generator"]:
            cmd += " --nocmd"
        if follows(st) and st["kind"] != "scan":
            cmd += " --follow"
        if st["restat"] or st.get("restat_like"):
            cmd += " --restat"
        if st["early"]:
            cmd += " --early"
        if st.get("atomic"):
            cmd += " --atomic"
        if st["deps"] == "msvc":
            cmd += " --msvc"
        if st["depfile"] and st["deps"] != "msvc":
            cmd += " --depfile $depfile"
        if st["rsp"]:
            cmd += " --rsp $rspfile"
        if st["dd"]:
            cmd += " --dd"
        for a in extra.get(st["id"], []) + st.get("vtool_args", []):
            cmd += " " + a
        if st["kind"] == "scan":
            cmd += " --dyndep-for " + " ".join("%s:%s" % (o, s) for o, s in st["serves"])
        rd = direct_reads(sc, st)
        if rd:
            cmd += " --reads " + " ".join(rd)
        cmd += " --outs " + " ".join(all_outs(st))
        L.append("rule r_%s" % st["id"])
        L.append("  command = %s" % cmd)
        if st.get("description"):
            L.append("  description = %s" % st["description"])
        if st["restat"]:
            L.append("  restat = 1")
        if st["generator"]:
            L.append("  generator = 1")
        if st["deps"] in ("gcc", "msvc"):
            L.append("  deps = %s" % st["deps"])
        if st["depfile"] and st["deps"] != "msvc":
            L.append("  depfile = %s" % st["depfile"])
        if st["rsp"]:
            L.append("  rspfile = %s" % st["rsp"])
            L.append("  rspfile_content = %s" % st["rsp_content"])
    for st in sc["stmts"]:
        line = "build " + " ".join(st["outs"])
        if st["iouts"]:
            line += " | " + " ".join(st["iouts"])
        line += ": " + ("phony" if st["kind"] == "phony" else "r_" + st["id"])
        if st["ins"]:
            line += " " + " ".join(st["ins"])
        if st["iins"]:
            line += " | " + " ".join(st["iins"])
        if st["oins"]:
            line += " || " + " ".join(st["oins"])
        if st["vals"]:
            line += " |@ " + " ".join(st["vals"])
        L.append(line)
        if st["pool"] and st["kind"] != "phony":
            L.append("  pool = %s" % st["pool"])
        if st["dyndep"]:
            L.append("  dyndep = %s" % st["dyndep"])
    if sc.get("defaults"):
        L.append("default " + " ".join(sc["defaults"]))
    return "\n".join(L) + "\n"


class Tree:
    """A scratch build directory with real files."""

    def __init__(self, sc=None, prefix="ne2e-"):
        self.d = util.scratch(prefix)
        self.log = os.path.join(self.d, ".vtool.log")
        self.ninja, self.vtool = ninja_bin(), vtool_bin()
        self.max_mtime = 0
        self.sc = None
        if sc is not None:
            self.install(sc)

    def close(self):
        util.rmtree(self.d)

    def path(self, p):
        return os.path.join(self.d, p)

    def install(self, sc, extra=None):
        self.sc = sc
        for p, c in sc["sources"].items():
            if not os.path.exists(self.path(p)) or open(self.path(p)).read() != c:
                self.write(p, c)
        self.write("build.ninja", render(sc, self.vtool, ".vtool.log", extra))

    # ---- edits with a timestamp barrier: the new mtime is strictly larger than anything in the tree
    def _barrier(self):
        probe = self.path(".probe")
        mx = self.tree_max_mtime()
        for _ in range(2000):
            with open(probe, "w") as f:
                f.write("x")
            if os.stat(probe).st_mtime_ns > mx:
                os.unlink(probe)
                return
            time.sleep(0.001)
        os.unlink(probe)

    def tree_max_mtime(self):
        mx = 0
        for root, dirs, files in os.walk(self.d):
            for f in files:
                if f in (".probe",):
                    continue
                try:
                    mx = max(mx, os.stat(os.path.join(root, f)).st_mtime_ns)
                except OSError:
                    pass
        return mx

    def write(self, p, content):
        self._barrier()
        fp = self.path(p)
        os.makedirs(os.path.dirname(fp) or self.d, exist_ok=True)
        with open(fp, "w") as f:
            f.write(content)

    def touch(self, p):
        self._barrier()
        os.utime(self.path(p), None)

    def rm(self, p):
        try:
            os.unlink(self.path(p))
        except OSError:
            pass

    # ---- running ninja
    def run(self, args=(), env=None, timeout=WATCHDOG, input=None):
        e = build.san_env()
        e["TERM"] = "dumb"
        e.pop("MAKEFLAGS", None)
        e.pop("NINJA_STATUS", None)
        if env:
            e.update(env)
        try:
            p = subprocess.run([self.ninja] + list(args), cwd=self.d, env=e, stdout=subprocess.PIPE, stderr=subprocess.PIPE,
                               timeout=timeout, input=input)
            return p.returncode, p.stdout, p.stderr
        except subprocess.TimeoutExpired as ex:
            return None, ex.stdout or b"", ex.stderr or b""

    def popen(self, args=(), env=None, **kw):
        e = build.san_env()
        e["TERM"] = "dumb"
        e.pop("MAKEFLAGS", None)
        if env:
            e.update(env)
        return subprocess.Popen([self.ninja] + list(args), cwd=self.d, env=e, stdout=subprocess.PIPE, stderr=subprocess.PIPE,
                                start_new_session=True, **kw)

    # ---- observations
    def events(self, clear=False):
        ev = []
        try:
            for ln in open(self.log):
                f = ln.rstrip("\n").split(" ", 4)
                if len(f) >= 4:
                    ev.append({"e": f[0], "id": f[1], "t": float(f[2]), "pid": int(f[3]), "x": f[4] if len(f) > 4 else ""})
        except OSError:
            pass
        if clear:
            try:
                os.unlink(self.log)
            except OSError:
                pass
        return ev

    def snapshot(self, with_logs=False):
        r = {}
        for root, dirs, files in os.walk(self.d):
            for dn in dirs:
                r[os.path.relpath(os.path.join(root, dn), self.d) + "/"] = (0, "<dir>")
            for f in files:
                fp = os.path.join(root, f)
                rel = os.path.relpath(fp, self.d)
                if rel in (".vtool.log", ".probe") or (not with_logs and os.path.basename(rel) in (".ninja_log", ".ninja_deps")):
                    continue
                try:
                    with open(fp, "rb") as fh:
                        r[rel] = (os.stat(fp).st_mtime_ns, fh.read().decode("latin-1"))
                except OSError:
                    pass
        return r

    def read(self, p):
        try:
            with open(self.path(p), "rb") as f:
                return f.read()
        except OSError:
            return None


def clean_contents(sc, tree):
    srcs = {p: tree.read(p).decode("latin-1") for p in sc["sources"] if tree.read(p) is not None}
    g = model.Graph(sc, srcs)
    files, _ = g.clean()
    return g, files


def compare_with_clean(sc, tree, targets=None):
    """-> list of (path, got, want) for outputs in the closure of targets that differ from the clean build"""
    g, clean = clean_contents(sc, tree)
    targets = targets or (sc["defaults"] or gen.Gen.roots(sc))
    bad = []
    for sid in g.closure(targets):
        s = g.by_id[sid]
        if s["kind"] == "phony":
            continue
        for o in g.outs(s):
            got = tree.read(o)
            got = got.decode("latin-1") if got is not None else None
            if got != clean.get(o):
                bad.append((o, got, clean.get(o)))
    return bad


def parallel(fn, items, workers=None):
    with ThreadPoolExecutor(max_workers=workers or util.NCPU) as ex:
        return list(ex.map(fn, items))


# ------------------------------------------------------------------------------------------ C06: real runner + FIFO jobserver
def _overlap(ev):
    """max number of simultaneously running commands from vtool's own S/E stamps, and per pool id lists"""
    pts = []
    for e in ev:
        if e["e"] == "S":
            pts.append((e["t"], 1, e["id"]))
        elif e["e"] in ("E", "K"):
            pts.append((e["t"], -1, e["id"]))
    pts.sort(key=lambda x: (x[0], x[1]))
    cur, mx, running, maxset = 0, 0, set(), set()
    hist = []
    for t, d, i in pts:
        if d > 0:
            running.add(i)
        else:
            running.discard(i)
        hist.append(set(running))
        if len(running) > mx:
            mx, maxset = len(running), set(running)
    return mx, maxset, hist


def c06_case(ctx, seed):
    from .simlib import St
    rng = random.Random(seed)
    n = rng.randint(4, 9)
    sc = {"id": "C06e-%d" % seed, "sources": {}, "stmts": [], "pools": {}, "defaults": []}
    if rng.random() < 0.5:
        sc["pools"]["p1"] = rng.randint(1, 2)
    outs = []
    for i in range(n):
        sc["sources"]["c%d.c" % i] = "// %d\n" % i
        st = St("s%d" % i, ["o/x%d.o" % i], ins=["c%d.c" % i] + ([rng.choice(outs)] if outs and rng.random() < 0.25 else []))
        st["vtool_args"] = ["--sleep-after", str(rng.choice((80, 150, 250)))]
        x = rng.random()
        if x < 0.3 and sc["pools"]:
            st["pool"] = "p1"
        elif x < 0.4:
            st["pool"] = "console"
        sc["stmts"].append(st)
        outs.append(st["outs"][0])
    mode = rng.choice(("j", "j", "jobserver", "jobserver", "jobserver"))
    path = rng.choice(("success", "failure", "sigint", "startedge"))
    if path == "failure":
        v = rng.choice(sc["stmts"])
        v["vtool_args"] += ["--exit", "3"]
    if path == "startedge":
        # an output below a path component that is a regular file: mkdir fails with ENOTDIR inside StartEdge
        sc["sources"]["blk"] = "i am a file\n"
        st = St("bad", ["blk/sub/y.o"], ins=["c0.c"])
        sc["stmts"].append(st)
    t = Tree(sc)
    rep = {"seed": seed, "mode": mode, "path": path}
    what = "e2e scenario %d (%s, exit path %s)" % (seed, mode, path)
    fifo = os.path.join(t.d, ".jobserver.fifo")
    fd = None
    try:
        rep["manifest"] = open(t.path("build.ninja")).read()
        env, args = {}, []
        ntok = None
        if mode == "jobserver":
            os.mkfifo(fifo)
            fd = os.open(fifo, os.O_RDWR | os.O_NONBLOCK)
            ntok = rng.randint(0, 4)
            os.write(fd, b"+" * ntok)
            env["MAKEFLAGS"] = " -j%d --jobserver-auth=fifo:%s" % (ntok + 1, fifo)
            limit = ntok + 1
            args = ["-k", str(rng.choice((1, 0)))]
        else:
            limit = rng.choice((1, 2, 3, 8))
            args = ["-j%d" % limit, "-k", str(rng.choice((1, 0)))]
        p = t.popen(args, env=env)
        thief_took = 0
        if mode == "jobserver" and rng.random() < 0.4 and ntok:
            # a competing client takes a token for a while and gives it back
            time.sleep(0.05)
            try:
                if os.read(fd, 1):
                    thief_took = 1
            except OSError:
                pass
            time.sleep(0.2)
            if thief_took:
                os.write(fd, b"+")
        if path == "sigint":
            time.sleep(rng.random() * 0.3 + 0.05)
            try:
                os.kill(p.pid, signal.SIGINT)
            except OSError:
                pass
        try:
            so, se = p.communicate(timeout=WATCHDOG)
        except subprocess.TimeoutExpired:
            os.killpg(p.pid, signal.SIGKILL)
            ctx.violation("C06/e2e-ninja-does-not-terminate/%s" % path, what, rep)
            return
        rc = p.returncode
        ctx.evaluations += 1
        txt = (so + se).decode("latin-1")
        sig = util.san_signature(txt)
        if sig:
            ctx.violation("C06/e2e-sanitizer/" + sig, "%s: %s" % (what, txt[-1500:]), rep)
            return
        if "stuck" in txt:
            ctx.violation("C06/e2e-stuck", "%s: %s" % (what, txt[-300:]), rep)
            return
        ev = t.events()
        mx, mset, hist = _overlap(ev)
        ctx.count("e2e_runs_%s_%s" % (mode, path))
        if mx >= 2:
            ctx.nontrivial((seed, mx))
        if mx > limit:
            ctx.violation("C06/e2e-over-limit/%s" % mode, "%s: %d commands ran at once (%s), limit %d" % (what, mx, sorted(mset), limit), rep)
            return
        sid_of = {s["outs"][0]: s for s in sc["stmts"]}
        for running in hist:
            for pool, depth in list(sc["pools"].items()) + [("console", 1)]:
                k = [o for o in running if sid_of[o]["pool"] == pool]
                if len(k) > depth:
                    ctx.violation("C06/e2e-over-pool-depth", "%s: %s ran together in pool %s (depth %d)" % (what, k, pool, depth), rep)
                    return
        starts = [e["id"] for e in ev if e["e"] == "S"]
        if len(starts) != len(set(starts)):
            ctx.violation("C06/e2e-started-twice", "%s: %s" % (what, starts), rep)
            return
        if mode == "jobserver":
            time.sleep(0.05)
            got = 0
            try:
                while True:
                    b = os.read(fd, 64)
                    if not b:
                        break
                    got += len(b)
            except OSError:
                pass
            ctx.count("e2e_fifo_token_checks")
            if got != ntok:
                ctx.violation("C06/e2e-fifo-tokens/%s" % path, "%s: the FIFO held %d tokens before and %d after ninja exited (rc %s): %s" %
                              (what, ntok, got, rc, txt[-200:]), rep)
                return
        if len(ctx.samples) < 6 and mx >= 2 and mode == "jobserver":
            ctx.sample({"scenario": what, "tokens": ntok, "max_concurrency": mx, "exit": rc})
    finally:
        if fd is not None:
            os.close(fd)
        t.close()


def c06_scenarios(ctx):
    rng = random.Random(ctx.seed * 13 + 606)
    seeds = [rng.randint(1, 10 ** 9) for _ in range(48 if ctx.tier == "quick" else 1200)]
    from .checks.c07 import safe
    parallel(lambda s: safe(ctx, c06_case, ctx, s), seeds, workers=8)


# ------------------------------------------------------------------------------------------ C08: the real binary's log paths
def c08_case(ctx, seed):
    from .simlib import St
    from .logmodel import parse_build_log, build_log_records
    rng = random.Random(seed)
    n = rng.randint(30, 45)
    sc = {"id": "C08e-%d" % seed, "sources": {"in.c": "// in\n"}, "stmts": [], "pools": {}, "defaults": []}
    for i in range(n):
        sc["stmts"].append(St("s%d" % i, ["o%d.o" % i], ins=["in.c"]))
    t = Tree(sc)
    rep = {"seed": seed}
    what = "e2e log scenario %d" % seed
    try:
        rounds = rng.randint(4, 6)
        for r in range(rounds):
            for s in sc["stmts"]:
                s["ver"] += 1
            t.install(sc)
            rc, so, se = t.run(["-j8"])
            if rc != 0:
                ctx.inconclusive += 1
                return
        log = t.read(".ninja_log")
        nrec = len(build_log_records(log))
        before = parse_build_log(log)[1]
        scenario = rng.choice(("dropped-on-disk", "dropped-deleted", "restat", "recompact"))
        ctx.evaluations += 1
        ctx.count("e2e_log_%s" % scenario)
        if scenario in ("dropped-on-disk", "dropped-deleted"):
            victim = sc["stmts"].pop(rng.randrange(len(sc["stmts"])))
            vo = victim["outs"][0]
            t.install(sc)
            if scenario == "dropped-deleted":
                t.rm(vo)
            rc, so, se = t.run(["-j4"])
            after_bytes = t.read(".ninja_log")
            after = parse_build_log(after_bytes)[1]
            compacted = len(build_log_records(after_bytes)) < nrec
            if not compacted:
                ctx.count("e2e_log_no_recompaction")
            else:
                ctx.nontrivial((seed, scenario))
            for o, rec in before.items():
                name = o.decode()
                live = name != vo or scenario == "dropped-on-disk"
                if live and after.get(o) is None:
                    ctx.violation("C08/e2e-recompaction-dropped-live-record/%s" % ("removed-from-manifest-but-on-disk" if name == vo else "in-manifest"),
                                  "%s: %d records for %d outputs; after the next run the record of %s is gone" % (what, nrec, len(before), name), rep)
                    return
                if live and name != vo and after[o][0] != rec[0]:
                    ctx.violation("C08/e2e-recompaction-changed-hash", "%s: %s" % (what, name), rep)
                    return
        elif scenario == "restat":
            sel = [s["outs"][0] for s in rng.sample(sc["stmts"], rng.randint(0, 3))]
            for o in rng.sample([s["outs"][0] for s in sc["stmts"]], 3):
                t.touch(o)
            rc, so, se = t.run(["-t", "restat"] + sel)
            after = parse_build_log(t.read(".ninja_log"))[1]
            ctx.nontrivial((seed, scenario, tuple(sel)))
            if rc != 0:
                ctx.violation("C08/e2e-restat-failed", "%s: rc %s %s" % (what, rc, (so + se).decode("latin-1")[-300:]), rep)
                return
            if set(after) != set(before):
                ctx.violation("C08/e2e-restat-lost-records", "%s: -t restat: %d records before, %d after" % (what, len(before), len(after)), rep)
                return
            for o, rec in before.items():
                a = after[o]
                if (a[0], a[1], a[2]) != (rec[0], rec[1], rec[2]):
                    ctx.violation("C08/e2e-restat-changed-more-than-mtime", "%s: %s %r -> %r" % (what, o, rec, a), rep)
                    return
                selected = not sel or o.decode() in sel
                want = os.stat(t.path(o.decode())).st_mtime_ns if selected else rec[3]
                if a[3] != want:
                    ctx.violation("C08/e2e-restat-mtime", "%s: %s recorded mtime %s, file mtime %s (selected=%s)" % (what, o, a[3], want, selected), rep)
                    return
        else:
            rc, so, se = t.run(["-t", "recompact"])
            after_bytes = t.read(".ninja_log")
            after = parse_build_log(after_bytes)[1]
            ctx.nontrivial((seed, scenario))
            if rc != 0 or after != before:
                ctx.violation("C08/e2e-recompact-tool", "%s: rc %s, %d records before, %d after" % (what, rc, len(before), len(after)), rep)
                return
            if len(build_log_records(after_bytes)) != len(before):
                ctx.violation("C08/e2e-recompact-not-compact", "%s: %d lines for %d outputs" % (what, len(build_log_records(after_bytes)), len(before)), rep)
                return
        # and the tree still converges
        rc, so, se = t.run(["-j4"])
        if scenario != "restat" and (rc != 0 or b"no work to do" not in so):
            ctx.violation("C08/e2e-rebuild-after-log-operation", "%s (%s): %s" % (what, scenario, so.decode("latin-1")[-300:]), rep)
    finally:
        t.close()


def c08_scenarios(ctx):
    rng = random.Random(ctx.seed * 17 + 808)
    seeds = [rng.randint(1, 10 ** 9) for _ in range(16 if ctx.tier == "quick" else 300)]
    from .checks.c07 import safe
    parallel(lambda s: safe(ctx, c08_case, ctx, s), seeds)
