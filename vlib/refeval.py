#!/usr/bin/env python3
"""Independent reference evaluator for the Ninja build-file language.

Written from doc/manual.asciidoc only.  evaluate(files, main) returns a dict
(see bottom) or raises Unsure when the manual does not settle the meaning.
"""
import re
import string


class Unsure(Exception):
    pass


class NinjaError(Exception):
    def __init__(self, kind, file, line, msg):
        Exception.__init__(self, msg)
        self.kind, self.file, self.line, self.msg = kind, file, line, msg

    def as_dict(self):
        return {"ok": False, "error_kind": self.kind, "file": self.file,
                "line": self.line, "message": self.msg}


KEYWORDS = {'build', 'rule', 'default', 'pool', 'include', 'subninja'}
IDENT_CH = set(string.ascii_letters + string.digits + '_-.')
SIMPLE_CH = IDENT_CH - {'.'}
SAFE_PATH_CH = set(string.ascii_letters + string.digits + '_+./-')
RULE_VARS = {'command', 'depfile', 'deps', 'msvc_deps_prefix', 'description',
             'dyndep', 'generator', 'in', 'in_newline', 'out', 'pool',
             'restat', 'rspfile', 'rspfile_content'}
EDGE_KEYS = ('command', 'description', 'depfile', 'rspfile', 'rspfile_content', 'deps')


def canon(p):
    """Lexical path canonicalisation."""
    if p == '':
        raise Unsure('empty path')
    if '\\' in p:
        raise Unsure('backslash in path (platform dependent)')
    if p.startswith('//'):
        raise Unsure('leading double slash')
    if p.endswith('/'):
        raise Unsure('trailing slash')
    absolute = p.startswith('/')
    parts = []
    for c in p.split('/'):
        if c in ('', '.'):
            continue
        if c == '..':
            if parts and parts[-1] != '..':
                parts.pop()
            elif absolute:
                raise Unsure('.. above root')
            else:
                parts.append('..')
        else:
            parts.append(c)
    if not parts:
        raise Unsure('path canonicalises to nothing')
    return ('/' if absolute else '') + '/'.join(parts)


def expand(pieces, lookup):
    out = []
    for t, s in pieces:
        if t == 'lit':
            out.append(s)
        else:
            v = lookup(s)
            out.append(v if v is not None else '')
    return ''.join(out)


class Scope:
    def __init__(self, parent=None):
        self.parent, self.vars, self.rules = parent, {}, {}

    def lookup_var(self, name):
        s = self
        while s is not None:
            if name in s.vars:
                return s.vars[name]
            s = s.parent
        return None

    def lookup_rule(self, name):
        s = self
        while s is not None:
            if name in s.rules:
                return s.rules[name]
            s = s.parent
        return None


class Rule:
    def __init__(self, name, bindings):
        self.name, self.bindings = name, bindings


class Edge:
    pass


class Ev:
    def __init__(self, files):
        self.files = files
        self.root = Scope()
        self.root.rules['phony'] = Rule('phony', {'command': []})
        self.pools = {}
        self.outputs = set()
        self.inputs = set()
        self.edges = []
        self.defaults = []
        self.pending = None      # (NinjaError, resolves_now())
        self.stack = []

    # ---- edge evaluation -------------------------------------------------
    def builtin(self, e, key):
        if getattr(self, 'in_pool_lookup', False):
            # the manual does not say when the pool of a build statement is looked up; ninja does it before the statement's
            # paths exist, so a pool name spelled with $in/$out is not what it seems
            raise Unsure('pool name depends on $in/$out')
        paths, raws = (e.outs, e.raw_outs) if key == 'out' else (e.ins, e.raw_ins)
        for p in raws:
            if any(ch not in SAFE_PATH_CH for ch in p):
                raise Unsure('$in/$out with path needing shell quoting')
        if any(canon(r) != r for r in raws):
            raise Unsure('$in/$out with non-canonical path spelling')
        return ('\n' if key == 'in_newline' else ' ').join(paths)

    def lookup(self, e, key, stack):
        if key in ('in', 'out', 'in_newline'):
            return self.builtin(e, key)
        if key in e.binds:
            return e.binds[key]
        if key in e.rule.bindings:
            if key in stack:
                raise NinjaError('rule_variable_cycle', e.file, e.line,
                                 'cycle in rule variables: ' + ' -> '.join(stack + [key]))
            return expand(e.rule.bindings[key],
                          lambda v: self.lookup(e, v, stack + [key]))
        return e.scope.lookup_var(key)

    def eval_edge(self, e):
        r = {}
        phony = e.rule.name == 'phony' and e.rule is self.root.rules['phony']
        if phony and ('command' in e.binds or e.scope.lookup_var('command') is not None):
            raise Unsure('phony edge with a visible command variable')
        for k in EDGE_KEYS:
            v = self.lookup(e, k, [])
            r[k] = v if v is not None else ''
        if r['deps'] not in ('', 'gcc', 'msvc'):
            raise Unsure('deps value other than gcc/msvc')
        if bool(r['rspfile']) != bool(r['rspfile_content']):
            raise Unsure('rspfile/rspfile_content supplied unpaired outside the rule')
        for k in ('restat', 'generator'):
            v = self.lookup(e, k, [])
            if v == '':
                raise Unsure(k + ' present but empty')
            r[k] = v is not None
        # dyndep: "used only on build statements"
        if 'dyndep' in e.binds:
            if e.binds['dyndep'] == '':
                raise Unsure('empty dyndep binding')
            d = canon(e.binds['dyndep'])
            if d not in e.ins + e.iins + e.oins:
                raise NinjaError('dyndep_not_input', e.file, e.line,
                                 'dyndep %r is not an input' % d)
            r['dyndep'] = d
        else:
            if 'dyndep' in e.rule.bindings or e.scope.lookup_var('dyndep') is not None:
                raise Unsure('dyndep defined outside a build statement')
            r['dyndep'] = ''
        self.in_pool_lookup = True
        try:
            pool = self.lookup(e, 'pool', [])
        finally:
            self.in_pool_lookup = False
        r['pool'] = pool or ''
        if r['pool'] not in ('', 'console') and r['pool'] not in self.pools:
            raise NinjaError('unknown_pool', e.file, e.line, 'unknown pool %r' % r['pool'])
        return r

    def add_pending(self, err, resolves):
        if self.pending is None:
            self.pending = (err, resolves)


class Parser:
    def __init__(self, ev, fname, scope):
        self.ev, self.f, self.scope = ev, fname, scope
        self.s = ev.files[fname].decode('latin-1')
        self.p, self.line = 0, 1
        if '\0' in self.s:
            raise Unsure('NUL byte in input')

    # ---- low level -------------------------------------------------------
    def err(self, kind, msg, line=None):
        raise NinjaError(kind, self.f, line or self.line, msg)

    def peek(self, k=0):
        i = self.p + k
        return self.s[i] if i < len(self.s) else ''

    def nl_len(self, k=0):
        c = self.peek(k)
        if c == '\n':
            return 1
        if c == '\r':
            if self.peek(k + 1) == '\n':
                return 2
            raise Unsure('CR not followed by LF')
        return 0

    def at_eol(self):
        return self.peek() == '' or self.nl_len() > 0

    def eat_eol(self):
        n = self.nl_len()
        if n:
            self.p += n
            self.line += 1
        elif self.peek() != '':
            self.err('syntax', 'expected newline, got %r' % self.peek())
        else:
            raise Unsure('last line ends at EOF without a newline')

    def skip_ws(self):
        st = self.p
        while True:
            c = self.peek()
            if c == ' ':
                self.p += 1
            elif c == '\t':
                raise Unsure('tab used as token separator')
            elif c == '$' and self.peek(1) in ('\n', '\r') and self.nl_len(1):
                self.p += 1 + self.nl_len(1)
                self.line += 1
            else:
                break
        return self.p > st

    def ident(self):
        st = self.p
        while self.peek() in IDENT_CH:
            self.p += 1
        return self.s[st:self.p]

    def indent(self):
        st = self.p
        while self.peek() in (' ', '\t'):
            self.p += 1
        ws = self.s[st:self.p]
        if '\t' in ws:
            if self.peek() in ('', '#') or self.nl_len():
                raise Unsure('tab on an otherwise blank/comment line')
            self.err('tab', 'tabs are not allowed for indentation')
        return len(ws)

    def comment(self):
        while not self.at_eol():
            self.p += 1
        if self.s[self.p - 1:self.p] == '$':
            raise Unsure('comment ending in $')
        self.eat_eol()

    def newline_escape_ok(self):
        v = self.scope.lookup_var('ninja_required_version')
        if v is None:
            return False
        m = re.match(r'([0-9]+)(?:\.([0-9]+))?', v)
        if not m:
            raise Unsure('unparsable ninja_required_version with $^')
        return (int(m.group(1)), int(m.group(2) or 0)) >= (1, 14)

    def evalstring(self, path):
        out = []
        raw_ws_tail = [False]

        def lit(x, raw=False):
            raw_ws_tail[0] = raw and x in ' \t'
            if out and out[-1][0] == 'lit':
                out[-1] = ('lit', out[-1][1] + x)
            else:
                out.append(('lit', x))

        while True:
            c = self.peek()
            if c == '' or self.nl_len():
                break
            if path and c in ' :|':
                break
            if path and c == '\t':
                raise Unsure('tab in path list')
            if c != '$':
                lit(c, True)
                self.p += 1
                continue
            d = self.peek(1)
            if d == '':
                raise Unsure('$ at end of file')
            if d in '$ :':
                lit(d)
                self.p += 2
            elif d == '^':
                if not self.newline_escape_ok():
                    self.err('bad_escape', '$^ requires ninja_required_version >= 1.14')
                lit('\n')
                self.p += 2
            elif d in '\r\n':
                self.p += 1 + self.nl_len(1)
                self.line += 1
                while self.peek() == ' ':
                    self.p += 1
                if self.peek() == '\t':
                    raise Unsure('tab after line continuation')
            elif d == '{':
                j = self.p + 2
                while j < len(self.s) and self.s[j] in IDENT_CH:
                    j += 1
                if j == self.p + 2 or self.s[j:j + 1] != '}':
                    self.err('bad_escape', 'bad $-escape (malformed ${name})')
                out.append(('var', self.s[self.p + 2:j]))
                raw_ws_tail[0] = False
                self.p = j + 1
            elif d in SIMPLE_CH:
                j = self.p + 1
                while j < len(self.s) and self.s[j] in SIMPLE_CH:
                    j += 1
                out.append(('var', self.s[self.p + 1:j]))
                raw_ws_tail[0] = False
                self.p = j
            else:
                self.err('bad_escape', 'bad $-escape (literal $ must be written as $$)')
        if not path and raw_ws_tail[0]:
            raise Unsure('trailing whitespace in value')
        return out

    def paths(self):
        res = []
        while True:
            sp = self.skip_ws()
            c = self.peek()
            if c == '' or c in ':|' or self.nl_len():
                return res, sp
            res.append(self.evalstring(True))

    def pipe(self, sp):
        if not sp:
            raise Unsure("'|' directly attached to a path")
        st = self.p
        while self.peek() == '|':
            self.p += 1
        n = self.p - st
        if n == 1 and self.peek() == '@':
            self.p += 1
            tok = '|@'
        elif n <= 2:
            tok = '|' * n
        else:
            raise Unsure('three or more pipes')
        if not (self.peek() == ' ' or self.at_eol()):
            raise Unsure('pipe token not followed by a space')
        return tok

    def look(self, v):
        return self.scope.lookup_var(v)

    # ---- blocks ----------------------------------------------------------
    def bindings_block(self):
        res = []
        blank = False
        while True:
            save = (self.p, self.line)
            ind = self.indent()
            if self.peek() == '':
                if ind:
                    raise Unsure('whitespace-only last line without a newline')
                break
            if self.nl_len():
                self.eat_eol()
                blank = True
                continue
            if self.peek() == '#':
                self.comment()
                continue
            if ind == 0:
                self.p, self.line = save
                break
            if blank:
                raise Unsure('indented line after a blank line: does the blank line close the block?')
            l = self.line
            k = self.ident()
            if not k:
                raise Unsure('indented line not starting with an identifier')
            if k in KEYWORDS and k != 'pool':
                raise Unsure('keyword at start of indented line')
            self.skip_ws()
            if self.peek() != '=':
                if k == 'pool':
                    raise Unsure('indented pool declaration?')
                self.err('syntax', "expected '=' in binding")
            self.p += 1
            self.skip_ws()
            v = self.evalstring(False)
            self.eat_eol()
            res.append((k, v, l))
        return res

    def name_line(self, what):
        self.skip_ws()
        name = self.ident()
        if not name:
            if self.at_eol():
                self.err('syntax', 'expected %s name' % what)
            raise Unsure('odd %s name' % what)
        self.skip_ws()
        if not self.at_eol():
            if self.peek() == '$':
                raise Unsure('$ in %s name' % what)
            self.err('syntax', 'unexpected text after %s name' % what)
        self.eat_eol()
        return name

    # ---- statements ------------------------------------------------------
    def st_rule(self, line):
        name = self.name_line('rule')
        if name in self.scope.rules:
            self.err('duplicate_rule', 'duplicate rule %r' % name, line)
        if name == 'phony':
            raise Unsure('redefining phony in a subninja scope')
        seen = {}
        for k, pieces, l in self.bindings_block():
            if k in ('in', 'out', 'in_newline'):
                raise Unsure('rule binding of built-in ' + k)
            if k not in RULE_VARS:
                self.err('bad_rule_variable', 'unexpected variable %r in rule' % k, l)
            if k in seen:
                if k == 'command':
                    self.err('duplicate_command', 'rule has more than one command', l)
                raise Unsure('duplicate binding in rule')
            seen[k] = pieces
        if 'command' in seen and not seen['command']:
            # 'command =' with nothing after it: the manual calls the command "required" and there is nothing to run; a rule like
            # this has no command (ninja says: expected 'command =' line).  A value that merely EVALUATES to nothing is a
            # different matter and is accepted.
            self.err('missing_command', "rule %r has an empty 'command'" % name, line)
        for k in ('rspfile', 'rspfile_content'):
            if k in seen and not seen[k]:
                raise Unsure('rule binding %s present but empty: does it count as given?' % k)
        if 'command' not in seen:
            self.err('missing_command', "rule %r has no 'command'" % name, line)
        if ('rspfile' in seen) != ('rspfile_content' in seen):
            self.err('rspfile_pair', 'rspfile and rspfile_content must both be given', line)
        self.scope.rules[name] = Rule(name, seen)

    def st_pool(self, line):
        name = self.name_line('pool')
        depth = None
        for k, pieces, l in self.bindings_block():
            if k != 'depth':
                raise Unsure('pool binding other than depth')
            if depth is not None:
                raise Unsure('duplicate depth')
            depth = expand(pieces, self.look)
        if name in self.ev.pools or name == 'console':
            self.err('duplicate_pool', 'duplicate pool %r' % name, line)
        if depth is None or depth == '':
            self.err('bad_pool', 'pool without depth', line)
        if re.fullmatch(r'[0-9]+', depth):
            if int(depth) > 2 ** 31 - 1:
                raise Unsure('huge pool depth')
            self.ev.pools[name] = int(depth)
        elif re.fullmatch(r'-[0-9]*[1-9][0-9]*', depth) or re.match(r'[A-Za-z_]', depth):
            self.err('bad_pool', 'invalid pool depth %r' % depth, line)
        else:
            raise Unsure('odd pool depth spelling %r' % depth)

    def st_default(self, line):
        lst, sp = self.paths()
        if self.peek() in (':', '|') and self.peek():
            raise Unsure("':' or '|' in default statement")
        if not lst:
            self.err('syntax', 'expected target name', line)
        self.eat_eol()
        for x in lst:
            c = canon(expand(x, self.look))
            if c not in self.ev.outputs:
                only_in = ' (known only as an input, not as an output)' if c in self.ev.inputs else ''
                self.err('unknown_default_target', 'unknown target %r%s' % (c, only_in), line)
            self.ev.defaults.append(c)

    def st_include(self, line, sub=False):
        lst, sp = self.paths()
        if self.peek() in (':', '|') and self.peek():
            raise Unsure("':' or '|' in include path")
        if len(lst) != 1:
            self.err('syntax', 'expected exactly one path', line)
        self.eat_eol()
        name = expand(lst[0], self.look)
        if name == '':
            raise Unsure('empty include path')
        if name not in self.ev.files:
            try:
                c = canon(name)
            except Unsure:
                c = name
            if c != name and c in self.ev.files:
                raise Unsure('include path spelled non-canonically')
            self.err('missing_include', 'cannot load %r' % name, line)
        if name in self.ev.stack:
            raise Unsure('recursive include')
        Parser(self.ev, name, Scope(self.scope) if sub else self.scope).parse()

    def st_subninja(self, line):
        self.st_include(line, True)

    def st_build(self, line):
        ev = self.ev
        outs, sp = self.paths()
        iouts = []
        if self.peek() == '|':
            if self.pipe(sp) != '|':
                raise Unsure("'||' or '|@' among outputs")
            iouts, sp = self.paths()
            if not iouts or self.peek() == '|':
                raise Unsure('empty or repeated implicit output list')
        if self.peek() != ':':
            self.err('syntax', "expected ':' after outputs")
        self.p += 1
        self.skip_ws()
        rname = self.ident()
        if not rname:
            if self.at_eol():
                self.err('syntax', 'expected rule name')
            raise Unsure('odd rule name')
        if not (self.peek() == ' ' or self.at_eol()):
            raise Unsure('rule name followed by odd character')
        order = ['', '|', '||', '|@']
        groups = {}
        cur = 0
        groups[''], sp = self.paths()
        while self.peek() == '|':
            tok = self.pipe(sp)
            idx = order.index(tok)
            if idx <= cur:
                raise Unsure('dependency lists out of order or repeated')
            cur = idx
            groups[tok], sp = self.paths()
            if not groups[tok]:
                raise Unsure('empty dependency list after ' + tok)
        if self.peek() == ':':
            raise Unsure("':' among inputs")
        self.eat_eol()
        if not outs:
            if iouts:
                raise Unsure('only implicit outputs')
            self.err('syntax', 'expected output path', line)

        e = Edge()
        e.file, e.line, e.scope = self.f, line, self.scope
        ex = lambda lst: [expand(x, self.look) for x in lst]
        e.raw_outs, e.raw_ins = ex(outs), ex(groups[''])
        e.outs = [canon(x) for x in e.raw_outs]
        e.iouts = [canon(x) for x in ex(iouts)]
        e.ins = [canon(x) for x in e.raw_ins]
        e.iins = [canon(x) for x in ex(groups.get('|', []))]
        e.oins = [canon(x) for x in ex(groups.get('||', []))]
        e.vals = [canon(x) for x in ex(groups.get('|@', []))]
        e.binds = {}
        for k, pieces, l in self.bindings_block():
            e.binds[k] = expand(pieces, self.look)
        look2 = lambda v: e.binds[v] if v in e.binds else self.look(v)
        for x in outs + iouts + sum(groups.values(), []):
            if any(t == 'var' and n in ('in', 'out', 'in_newline') for t, n in x):
                raise Unsure('$in/$out referenced in a path')
            if expand(x, look2) != expand(x, self.look):
                raise Unsure('path references a variable rebound in its own build block')
        for o in e.outs + e.iouts:
            if o in ev.outputs:
                self.err('duplicate_output', 'multiple rules generate %r' % o, line)
            ev.outputs.add(o)
        ev.inputs.update(e.ins + e.iins + e.oins + e.vals)
        e.rname = rname
        e.rule = self.scope.lookup_rule(rname)
        if e.rule is None:
            scope = self.scope
            ev.add_pending(NinjaError('unknown_rule', self.f, line, 'unknown build rule %r' % rname),
                           lambda: scope.lookup_rule(rname) is not None)
            return
        e.selfref_dropped = False
        if e.rule is ev.root.rules['phony']:
            allin = e.ins + e.iins + e.oins
            if any(x in e.iouts for x in allin):
                raise Unsure('phony self-reference through an implicit output')
            if any(x in e.outs for x in allin):
                e.selfref_dropped = True
                e.ins = [x for x in e.ins if x not in e.outs]
                e.iins = [x for x in e.iins if x not in e.outs]
                e.oins = [x for x in e.oins if x not in e.outs]
        try:
            e.r1 = ev.eval_edge(e)
        except NinjaError as x:
            if x.kind != 'unknown_pool':
                raise
            ev.in_pool_lookup = True
            try:
                pname = ev.lookup(e, 'pool', [])
            finally:
                ev.in_pool_lookup = False
            ev.add_pending(x, lambda: pname in ev.pools)
            return
        ev.edges.append(e)

    # ---- file ------------------------------------------------------------
    def parse(self):
        self.ev.stack.append(self.f)
        while True:
            ind = self.indent()
            c = self.peek()
            if c == '':
                if ind:
                    raise Unsure('whitespace-only last line without a newline')
                break
            if self.nl_len():
                self.eat_eol()
                continue
            if c == '#':
                self.comment()
                continue
            if ind:
                raise Unsure('indented line outside a rule/build/pool block')
            line = self.line
            w = self.ident()
            if not w:
                if c == '$' or not (' ' < c <= '~'):
                    raise Unsure('statement starting with $ or a non-ASCII/control byte')
                self.err('syntax', 'unexpected %r at start of statement' % c)
            if w in KEYWORDS:
                if self.at_eol():
                    self.err('syntax', 'expected something after %r' % w)
                if self.peek() != ' ':
                    raise Unsure('keyword followed by odd character')
                q = self.p
                while self.s[q:q + 1] == ' ':
                    q += 1
                if self.s[q:q + 1] == '=':
                    raise Unsure('keyword used as a variable name')
                getattr(self, 'st_' + w)(line)
            else:
                self.skip_ws()
                if self.peek() != '=':
                    self.err('syntax', "expected '=' after %r" % w)
                self.p += 1
                self.skip_ws()
                v = self.evalstring(False)
                self.eat_eol()
                self.scope.vars[w] = expand(v, self.look)
        self.ev.stack.pop()


def _evaluate(files, main):
    if main not in files:
        raise Unsure('main file missing')
    ev = Ev(files)
    err = None
    try:
        Parser(ev, main, ev.root).parse()
    except NinjaError as x:
        err = x
    if ev.pending is not None:
        perr, resolves = ev.pending
        if resolves():
            raise Unsure('rule/pool used before its declaration')
        return perr.as_dict()
    if err is not None:
        return err.as_dict()
    edges = []
    for e in ev.edges:
        if e.scope.lookup_rule(e.rname) is not e.rule:
            raise Unsure('a nearer rule of the same name was declared after the build statement')
        try:
            r2 = ev.eval_edge(e)
        except NinjaError:
            r2 = None
        if r2 != e.r1:
            raise Unsure('edge evaluation depends on WHEN rule variables are expanded '
                         '(variable/pool changed after the build statement)')
        d = {"outs": e.outs, "iouts": e.iouts, "ins": e.ins, "iins": e.iins,
             "oins": e.oins, "vals": e.vals, "rule": e.rule.name}
        d.update(r2)
        edges.append(d)
    return {"ok": True, "edges": edges, "pools": dict(ev.pools), "defaults": list(ev.defaults)}


def evaluate(files, main="build.ninja"):
    try:
        return _evaluate(files, main)
    except Unsure:
        raise
    except NinjaError as x:
        return x.as_dict()
    except BaseException as x:  # never crash: internal problems become Unsure
        if isinstance(x, (KeyboardInterrupt, SystemExit)):
            raise
        raise Unsure('internal error: %s: %s' % (type(x).__name__, x))


if __name__ == '__main__':
    import sys, json
    fs = {}
    for a in sys.argv[1:]:
        with open(a, 'rb') as fh:
            fs[a] = fh.read()
    try:
        print(json.dumps(evaluate(fs, sys.argv[1]), indent=1))
    except Unsure as u:
        print('UNSURE:', u)
