"""Independent Python models of ninja's two on-disk logs (used as oracles by C05/C07/C08/C09/C19).
Written from the documented formats, not from ninja's loader code."""
import struct


# ------------------------------------------------------------------ .ninja_log (text, v7)
def parse_build_log(data: bytes):
    """Returns (version, entries) where entries maps output-name(bytes) -> (hash:int, start, end, mtime)
    folding the *complete* lines only (last record per output wins).  version None = no header line."""
    lines = data.split(b"\n")
    complete = lines[:-1]          # the last element is the torn tail (or b"" when cleanly ended)
    tail = lines[-1]
    version = None
    first = complete[0] if complete else tail
    if first.startswith(b"# ninja log v"):
        digits = b""
        for ch in first[len(b"# ninja log v"):]:
            if 48 <= ch <= 57:
                digits += bytes([ch])
            else:
                break
        if digits:
            version = int(digits)
    entries = {}
    for ln in complete:
        f = ln.split(b"\t")
        if len(f) < 5:
            continue
        try:
            start, end, mtime = int(f[0]), int(f[1]), int(f[2])
            h = int(f[4], 16)
        except ValueError:
            continue
        entries[f[3]] = (h, start, end, mtime)
    return version, entries


def build_log_records(data: bytes):
    """All complete well-formed records in file order: (name, hash, start, end, mtime)."""
    out = []
    for ln in data.split(b"\n")[:-1]:
        f = ln.split(b"\t")
        if len(f) != 5:
            continue
        try:
            out.append((f[3], int(f[4], 16), int(f[0]), int(f[1]), int(f[2])))
        except ValueError:
            pass
    return out


# ------------------------------------------------------------------ .ninja_deps (binary, v4)
DEPS_MAGIC = b"# ninjadeps\n"
DEPS_VERSION = 4
MAX_RECORD = (1 << 19) - 1


def parse_deps_log(data: bytes):
    """Independent parser/fold of the binary deps log.
    Returns dict(valid_header, paths:[bytes], deps:{id:(mtime,[ids])}, good_len, n_records,
                 problem: None | str)  - stops at the first malformed / incomplete record."""
    r = {"valid_header": False, "paths": [], "deps": {}, "good_len": 0, "n_records": 0, "problem": None,
         "n_dep_records": 0}
    hl = len(DEPS_MAGIC) + 4
    if len(data) < hl or data[:len(DEPS_MAGIC)] != DEPS_MAGIC:
        r["problem"] = "bad header"
        return r
    (ver,) = struct.unpack_from("<i", data, len(DEPS_MAGIC))
    if ver != DEPS_VERSION:
        r["problem"] = "bad version"
        return r
    r["valid_header"] = True
    off = hl
    r["good_len"] = off
    while off < len(data):
        if off + 4 > len(data):
            r["problem"] = "torn size word"
            break
        (size,) = struct.unpack_from("<I", data, off)
        is_deps = bool(size >> 31)
        size &= 0x7FFFFFFF
        if size > MAX_RECORD:
            r["problem"] = "record too large"
            break
        if off + 4 + size > len(data):
            r["problem"] = "torn record"
            break
        body = data[off + 4: off + 4 + size]
        if is_deps:
            if size % 4 != 0 or size < 12:
                r["problem"] = "malformed deps record size"
                break
            words = struct.unpack("<%di" % (size // 4), body)
            out_id = words[0]
            mtime = (words[1] & 0xFFFFFFFF) | (words[2] << 32)
            ids = list(words[3:])
            if out_id < 0 or out_id >= len(r["paths"]) or any(i < 0 or i >= len(r["paths"]) for i in ids):
                r["problem"] = "deps record refers to unknown id"
                break
            r["deps"][out_id] = (mtime, ids)
            r["n_dep_records"] += 1
        else:
            if size < 4:
                r["problem"] = "path record too short"
                break
            path = body[:-4]
            # up to 3 NUL padding bytes
            pad = 0
            while pad < 3 and path.endswith(b"\0"):
                path = path[:-1]
                pad += 1
            (checksum,) = struct.unpack("<I", body[-4:])
            expected_id = len(r["paths"])
            if checksum != (~expected_id & 0xFFFFFFFF):
                r["problem"] = "id checksum mismatch"
                break
            if not path:
                r["problem"] = "empty path"
                break
            r["paths"].append(path)
        off += 4 + size
        r["good_len"] = off
        r["n_records"] += 1
    return r


def deps_view(parsed):
    """{output path: (mtime, [dep paths])} of a parsed deps log"""
    p = parsed["paths"]
    return {p[o]: (mt, [p[i] for i in ids]) for o, (mt, ids) in parsed["deps"].items()}
