"""C15 - depfiles written by compilers are read back as the same file names.
Engine: nprobe depfile (real DepfileParser under ASan/UBSan).
Oracle: round trip through an independent encoder of the GCC / Clang Makefile dialects."""

MANIFEST = {'engine': 'nprobe', 'category': 'exploration', 'technique': 'runtime monitoring: round-trip oracle (independent GCC/Clang depfile encoder -> real DepfileParser under ASan/UBSan), exhaustive short names + random lists, minimal-n-gram attribution', 'text': 'Names are encoded the way GCC (mkdeps munge) and Clang (PrintFilename) write them, laid out in 8 layouts x LF/CRLF, parsed by the real DepfileParser and compared name by name. Exhaustive over names of <=3 (quick) / <=4 (thorough) symbols of the escape alphabet in every position; random lists over printable ASCII + high bytes. Each failing name is reduced to the minimal byte sequence (n<=3) that fails on its own, so one known bad byte cannot mask another defect. Through the real binary: a deps = gcc statement whose command drops such a depfile (names also spelled ./x, sub/../x, a//b as include paths make compilers spell them); ninja -t deps must list exactly the (canonical) names.', 'note': "Trusted: the encoder in vlib/checks/c15.py (follows the two compilers' source), the domain rules (names ending in backslash/colon, NUL/newline/tab are not expressible). Known findings: 8 byte sequences (see known_findings.txt).", 'ref': 'DESIGN.md §5 C15'}

import os, itertools, random
from .. import build, util, core

PROBE_SRCS = ["nprobe.cc", "probe_depfile.cc"]


def probe():
    return build.get_bin("nprobe-depfile", PROBE_SRCS)


def setup():
    probe()


# ----------------------------------------------------------------------------- encoders
def enc(name: bytes, colon_escaped: bool) -> bytes:
    """What GCC (libcpp mkdeps munge) and Clang (DependencyFile.cpp PrintFilename) emit:
    space -> preceding backslashes doubled + '\\ ' ; '#' -> '\\#' ; '$' -> '$$';
    ':' -> '\\:' only where the dialect escapes colons (GCC >= 10, targets)."""
    out = bytearray()
    for i, c in enumerate(name):
        if c == 0x20:
            j = i
            while j > 0 and name[j - 1] == 0x5c:
                out.append(0x5c)
                j -= 1
            out += b"\\ "
        elif c == 0x23:
            out += b"\\#"
        elif c == 0x24:
            out += b"$$"
        elif c == 0x3a and colon_escaped:
            out += b"\\:"
        else:
            out.append(c)
    return bytes(out)


def in_domain(name: bytes, colon_escaped: bool) -> bool:
    """Names a Makefile can express unambiguously in that dialect."""
    if not name or any(c in name for c in b"\0\n\r\t"):
        return False
    if name.endswith(b"\\") or name.endswith(b":"):
        return False
    if not colon_escaped and b"\\:" in name:
        return False   # '\:' is GCC-10's escaped colon; a literal backslash-colon is ambiguous
    return True


DIALECTS = {"clang": (False, False), "gcc10": (True, False)}  # (targets escape ':', deps escape ':')
LAYOUTS = ["oneline", "cont", "cont_clang", "rules", "split", "trailing_ws", "phony_mp", "no_final_nl"]


def layout(targets, deps, dialect, lay, eol=b"\n"):
    te, de = DIALECTS[dialect]
    T = [enc(t, te) for t in targets]
    D = [enc(d, de) for d in deps]
    head = b" ".join(T) + b":"
    if lay == "oneline":
        s = head + b"".join(b" " + d for d in D) + eol
    elif lay == "cont":      # gcc: "t: d1 \<nl> d2 \<nl> d3"
        s = head + b"".join(b" " + d + (b" \\" + eol if i + 1 < len(D) else b"") for i, d in enumerate(D)) + eol
    elif lay == "cont_clang":  # clang: "t: \<nl>  d1 \<nl>  d2"
        s = head + b"".join(b" \\" + eol + b"  " + d for d in D) + eol
    elif lay == "rules":     # one rule per target, deps repeated
        s = b"".join(t + b":" + b"".join(b" " + d for d in D) + eol for t in T)
    elif lay == "split":     # same targets, deps spread over several rules
        s = b"".join(head + b" " + d + eol for d in D) if D else head + eol
    elif lay == "trailing_ws":
        s = head + b"".join(b" " + d for d in D) + b"   " + eol + eol
    elif lay == "phony_mp":  # gcc -MP
        s = head + b"".join(b" " + d for d in D) + eol + b"".join(eol + d + b":" + eol for d in D)
    elif lay == "no_final_nl":
        s = head + b"".join(b" " + d for d in D)
    else:
        raise ValueError(lay)
    return s


def dedup(xs):
    r = []
    for x in xs:
        if x not in r:
            r.append(x)
    return r


def parse_many(b, contents):
    n = util.NCPU
    shards = [contents[i::n] for i in range(n)]
    from concurrent.futures import ThreadPoolExecutor

    def one(sh):
        if not sh:
            return (0, b"", b"", False)
        return util.run([b, "depfile"], input=b"".join(c.hex().encode() + b"\n" for c in sh), timeout=900)
    with ThreadPoolExecutor(max_workers=n) as ex:
        rs = list(ex.map(one, shards))
    out = [None] * len(contents)
    crashes = []
    for k, (rc, so, se, to) in enumerate(rs):
        lines = so.decode().splitlines()
        if to:
            raise core.Inconclusive("depfile probe timeout")
        if rc != 0:
            crashes.append((se.decode("latin-1"), shards[k][len(lines)] if len(lines) < len(shards[k]) else b""))
        for j, l in enumerate(lines):
            idx = k + j * n
            if l.startswith("ERR "):
                out[idx] = ("err", bytes.fromhex(l[4:]).decode("latin-1"))
            else:
                o, i = l[3:].split(" ; ") if " ; " in l else (l[3:].rstrip(" ;"), "")
                f = lambda s: [bytes.fromhex(x.rstrip("-")) for x in s.split(",")] if s.strip() else []
                out[idx] = ("ok", f(o.strip()), f(i.strip()))
    return out, crashes


def name_case(role, dialect, nm):
    if role == "t":
        return layout([nm], [b"x.h"], dialect, "oneline"), ([nm], [b"x.h"])
    return layout([b"out.o"], [nm], dialect, "oneline"), ([b"out.o"], [nm])


def ok_result(r, exp):
    return bool(r) and r[0] == "ok" and r[1] == exp[0] and r[2] == exp[1]


def run(ctx):
    b = probe()
    rng = random.Random(ctx.seed)
    cases = []   # (kind, meta, content, expect)
    ALPHA = [b"a", b" ", b"\\", b"#", b"$", b":", b"%", b"\xe9"]
    maxsym = 3 if ctx.tier == "quick" else 4
    names = [b"".join(t) for n in range(1, maxsym + 1) for t in itertools.product(ALPHA, repeat=n)]
    nexh = 0
    for dialect in DIALECTS:
        te, de = DIALECTS[dialect]
        for nm in names:
            for lay in LAYOUTS:
                for eol in (b"\n", b"\r\n"):
                    if in_domain(nm, de):
                        # as first / middle / last dependency
                        for pos in range(3):
                            deps = [b"x.h", b"y.h"]
                            deps.insert(pos, nm)
                            if ctx.tier == "quick" and (lay not in ("oneline", "cont_clang", "phony_mp") and pos != 1):
                                continue
                            cases.append(("exh-dep", (dialect, lay, eol == b"\r\n", pos), layout([b"out.o"], deps, dialect, lay, eol),
                                          ([b"out.o"], dedup(deps))))
                            nexh += 1
                    if in_domain(nm, te) and nm not in (b"x.h",):
                        cases.append(("exh-target", (dialect, lay, eol == b"\r\n"), layout([nm], [b"x.h", b"y.h"], dialect, lay, eol),
                                      ([nm], [b"x.h", b"y.h"])))
                        cases.append(("exh-target2", (dialect, lay, eol == b"\r\n"), layout([b"o1", nm], [b"x.h"], dialect, lay, eol),
                                      ([b"o1", nm], [b"x.h"])))
                        nexh += 2
    # random lists of long names over printable ASCII + high bytes
    nrand = 30000 if ctx.tier == "quick" else 600000
    printable = bytes(range(0x21, 0x7f))
    for _ in range(nrand):
        dialect = rng.choice(list(DIALECTS))
        te, de = DIALECTS[dialect]
        mode = rng.random()

        def rname(esc):
            while True:
                L = rng.choice((1, 2, 3, 5, 8, 13, 40, 200))
                if mode < 0.5:    # typical path-like with a few specials
                    pool = b"abcXYZ019/._-+" * 3 + b" \\#$:%" + bytes([0xc3, 0xa9, 0xff])
                elif mode < 0.8:  # common characters + at most two arbitrary printable/high bytes
                    pool = b"abcdefXYZ0123456789/._-+  \\\\"
                    nm = bytearray(rng.choice(pool) for _ in range(L))
                    for _k in range(rng.choice((0, 1, 1, 2))):
                        nm[rng.randrange(L)] = rng.choice(printable + bytes(range(0x80, 0x100)))
                    nm = bytes(nm)
                    if in_domain(nm, esc):
                        return nm
                    continue
                else:             # escape-heavy
                    pool = b"a \\#$:%"
                nm = bytes(rng.choice(pool) for _ in range(L))
                if in_domain(nm, esc):
                    return nm
        nt = rng.choice((1, 1, 1, 2, 3))
        nd = rng.choice((0, 1, 2, 3, 8, 30))
        T = dedup([rname(te) for _ in range(nt)])
        D = [d for d in [rname(de) for _ in range(nd)] if d not in T]
        if D and rng.random() < 0.3:
            D.append(rng.choice(D))     # repeated dependency: must come back once
        lay = rng.choice(LAYOUTS)
        eol = rng.choice((b"\n", b"\r\n"))
        cases.append(("rand", (dialect, lay, eol == b"\r\n"), layout(T, D, dialect, lay, eol), (T, dedup(D))))
    # long names that differ only near their end (sibling files of one directory): told apart wherever names are compared
    for _ in range(300 if ctx.tier == "quick" else 5000):
        stem = bytes(rng.choice(b"abcdefgh/_.") for _ in range(rng.randint(12, 40)))
        stem = stem.replace(b"//", b"/_").strip(b"/") or b"dir/file_name"
        k = rng.randint(2, 5)
        tails = set()
        while len(tails) < k:
            tails.add(bytes(rng.choice(b"abcxyz0123._") for _ in range(rng.randint(1, 4))))
        names = [stem + t_ for t_ in sorted(tails)]
        names = [n_ for n_ in names if not n_.endswith(b".") and b"/." not in n_ and not n_.startswith(b".")] or [stem + b"a", stem + b"b"]
        dialect = rng.choice(list(DIALECTS))
        lay = rng.choice(LAYOUTS)
        T, D = [b"out/target_object.o"], list(names)
        if rng.random() < 0.6:
            rng.shuffle(D)          # a name that is the beginning of another one listed before it (foo.hpp foo.h) and after it
        if rng.random() < 0.5:
            D.append(rng.choice(names))            # one of them twice: must come back once
        cases.append(("rand", (dialect, lay, False), layout(T, D, dialect, lay, b"\n"), (T, dedup(D))))
        # ... and as the targets of a second rule without dependencies (what -MP writes): accepted, still kept apart
        if len(names) >= 2:
            cases.append(("mp-multi", ("clang", "mp", False), b"out/target_object.o: " + b" ".join(names) + b"\n" + b"".join(n_ + b":\n" for n_ in names),
                          ([b"out/target_object.o"], names)))
            # a sibling of a listed dependency as a target with its own dependencies is NOT that dependency: accepted
            sib = stem + b"NEW"
            cases.append(("sibling-target", ("clang", "multi", False), b"out/target_object.o: " + b" ".join(names) + b"\n" + sib + b": zz.h\n",
                          ([b"out/target_object.o", sib], names + [b"zz.h"])))
    # rejected forms
    nrej = 0
    for _ in range(300 if ctx.tier == "quick" else 3000):
        D = [bytes(rng.choice(b"abc/._") for _ in range(rng.randint(1, 6))) for _ in range(rng.randint(1, 4))]
        cases.append(("rej-nocolon", (), b" ".join(D) + b"\n", "err:expected ':' in depfile"))
        # ... however the text ends (nothing, blanks, a tab, a continuation - LF or CRLF - as the very last bytes) and however the
        # names are laid out (one line, one per continuation line, one per line)
        sep = rng.choice((b" ", b"  ", b" \\\n ", b" \\\r\n  ", b"\t", b"\n"))
        for end in (b"", b" ", b"\t", b"  \n", b" \\\n", b" \\\r\n", b"\\\n", b"\r\n", b"\n\n", b" \\\n\n", b"\n "):
            cases.append(("rej-nocolon-end", (), sep.join(D) + end, "err:expected ':' in depfile"))
        d = D[0]
        cases.append(("rej-in-has-ins", (), b"out: " + b" ".join(D) + b"\n" + d + b": zz.h\n", "err:inputs may not also have inputs"))
        # the reappearing dependency anywhere among several targets of the later rule, other targets around it
        others = [b"t%d.o" % k for k in range(rng.randint(1, 3))]
        tg = list(others)
        tg.insert(rng.randint(0, len(tg)), rng.choice(D))
        cases.append(("rej-in-has-ins-multi", (), b"out: " + b" ".join(D) + b"\n" + b" ".join(tg) + b": zz.h\n", "err:inputs may not also have inputs"))
        # ... and in a third rule, after an innocent second one
        cases.append(("rej-in-has-ins-later", (), b"out: " + b" ".join(D) + b"\n" + b"other.o: q.h\n" + b" ".join(tg) + b": zz.h yy.h\n",
                      "err:inputs may not also have inputs"))
        # accepted: the same names as targets of rules without dependencies (what -MP writes, also several per rule)
        DD = dedup(D)
        cases.append(("mp-multi", ("clang", "mp", False), b"out: " + b" ".join(D) + b"\n" + b" ".join(DD) + b":\n", ([b"out"], DD)))
        nrej += 15

    # long lists (a translation unit with tens to hundreds of headers): a name mentioned again - as a dependency of a later rule, as a
    # -MP rule of its own, or as a target with dependencies (rejected) - whichever place in the list it had the first time
    for _ in range(150 if ctx.tier == "quick" else 3000):
        n_ = rng.choice((20, 31, 32, 33, 34, 40, 64, 65, 100, 257))
        L = [b"inc/h%03d%s.h" % (k_, bytes(rng.choice(b"abc_") for _q in range(rng.randint(0, 3)))) for k_ in range(n_)]
        rng.shuffle(L)
        pick = rng.choice((0, 1, n_ // 2, 30, 31, 32, 33, n_ - 2, n_ - 1, rng.randrange(n_)))
        again = L[min(pick, n_ - 1)]
        head = b"out.o: " + (b" \\\n  ".join(L) if rng.random() < 0.5 else b" ".join(L)) + b"\n"
        cases.append(("long-repeat", ("clang", "long", False), head + b"out.o: " + again + b" extra.h\n", ([b"out.o"], L + [b"extra.h"])))
        cases.append(("long-mp", ("clang", "long-mp", False), head + b"".join(x_ + b":\n" for x_ in L), ([b"out.o"], L)))
        cases.append(("long-mp-one", ("clang", "long-mp", False), head + again + b":\n", ([b"out.o"], L)))
        cases.append(("rej-in-has-ins-long", (), head + again + b": zz.h\n", "err:inputs may not also have inputs"))
        nrej += 1

    # several compiler runs appended to one file (or -MP output followed by more rules): phony rules for dependencies listed
    # so far - with or without blanks before the end of the line, blank lines, CRLF - and then a rule that brings new ones
    for _ in range(1500 if ctx.tier == "quick" else 30000):
        D1 = dedup([bytes(rng.choice(b"abc/._") for _ in range(rng.randint(1, 6))) + b".h" for _ in range(rng.randint(1, 4))])
        D2 = dedup([bytes(rng.choice(b"xyz/_") for _ in range(rng.randint(1, 6))) + b".hh" for _ in range(rng.randint(1, 3))])
        D1 = [d for d in D1 if not d.startswith(b"/") and b"//" not in d]
        D2 = [d for d in D2 if not d.startswith(b"/") and b"//" not in d]
        if not D1 or not D2:
            continue
        eol = rng.choice((b"\n", b"\n", b"\r\n"))
        ws = lambda: rng.choice((b"", b"", b" ", b"  ", b"   "))
        txt = b"out:" + b"".join(b" " + d for d in D1) + ws() + eol
        for d in rng.sample(D1, rng.randint(1, len(D1))):
            if rng.random() < 0.3:
                txt += ws() + eol
            txt += d + b":" + ws() + eol
        second = rng.choice((b"out", b"out", b"other.o"))
        if rng.random() < 0.3:
            D2.insert(rng.randint(0, len(D2)), rng.choice(D1))        # a known one among the new ones: fine, listed once
        txt += second + b":" + b"".join(b" " + d for d in D2) + ws() + (eol if rng.random() < 0.9 else b"")
        cases.append(("concat", ("clang", "concat", eol == b"\r\n"), txt, (dedup([b"out", second]), dedup(D1 + D2))))

    results, crashes = parse_many(b, [c[2] for c in cases])
    for se, content in crashes:
        sig = util.san_signature(se) or "crash"
        ctx.violation("C15/sanitizer/" + sig, se[-2500:], {"content_hex": content.hex()})

    ctx.rule = ("names over {a,space,\\,#,$,:,%%,0xe9} of <=%d symbols, exhaustively, as target and as "
                "first/middle/last dependency, in %d layouts x LF/CRLF x {clang,gcc10} dialects; plus %d "
                "random name lists over printable ASCII + high bytes; plus rejected forms. "
                "distinct_nontrivial = distinct depfile texts whose names need escaping or whose layout "
                "spans several lines" % (maxsym, len(LAYOUTS), nrand))
    suspects = []
    for (kind, meta, content, expect), r in zip(cases, results):
        if r is None:
            ctx.inconclusive += 1
            continue
        ctx.evaluations += 1
        ctx.count("cases_" + kind.split("-")[0])
        if isinstance(expect, str):
            if r[0] != "err":
                ctx.violation("C15/accepted-invalid/" + kind, "depfile %r accepted as %r" % (content, r), {"content_hex": content.hex()})
            elif expect[4:] not in r[1]:
                ctx.violation("C15/wrong-error/" + kind, "depfile %r: %r" % (content, r), {"content_hex": content.hex()})
            else:
                ctx.count("rejected_ok")
            continue
        if any(c in content for c in b"\\$#") or content.count(b"\n") > 1:
            ctx.nontrivial(content)
        if r[0] == "ok" and r[1] == expect[0] and r[2] == expect[1]:
            ctx.count("roundtrip_ok")
            if kind == "rand" and len(ctx.samples) < 3 and b"\\" in content:
                ctx.sample({"depfile": util.show(content), "names": [util.show(x) for x in expect[0] + expect[1]]})
            continue
        suspects.append((kind, meta, content, expect, r))
    # ---- attribution pass: test each name of a failing case alone, so that a known split
    # byte cannot mask a different failure of the same case
    single = {}
    for kind, meta, content, expect, r in suspects:
        dialect = meta[0]
        te, de = DIALECTS[dialect]
        for nm in expect[0]:
            single[("t", dialect, nm)] = layout([nm], [b"x.h"], dialect, "oneline")
        for nm in expect[1]:
            single[("d", dialect, nm)] = layout([b"out.o"], [nm], dialect, "oneline")
    keys = list(single)
    sres, crashes2 = parse_many(b, [single[k] for k in keys]) if keys else ([], [])
    bad_names = {}
    grams = {}
    for k, r in zip(keys, sres):
        role, dialect, nm = k
        if ok_result(r, name_case(role, dialect, nm)[1]):
            continue
        bad_names[k] = r
        te, de = DIALECTS[dialect]
        for n in (1, 2, 3):
            for i in range(len(nm) - n + 1):
                g = b"a" + nm[i:i + n] + b"a"
                if in_domain(g, te if role == "t" else de):
                    grams[(role, dialect, nm[i:i + n])] = g
    # failures of this parser are local: find the minimal n-grams (n<=3) that fail on their own,
    # so that one known bad byte in a name cannot mask a different defect in the same name
    gk = list(grams)
    gres, _ = parse_many(b, [name_case(k[0], k[1], grams[k])[0] for k in gk]) if gk else ([], [])
    failing = {}
    for k, r in zip(gk, gres):
        ctx.count("ngrams_tested")
        if not ok_result(r, name_case(k[0], k[1], grams[k])[1]):
            failing[k] = r
    minimal = {k: r for k, r in failing.items()
               if not any(k2 != k and k2[0] == k[0] and k2[1] == k[1] and k2[2] in k[2] for k2 in failing)}
    for (role, dialect, g), r in sorted(minimal.items()):
        ctx.violation("C15/ngram/%s" % g.hex(),
                      "byte sequence %r inside a %s name (%s dialect): %r is read back as %r"
                      % (util.show(g), "target" if role == "t" else "dependency", dialect,
                         util.show(name_case(role, dialect, grams[(role, dialect, g)])[0]), r),
                      {"content_hex": name_case(role, dialect, grams[(role, dialect, g)])[0].hex()})
    for k, r in bad_names.items():
        role, dialect, nm = k
        if not any(k2[0] == role and k2[1] == dialect and k2[2] in nm for k2 in minimal):
            import hashlib
            c = name_case(role, dialect, nm)[0]
            ctx.violation("C15/name-mismatch/%s/%s" % (role, hashlib.sha1(nm).hexdigest()[:8]),
                          "name %r (%s dialect) written as %r is read back as %r" % (util.show(nm), dialect, util.show(c), r),
                          {"content_hex": c.hex()})
    # re-test the failing lists without the individually failing names
    retest = []
    for kind, meta, content, expect, r in suspects:
        dialect, lay, crlf = meta[0], meta[1], meta[2]
        T = [t for t in expect[0] if ("t", dialect, t) not in bad_names]
        D = [d for d in expect[1] if ("d", dialect, d) not in bad_names]
        if len(T) == len(expect[0]) and len(D) == len(expect[1]):
            ctx.violation("C15/list-mismatch/%s/%s" % (dialect, lay), "depfile %r: expected %r got %r" % (util.show(content), expect, r),
                          {"content_hex": content.hex()})
        elif T:
            retest.append((dialect, lay, layout(T, D, dialect, lay, b"\r\n" if crlf else b"\n"), (T, D)))
    if retest:
        rres, _ = parse_many(b, [x[2] for x in retest])
        for (dialect, lay, content, expect), r in zip(retest, rres):
            ctx.count("retested_without_known_bad_names")
            if not (r and r[0] == "ok" and r[1] == expect[0] and r[2] == expect[1]):
                ctx.violation("C15/list-mismatch/%s/%s" % (dialect, lay), "depfile %r: expected %r got %r" % (util.show(content), expect, r),
                              {"content_hex": content.hex()})
    through_the_binary(ctx, rng, 150 if ctx.tier == "quick" else 3000)
    ctx.counters["exhaustive_cases"] = nexh
    ctx.counters["suspect_cases"] = len(suspects)
    ctx.assumptions = ["encoder follows libcpp mkdeps.c munge() and clang DependencyFile.cpp PrintFilename()",
                       "names ending in '\\' or ':' or containing NUL/newline/CR/tab are outside the domain (no Makefile can spell them)",
                       "a literal backslash-colon where the dialect does not escape ':' is ambiguous and not generated"]


def through_the_binary(ctx, rng, n):
    """The names have to arrive where they are used, not only leave the parser intact: a statement with deps = gcc whose
    command drops a depfile in one of the dialects; the real (sanitised) binary reads it when the command finishes, records the
    names in the deps log, and `ninja -t deps` lists what it recorded.  Dependencies are also spelled the way compilers spell
    them when the include path has '.', '..' or doubled slashes in it ('./inc.h', 'sub/../inc.h', 'dir//x.h'): the name read back
    is the lexically equal canonical one.  Bytes that are known to cut a name in the parser itself (known findings) are left out."""
    from .. import e2e
    KNOWN_BAD = b"*;<>^`|"
    def one(k):
        r = random.Random(rng.randint(0, 2 ** 60) if False else (ctx.seed * 1000003 + k))
        dialect = r.choice(list(DIALECTS))
        te, de = DIALECTS[dialect]
        nd = r.choice((1, 2, 3, 5, 9))
        names = []
        while len(names) < nd:
            segs = []
            for _ in range(r.choice((1, 1, 2, 3))):
                L = r.choice((1, 2, 3, 6, 12))
                pool = b"abcXYZ019._-+" * 3 + b" #$%:\\" + bytes([0xc3, 0xa9, 0xff])
                sg = bytes(r.choice(pool) for _ in range(L))
                if sg in (b".", b"..") or not sg:
                    sg = b"d" + sg
                segs.append(sg)
            nm = b"/".join(segs)
            if not in_domain(nm, de) or any(c in nm for c in KNOWN_BAD) or b"\\$" in nm or nm in names or nm.startswith(b" ") or nm == b"in.c":
                continue
            # (a name may not end in a blank either: 'ninja -t deps' prints one name per line, a trailing blank would be invisible)
            if nm.endswith(b" "):
                continue
            names.append(nm)
        # how the compiler spells each of them
        spelled = []
        for nm in names:
            x = r.random()
            if x < 0.35:
                sp = b"./" + nm
            elif x < 0.5 and b"/" in nm:
                sp = nm.replace(b"/", b"//", 1)
            elif x < 0.65:
                sp = b"sub/../" + nm
            elif x < 0.75 and b"/" in nm:
                sp = nm.replace(b"/", b"/./", 1)
            else:
                sp = nm
            spelled.append(sp)
        if k % 3 == 0:
            # (every third list goes through a plain 'depfile =' statement, see below: its first name is a generated header in a
            # directory of its own, spelled in each of the ways in turn)
            nm0 = (b"inc%d/gen.h" % k) if (k // 3) % 2 else (b"g%d/inc/gen_%d.h" % (k, k))
            names[0] = nm0
            spelled[0] = [b"./" + nm0, nm0.replace(b"/", b"//", 1), b"sub/../" + nm0, nm0.replace(b"/", b"/./", 1), nm0][(k // 3) % 5]
        lay = r.choice(LAYOUTS)
        content = layout([b"out.o"], spelled, dialect, lay, r.choice((b"\n", b"\r\n")))
        t = e2e.Tree()
        try:
            with open(os.path.join(t.d, "pre.d"), "wb") as f:
                f.write(content)
            with open(os.path.join(t.d, "in.c"), "w") as f:
                f.write("// in\n")
            with open(os.path.join(t.d, "build.ninja"), "w") as f:
                f.write("rule cc\n  command = cp pre.d out.o.d && cp in.c out.o\n  deps = gcc\n  depfile = out.o.d\nbuild out.o: cc in.c\n")
            # plain 'depfile =' statements (no deps log) read the file at the start of every run.  What a name was read back as
            # shows in what ninja does: one of the dependencies is itself made by a statement; when its source changes, the name
            # in the depfile - however it is spelled there - has to be that statement's output, and the consumer runs again
            import re as _re
            if k % 3 == 0 and _re.fullmatch(rb"[A-Za-z0-9][A-Za-z0-9._+-]*(/[A-Za-z0-9][A-Za-z0-9._+-]*)*", names[0]):
                gname = names[0].decode("latin-1")
                os.makedirs(os.path.join(t.d, os.path.dirname(gname) or "."), exist_ok=True)
                with open(os.path.join(t.d, "gen.src"), "w") as f:
                    f.write("1\n")
                with open(os.path.join(t.d, "build.ninja"), "w") as f:
                    f.write("rule cc\n  command = cp pre.d out.o.d && cat in.c %s > out.o\n  depfile = out.o.d\n"
                            "rule gen\n  command = cp gen.src %s\nbuild %s: gen gen.src\nbuild out.o: cc in.c || %s\n" % (gname, gname, gname, gname))
                rc, so, se = t.run(["out.o"])
                txt = (so + se).decode("latin-1")
                rep = {"content_hex": content.hex(), "through": "plain depfile, generated dependency"}
                if util.san_signature(txt):
                    return ("C15/through-the-binary/sanitizer/" + util.san_signature(txt), "depfile %r: %s" % (util.show(content), txt[-800:]), rep)
                if rc != 0:
                    return ("C15/through-the-binary/build-failed/%s/%s" % (dialect, lay), "depfile %r: %s" % (util.show(content), txt[-300:]), rep)
                t.write("gen.src", "2\n")
                rc, so, se = t.run(["out.o"])
                got = t.read("out.o") or b""
                if rc != 0 or not got.endswith(b"2\n"):
                    return ("C15/through-the-binary/plain-depfile-name-not-the-generated-file/%s" % dialect,
                            "depfile %r names %r, which is the output %r of another statement; after that statement's source changed ninja out.o gave rc=%s and out.o ends %r: %s"
                            % (util.show(content), util.show(spelled[0]), gname, rc, got[-8:], (so + se).decode("latin-1")[-300:]), rep)
                return ("ok-plain", spelled[0] != names[0], 1)
            rc, so, se = t.run(["out.o"])
            rep = {"content_hex": content.hex(), "through": "ninja -t deps"}
            txt = (so + se).decode("latin-1")
            sig = util.san_signature(txt)
            if sig:
                return ("C15/through-the-binary/sanitizer/" + sig, "depfile %r: %s" % (util.show(content), txt[-800:]), rep)
            if rc != 0:
                return ("C15/through-the-binary/build-failed/%s/%s" % (dialect, lay), "depfile %r: %s" % (util.show(content), txt[-300:]), rep)
            rc, so, se = t.run(["-t", "deps", "out.o"])
            got = [ln[4:] for ln in so.split(b"\n") if ln.startswith(b"    ")]
            if got != names:
                return ("C15/through-the-binary/names-differ/%s" % dialect,
                        "depfile %r: recorded %r, expected %r" % (util.show(content), [util.show(x) for x in got], [util.show(x) for x in names]), rep)
            rc, so, se = t.run(["out.o"])
            if b"no work to do" not in so:
                # the names do not exist as files: recorded dependencies that are missing make the statement dirty - that is the
                # documented behaviour, so nothing is judged here beyond the names themselves
                pass
            return ("ok", any(a != b_ for a, b_ in zip(names, spelled)), len(names))
        finally:
            t.close()
    res = e2e.parallel(one, list(range(n)))
    for r_ in res:
        if r_ is None:
            ctx.inconclusive += 1
            continue
        ctx.evaluations += 1
        if r_[0] == "ok-plain":
            ctx.count("through_the_binary_plain_depfile_generated_dependency_ok")
            if r_[1]:
                ctx.count("through_the_binary_plain_depfile_respelled")
        elif r_[0] == "ok":
            ctx.count("through_the_binary_lists_ok")
            ctx.count("through_the_binary_names", r_[2])
            if r_[1]:
                ctx.count("through_the_binary_lists_with_respelled_names")
        else:
            ctx.violation(r_[0], r_[1], r_[2])


def replay(ctx, path):
    import json
    j = json.load(open(path))
    content = bytes.fromhex(j["replay"]["content_hex"])
    res, crashes = parse_many(probe(), [content])
    print("content:", util.show(content))
    print("parsed :", res[0], crashes)
    ctx.evaluations = 1
    ctx.distinct_extra = 2
