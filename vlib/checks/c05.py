"""C05 - failures are contained, reported, and never recorded as success.
nsim: fault plans (every kind of exit code but 130, outputs touched or not) x -k x -j x all completion orders on small
graphs; trace + log monitors; the retry invocation is run from the end state of the explored schedules."""
import copy, random
from .. import sched, simlib, gen, model

MANIFEST = dict(
    engine="nsim+e2e", category="fault_enumeration",
    technique="runtime monitoring + fault injection: enumerated fault plans x exhaustive completion orders on small graphs; trace "
              "monitors, independent log parsers, retry invocation from each explored end state",
    text="(Round 10: the missing source may be needed only by a validation (of a validation) of what was asked for.) For small graphs, fault plans (1-3 failing statements, exit codes {1,2,3,127,255}, outputs touched or untouched) are combined "
         "with -k in {1,2,3,0}, -j in {1,2,3,8} and ALL completion orders (cap per graph). Monitors: no statement with a failed "
         "(transitive, discovered or dyndep) prerequisite ever STARTs; the exit status is non-zero and is the status of a failed "
         "command; nothing starts once k failures were seen, while commands already running are waited for (never killed) and "
         "recorded; while budget is left every statement of R(T) without a failed prerequisite does start; .ninja_log/.ninja_deps "
         "(independent parsers) gain no record for a failed statement and do gain one - with the command's start time - for every "
         "successful one; the next invocation (no faults, -k 0), run from the end state of the explored schedule, STARTs every "
         "statement that failed. A missing declared source is reported before any command runs.",
    note="Trusted: independent log parsers (vlib/logmodel.py), reference model for R(T). Exit code 130 is ninja's interrupt status "
         "and is excluded by the property. Known finding: failed command that re-created a deleted output is not retried.",
    ref="DESIGN.md §5 C05")


def setup():
    simlib.nsim_bin()
    from .. import e2e
    e2e.ninja_bin()
    e2e.vtool_bin()


def run(ctx):
    quick = ctx.tier == "quick"
    rng = random.Random(ctx.seed * 31337 + 5)
    feat = dict(chain=0.6, order_only=0.4, deps=0.5, restat=0.15, pools=0.3, vals=0.2)
    items = sched.small_scenarios(ctx, "C05", 5000 if quick else 25000, rng, size=(2, 6), cap=150 if quick else 400, feat=feat,
                                  faults=True, with_history=0.35)
    # the same under a jobserver (ninja as a client of make -jN -k: few tokens, possibly none beyond its own slot, a competing
    # client): what does not depend on a failed command is still started, whoever held which slot when it failed
    items += sched.small_scenarios(ctx, "C05", 800 if quick else 5000, rng, size=(2, 6), cap=80 if quick else 200, feat=feat,
                                   faults=True, with_history=0.2, jobserver=1.0, salt=7)
    retry = {"op": "build", "targets": None, "j": 2, "k": 0, "sched": {"mode": "prng", "seed": 5}}
    for scn, info in items:
        ex = scn["steps"][info["explore_step"]]
        ex["sched"]["then_cap"] = 12
        ex["then"] = [dict(retry, targets=ex["targets"])]
    items += missing_source_family(ctx, rng, 300 if quick else 2500)
    sched.run_explore(ctx, "C05", items)
    # real processes: exit codes and death by signal through the real subprocess layer
    from .. import e2e
    seeds = [rng.randint(1, 10 ** 9) for _ in range(120 if quick else 800)]
    e2e.parallel(lambda sd: e2e.c05_case(ctx, sd), seeds)
    ctx.rule = ("graphs of 2..6 statements x fault plans x -k x -j x all completion orders (cap %d per graph); retry invocation for the "
                "first 12 schedules of each graph; missing-source family; real-binary runs in which commands exit with codes 1..255 or are killed by a signal; distinct_nontrivial = distinct (scenario, interleaving) with "
                ">= 2 commands" % (150 if quick else 400))


def missing_source_family(ctx, rng, n):
    out = []
    for kx in range(n):
        g = gen.Gen(random.Random(rng.randint(0, 2 ** 60)), size=rng.randint(2, 6), feat=dict(chain=0.6, deps=0.4))
        sc = g.scenario("C05-%d-8-%d" % (ctx.seed, kx))
        cmds = [s for s in sc["stmts"] if s["kind"] == "cmd" and s["ins"] and s["ins"][0] in sc["sources"]]
        if not cmds:
            continue
        victim = rng.choice(cmds)
        # which declared source goes missing: the statement's first input, or a source of its own declared as a further explicit,
        # an implicit or an order-only input, or one that stands behind a phony alias the statement names (in any of these kinds)
        how = rng.choice(("primary", "primary", "explicit", "implicit", "order-only", "order-only", "alias"))
        gone = victim["ins"][0]
        if how != "primary":
            gone = "extra%d.txt" % kx
            sc["sources"][gone] = "// a further source\n"
            slot = {"explicit": "ins", "implicit": "iins", "order-only": "oins"}.get(how) or rng.choice(("ins", "iins", "oins", "oins"))
            if how == "alias":
                sc["stmts"].insert(0, simlib.St("grp%d" % kx, ["grp%d" % kx], ins=[gone], kind="phony"))
                victim[slot].append("grp%d" % kx)
                how = "alias/" + slot
            else:
                victim[slot].append(gone)
        # ... or the statement that needs it is in the build only as a validation of what was asked for (possibly of a validation)
        req = None
        if rng.random() < 0.25:
            via = victim["outs"][0]
            for lv in range(rng.randint(1, 2)):
                sc["sources"]["req%d_%d.c" % (kx, lv)] = "// asks for a validation\n"
                req = simlib.St("req%d_%d" % (kx, lv), ["o/req%d_%d.o" % (kx, lv)], ins=["req%d_%d.c" % (kx, lv)], vals=[via])
                sc["stmts"].append(req)
                via = req["outs"][0]
            how += "/behind-validation"
        steps, scs = [], []
        if rng.random() < 0.5:
            b = g.build_step(sc)
            b["targets"] = []
            steps.append(b)
            scs.append(copy.deepcopy(sc))
        steps.append({"op": "rm", "path": gone})
        scs.append(copy.deepcopy(sc))
        ex = {"op": "build", "targets": ([victim["outs"][0]] if req is None else [req["outs"][0]]) + ([] if rng.random() < 0.5 else [rng.choice(sc["stmts"])["outs"][0]]),
              "j": rng.choice((1, 3)), "k": rng.choice((1, 0)),
              "sched": {"mode": "all", "cap": 5, "keep_world": True}, "_missing_source": gone, "_missing_how": how, "_missing_victim": victim["outs"][0]}
        steps.append(ex)
        scs.append(copy.deepcopy(sc))
        scn = simlib.scenario_json(sc, steps)
        out.append((scn, {"scs": scs, "explore_step": len(steps) - 1, "missing_source": gone}))
    return out


def replay(ctx, path):
    sched.replay(ctx, "C05", path)
