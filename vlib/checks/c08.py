"""C08 - the build log survives torn writes, restarts and compaction.
Engine: nprobe buildlog (real BuildLog under ASan/UBSan) + e2e (real binary: -t recompact / -t restat /
IsPathDead).  Oracle: independent fold over the bytes that are on disk (vlib/logmodel.py)."""

MANIFEST = dict(
    engine="nprobe+e2e", category="fault_enumeration",
    technique="runtime monitoring + fault injection: real BuildLog driven through sessions, file cut at every byte offset, "
              "continuations (append/reload/recompact/restat); oracle = independent fold of the on-disk bytes",
    text="(Round 10, real binary: a generator statement whose command ends with 'ninja -t restat' / '-t recompact' on its own build directory, running alone in the middle of a session; every command that ran has its new record on disk afterwards.) Histories of RecordCommand sessions over adversarial output names are run through the real BuildLog; the resulting "
         "file is cut at EVERY byte offset (small files) or around every record and 256KiB-buffer boundary (large files) and "
         "each prefix is loaded, appended to in one or two further sessions and reloaded. Loaded entries must equal an "
         "independent last-wins fold of the complete lines; after tear+append the merged line may only produce an entry whose "
         "hash was never recorded for that output, and no later record may be lost. Recompaction (threshold-triggered and "
         "explicit) must keep exactly the latest record of every live output; Restat must change only mtimes; unsupported "
         "versions are discarded with a warning. The real binary's IsPathDead / -t recompact / -t restat paths run end to end.",
    note="Trusted: vlib/logmodel.py parse_build_log (written from the documented format). Known finding: a record line "
         "longer than the 256 KiB line buffer is dropped on load (pinned by BuildLogTest.VeryLongInputLine).",
    ref="DESIGN.md §5 C08")

import random
from .. import build, util, core, probe as P
from ..logmodel import parse_build_log, build_log_records

SRCS = ["nprobe.cc", "probe_buildlog.cc"]
BUF = 256 << 10


def probe_bin():
    return build.get_bin("nprobe-buildlog", SRCS)


def setup():
    probe_bin()


def hx(b):
    return b.hex() if b else "-"


def parse_out(lines):
    ev, dump = [], None
    for ln in lines:
        f = ln.split(" ")
        if f[0] == "E":
            if dump is None:
                dump = {}
            dump[bytes.fromhex(f[1]) if f[1] != "-" else b""] = (int(f[2], 16), int(f[3]), int(f[4]), int(f[5]))
        elif f[0] == "ENDDUMP":
            ev.append(("DUMP", dump or {}))
            dump = None
        elif f[0] == "FILE":
            ev.append(("FILE", None if f[1] == "MISSING" else (b"" if f[1] == "-" else bytes.fromhex(f[1]))))
        elif f[0] == "LOAD":
            ev.append(("LOAD", f[1], "" if f[2] == "-" else bytes.fromhex(f[2]).decode("latin-1")))
        elif f[0] == "HASH":
            ev.append(("HASH", int(f[1], 16)))
        elif f[0] in ("REC", "OPEN", "RECOMPACT", "RESTAT"):
            ev.append((f[0], f[1] == "1"))
        elif f[0] == "KEYMISMATCH":
            ev.append(("KEYMISMATCH", f[1]))
    return ev


def gen_names(rng, n):
    base = [b"out", b"out1", b"out12", b"ou", b"o", b"dir/a.o", b"dir/a.o.d", b"a b.o", b"x#y", b"\xc3\xa9.o",
            b"1", b"12", b"7", b"abc", b"abc1", b"f", b"ff", b"e2", b"# ninja log v7", b"a=b", b"deadbeef"]
    rng.shuffle(base)
    names = base[:n]
    while len(names) < n:
        names.append(bytes(rng.choice(b"abcxyz019/._- ") for _ in range(rng.randint(1, 12))).strip() or b"q")
    if rng.random() < 0.35:
        # a deep path: a record of several hundred to several thousand bytes (PATH_MAX is 4096; relative names of nested
        # directories get there) - well inside the reader's 256 KiB line buffer, beyond any small fixed buffer
        L = rng.choice((250, 500, 900, 990, 1010, 1024, 1100, 2000, 4000, 9000))
        names[rng.randrange(len(names))] = b"deep/" + b"/".join(bytes(rng.choice(b"abcdefgh") for _ in range(20)) for _ in range(L // 21)) + b".o"
    return list(dict.fromkeys(names))


def gen_session(rng, names, nrec, multi=True):
    recs = []
    for _ in range(nrec):
        k = rng.choice((1, 1, 1, 2, 3)) if multi else 1
        outs = rng.sample(names, min(k, len(names)))
        cmd = bytes(rng.choice(b"abcdefgh -o$") for _ in range(rng.randint(1, 20)))
        recs.append((rng.randint(0, 99999), rng.randint(0, 99999), rng.choice((0, 1, 7, rng.randint(1, 2 ** 40), 2 ** 62 + 5)),
                     cmd, outs))
    return recs


def sess_script(recs, dead=()):
    s = "new\nload f\nopen f %s\n" % (",".join(hx(d) for d in dead) or "-")
    for st, en, mt, cmd, outs in recs:
        s += "rec %d %d %d %s %s\n" % (st, en, mt, hx(cmd), ",".join(hx(o) for o in outs))
    return s + "close\n"


def run(ctx):
    b = probe_bin()
    rng = random.Random(ctx.seed)
    quick = ctx.tier == "quick"
    # ------------------------------------------------------------ round 1: histories
    hist = {}
    cases = []
    nh = 80 if quick else 300
    for h in range(nh):
        names = gen_names(rng, rng.randint(3, 9))
        sessions = [gen_session(rng, names, rng.randint(1, 6 if quick else 12)) for _ in range(rng.randint(1, 4))]
        sc = "rm f\n"
        for s in sessions:
            sc += "read f\nnew\nload f\ndump\n" + sess_script(s)[len("new\nload f\n"):]
        sc += "read f\nnew\nload f\ndump\n"
        hist["H%d" % h] = (names, sessions)
        cases.append(("H%d" % h, sc))
    # big histories: many re-records of few outputs (recompaction thresholds), and >256KiB files
    for h in range(8 if quick else 20):
        names = gen_names(rng, rng.randint(2, 6))
        nrec = rng.choice((101, 110, 140, 320))
        sessions = [gen_session(rng, names, nrec // 2, multi=False), gen_session(rng, names, nrec - nrec // 2, multi=False)]
        dead = rng.sample(names, rng.randint(0, len(names) - 1))
        sc = "rm f\n" + sess_script(sessions[0]) + sess_script(sessions[1])
        sc += "read f\nnew\nload f\ndump\nopen f %s\nclose\nread f\nnew\nload f\ndump\n" % (",".join(hx(d) for d in dead) or "-")
        extra = gen_session(rng, names, 3)
        sc += sess_script(extra) + "read f\nnew\nload f\ndump\n"
        hist["R%d" % h] = (names, sessions, dead, extra)
        cases.append(("R%d" % h, sc))
    # explicit recompact + restat
    for h in range(16 if quick else 60):
        names = gen_names(rng, rng.randint(2, 8))
        sessions = [gen_session(rng, names, rng.randint(2, 15))]
        dead = rng.sample(names, rng.randint(0, len(names)))
        sel = rng.sample(names, rng.randint(0, min(3, len(names))))
        mts = {n: rng.randint(1, 2 ** 40) for n in names if rng.random() < 0.8}
        sc = "rm f\n" + sess_script(sessions[0])
        sc += "read f\nnew\nload f\nrestat f %s %s\nread f\nnew\nload f\ndump\n" % (
            ",".join("%s:%d" % (hx(n), m) for n, m in mts.items()) or "-", ",".join(hx(x) for x in sel) or "-")
        sc += "recompact f %s\nread f\nnew\nload f\ndump\n" % (",".join(hx(d) for d in dead) or "-")
        hist["S%d" % h] = (names, sessions, dead, sel, mts)
        cases.append(("S%d" % h, sc))
    # unsupported versions
    vers = [b"# ninja log v4\n", b"# ninja log v5\n", b"# ninja log v6\n", b"# ninja log v8\n", b"# ninja log v70\n",
            b"garbage\n", b"# ninja log\n", b"1\t2\t3\tout\tabc\n", b"\n", b"# ninja log v-7\n", b"# ninja log v0\n"]
    for k, hd in enumerate(vers):
        names = [b"out", b"p"]
        rec = gen_session(rng, names, 2)
        sc = "write f %s\nnew\nload f\ndump\nread f\nopen f -\n" % hx(hd + b"5\t6\t7\tout\tabc\n")
        sc += "".join("rec %d %d %d %s %s\n" % (st, en, mt, hx(cmd), ",".join(hx(o) for o in outs)) for st, en, mt, cmd, outs in rec)
        sc += "close\nread f\nnew\nload f\ndump\n"
        cases.append(("V%d" % k, sc))
    # long lines around the line-buffer size
    longs = [BUF - 40, BUF - 22, BUF + 10] if quick else [1000, 70000, BUF - 100, BUF - 40, BUF - 22, BUF - 21, BUF + 1, BUF + 10, 3 * BUF]
    for k, L in enumerate(longs):
        nm = (b"L%d_" % k) + b"x" * (L - 4)
        rec = [(1, 2, 3, b"cc", [b"before"]), (4, 5, 6, b"ld", [nm]), (7, 8, 9, b"ar", [b"after"])]
        cases.append(("L%d" % k, "rm f\n" + sess_script(rec) + "read f\nnew\nload f\ndump\n"))
    outs, crashes, tos = P.run_cases(b, "buildlog", cases)
    report_crashes(ctx, crashes, tos)
    base_files = {}
    for cid, _ in cases:
        if cid not in outs:
            continue
        ev = parse_out(outs[cid])
        ctx.evaluations += 1
        judge_sequence(ctx, cid, ev, hist.get(cid))
        files = [e[1] for e in ev if e[0] == "FILE" and e[1]]
        if cid[0] == "H" and files:
            base_files[cid] = files[-1]
        if cid[0] == "R" and files:
            base_files[cid] = files[0]
    # ------------------------------------------------------------ round 2: tears
    tcases, tmeta = [], {}
    for cid, B in sorted(base_files.items()):
        limit = 1500 if quick else 6000
        if len(B) <= limit:
            offs = list(range(len(B) + 1))
            ctx.count("files_cut_at_every_offset")
        else:
            offs = set([0, len(B)])
            pos = 0
            for ln in B.split(b"\n"):
                for d in (-2, -1, 0, 1, 2, len(ln) // 2):
                    offs.add(min(max(pos + d, 0), len(B)))
                pos += len(ln) + 1
            offs = sorted(offs)
            if len(offs) > (800 if quick else 3000):
                offs = sorted(rng.sample(offs, 800 if quick else 3000))
        names = hist[cid][0]
        for c in offs:
            kind = (c + int(cid[1:])) % 4
            sc = "write f %s\nnew\nload f\ndump\nread f\n" % hx(B[:c])
            app1 = gen_session(rng, names + [b"fresh"], rng.randint(1, 3)) if kind >= 1 else None
            app2 = gen_session(rng, names, rng.randint(1, 2)) if kind >= 2 else None
            if app1:
                sc += "hash %s\n" % hx(app1[0][3])
                sc += "open f -\n" + sess_script(app1).split("\n", 3)[3] + "read f\nnew\nload f\ndump\n"
            if app2:
                sc += "open f -\n" + sess_script(app2).split("\n", 3)[3] + "read f\nnew\nload f\ndump\n"
            if kind == 3:
                sc += "recompact f -\nread f\nnew\nload f\ndump\n"
            tid = "T%s_%d" % (cid, c)
            tcases.append((tid, sc))
            tmeta[tid] = (B, c, kind, app1[0] if app1 else None)
    outs2, crashes2, tos2 = P.run_cases(b, "buildlog", tcases)
    report_crashes(ctx, crashes2, tos2)
    for tid, _ in tcases:
        if tid not in outs2:
            continue
        ctx.evaluations += 1
        judge_tear(ctx, tid, parse_out(outs2[tid]), *tmeta[tid])
    e2e_part(ctx)
    ctx.rule = ("histories of RecordCommand sessions over adversarial names; every byte offset of files <= %d bytes, boundary "
                "offsets of larger ones; continuations none/append/append+append/append+append+recompact; recompaction, restat, "
                "version and long-line families. distinct_nontrivial = distinct (history, cut offset) pairs whose cut falls "
                "strictly inside a record line (a torn tail exists)" % (1500 if quick else 6000))
    ctx.assumptions = ["output names contain no tab/newline (the format cannot express them)",
                       "the BuildLogUser handed to the probe decides liveness; NinjaMain::IsPathDead itself is exercised by the e2e part"]
    ctx.canary(canary_fold(), "fold oracle")
    ctx.canary(canary_merged(), "merged-line oracle")


def report_crashes(ctx, crashes, tos):
    for cid, se in crashes.items():
        ctx.violation("C08/sanitizer/" + (util.san_signature(se) or "crash"), "case %s: %s" % (cid, se[-2000:]), {"case": cid})
    for cid in tos:
        ctx.violation("C08/hang/" + cid[:2], "case %s timed out" % cid, {"case": cid})


def expect_load(ctx, cid, data, load_ev, dump, file_after):
    """Judges one load of bytes `data` (None = file missing). Returns the entries that must now be in memory."""
    if data is None:
        if load_ev[1] != "notfound":
            ctx.violation("C08/load-status/missing-file", "%s: load of missing file gave %r" % (cid, load_ev))
        return {}
    if load_ev[1] == "error":
        ctx.violation("C08/load-error", "%s: loading %d bytes failed: %r" % (cid, len(data), load_ev), {"data_hex": data.hex()[:4000]})
        return {}
    if len(data) == 0:
        want = {}
    else:
        ver, ents = parse_build_log(data)
        if ver != 7:
            ctx.count("discarded_logs")
            if load_ev[1] != "notfound" or not load_ev[2]:
                ctx.violation("C08/unsupported-version-not-discarded", "%s: header %r: %r" % (cid, data[:20], load_ev), {"data_hex": data.hex()[:400]})
            if file_after is not None:
                ctx.violation("C08/unsupported-version-file-kept", "%s: header %r file still there" % (cid, data[:20]))
            if dump:
                ctx.violation("C08/unsupported-version-entries", "%s: entries loaded from discarded log" % cid)
            return None
        want = ents
    if load_ev[1] != "ok":
        ctx.violation("C08/load-status", "%s: %r for a supported log" % (cid, load_ev), {"data_hex": data.hex()[:4000]})
    return want


def long_line_names(data):
    """names of complete records whose line does not fit the 256 KiB line buffer"""
    r = set()
    for ln in data.split(b"\n")[:-1]:
        if len(ln) + 1 > BUF:
            f = ln.split(b"\t")
            if len(f) == 5:
                r.add(f[3])
    return r


def cmp_exact(ctx, cid, what, dump, want, data=None):
    if dump == want:
        ctx.count("exact_fold_matches")
        return True
    diff = [k for k in set(dump) | set(want) if dump.get(k) != want.get(k)]
    if data is not None:
        ll = long_line_names(data)
        if ll and all(k in ll and k not in dump for k in diff):
            ctx.violation("C08/record-dropped/line-longer-than-256KiB-buffer",
                          "%s: record of a %d-byte output name is not loaded" % (cid, len(diff[0])))
            return True
    k = diff[0]
    kind = "lost" if k not in dump else "phantom" if k not in want else "stale"
    ctx.violation("C08/%s/%s" % (what, kind), "%s: output %r loaded=%r expected=%r (%d differing)" %
                  (cid, util.show(k)[:80], dump.get(k), want.get(k), len(diff)),
                  {"case": cid, "data_hex": data.hex()[:20000] if data else None})
    return False


def judge_sequence(ctx, cid, ev, meta):
    """Round-1 cases: every (FILE, LOAD, DUMP) triple must satisfy dump == fold(file)."""
    last_file = "unset"
    i = 0
    mem = None
    while i < len(ev):
        e = ev[i]
        if e[0] in ("REC", "OPEN", "RECOMPACT", "RESTAT") and not e[1]:
            ctx.violation("C08/op-failed/" + e[0], "%s: %s returned false" % (cid, e[0]))
        if e[0] == "KEYMISMATCH":
            ctx.violation("C08/key-mismatch", "%s: map key differs from entry.output" % cid)
        if e[0] == "FILE":
            last_file = e[1]
        if e[0] == "LOAD":
            dump = ev[i + 1][1] if i + 1 < len(ev) and ev[i + 1][0] == "DUMP" else None
            if last_file != "unset" and dump is not None:
                nxt = next((x[1] for x in ev[i + 1:] if x[0] == "FILE"), "unset")
                want = expect_load(ctx, cid, last_file, e, dump, None if nxt == "unset" else nxt)
                if want is not None:
                    cmp_exact(ctx, cid, "session-fold", dump, want, last_file)
                    ctx.count("loads_judged")
                mem = dump
        i += 1
    if cid[0] == "R" and meta:
        judge_recompaction(ctx, cid, ev, meta)
    if cid[0] == "S" and meta:
        judge_restat(ctx, cid, ev, meta)
    if cid[0] == "V":
        files = [e[1] for e in ev if e[0] == "FILE"]
        if len(files) >= 2 and files[-1] is not None and parse_build_log(files[-1])[0] != 7:
            ctx.violation("C08/new-log-bad-header", "%s: %r" % (cid, files[-1][:30]))
    if cid[0] == "L":
        ctx.nontrivial(cid)


def judge_recompaction(ctx, cid, ev, meta):
    names, sessions, dead, extra = meta
    files = [e[1] for e in ev if e[0] == "FILE"]
    dumps = [e[1] for e in ev if e[0] == "DUMP"]
    if len(files) < 3 or len(dumps) < 3:
        ctx.inconclusive += 1
        return
    before = parse_build_log(files[0])[1]
    nrec, nuniq = len(build_log_records(files[0])), len(before)
    crossed = nrec > 100 and nrec > 3 * nuniq
    after_file = files[1]
    shrunk = len(build_log_records(after_file)) < nrec
    ctx.count("recompaction_threshold_crossed" if crossed else "recompaction_threshold_not_crossed")
    if shrunk:
        ctx.count("recompactions_observed")
        ctx.nontrivial(("recompact", cid))
        want = {k: v for k, v in before.items() if k not in dead}
        cmp_exact(ctx, cid, "recompaction", dumps[1], want, after_file)
        if len(build_log_records(after_file)) != len(want):
            ctx.violation("C08/recompaction/file-not-compact", "%s: %d records for %d live outputs" %
                          (cid, len(build_log_records(after_file)), len(want)))
    else:
        cmp_exact(ctx, cid, "no-recompaction", dumps[1], before, after_file)


def judge_restat(ctx, cid, ev, meta):
    names, sessions, dead, sel, mts = meta
    files = [e[1] for e in ev if e[0] == "FILE"]
    dumps = [e[1] for e in ev if e[0] == "DUMP"]
    if len(files) < 3 or len(dumps) < 2:
        ctx.inconclusive += 1
        return
    before = parse_build_log(files[0])[1]
    want = {}
    for k, (h, st, en, mt) in before.items():
        if not sel or k in sel:
            mt = mts.get(k, 0)
        want[k] = (h, st, en, mt)
    if cmp_exact(ctx, cid, "restat", dumps[0], want, files[1]):
        ctx.count("restat_ok")
        ctx.nontrivial(("restat", cid, tuple(sel)))
    want2 = {k: v for k, v in want.items() if k not in dead}
    cmp_exact(ctx, cid, "explicit-recompact", dumps[1], want2, files[2])


def judge_tear(ctx, tid, ev, B, c, kind, first_app=None):
    P_ = B[:c]
    loads = [e for e in ev if e[0] == "LOAD"]
    dumps = [e[1] for e in ev if e[0] == "DUMP"]
    files = [e[1] for e in ev if e[0] == "FILE"]
    for e in ev:
        if e[0] in ("REC", "OPEN", "RECOMPACT") and not e[1]:
            # recompact of a discarded (missing) file legitimately fails in ReplaceContent? judge below
            if e[0] != "RECOMPACT":
                ctx.violation("C08/op-failed/" + e[0], "%s: %s returned false" % (tid, e[0]))
    if not loads or not dumps or not files:
        ctx.inconclusive += 1
        return
    want = expect_load(ctx, tid, P_, loads[0], dumps[0], files[0])
    tail = P_.rsplit(b"\n", 1)[-1] if b"\n" in P_ else P_
    discarded = want is None
    if not discarded:
        cmp_exact(ctx, tid, "torn-prefix", dumps[0], want, P_)
        if tail and b"\n" in P_:
            ctx.nontrivial((tid.split("_")[0], c))
    if kind == 0:
        return
    # after the appends: every later (FILE, DUMP) pair
    merged_idx = None if discarded or not tail else P_.count(b"\n")
    h1 = next((e[1] for e in ev if e[0] == "HASH"), None)
    if merged_idx == 0:
        # the torn tail is the header itself ("# ninja log v7" without its newline): the first appended
        # record lands on the header line, the version number reads as 7<digits> and the whole log is
        # discarded at the next load.  Everything then looks out of date - allowed by the property.
        ctx.count("header_merged_cases")
        return
    ever = {}
    for nm, h, *_ in build_log_records(B):
        ever.setdefault(nm, set()).add(h)
    # the record whose line the tear falls into, as it stands complete in the untorn file
    torn_rec = None
    if tail:
        ls = B.rfind(b"\n", 0, c) + 1
        le = B.find(b"\n", c)
        if le > ls:
            rr = build_log_records(B[ls:le + 1])
            torn_rec = rr[0] if rr else None
    for k in range(1, min(len(files), len(dumps))):
        F = files[k]
        if F is None:
            ctx.violation("C08/log-missing-after-session", "%s: no log file after a write session" % tid)
            return
        lines = F.split(b"\n")
        if merged_idx is not None and merged_idx < len(lines) - 1 and k <= (2 if kind < 3 else 2):
            wf = [ln for i, ln in enumerate(lines[:-1]) if i != merged_idx]
        else:
            wf = lines[:-1]
        if kind == 3 and k == 3:
            # after explicit recompaction the file holds exactly what was in memory: judge exactly
            ver, ents = parse_build_log(F)
            cmp_exact(ctx, tid, "tear-recompact", dumps[k], ents, F)
            continue
        ver, expected = parse_build_log(b"\n".join(wf) + b"\n") if wf else (7, {})
        for nm, h, *_ in build_log_records(b"\n".join(wf) + b"\n"):
            ever.setdefault(nm, set()).add(h)
        got = dumps[k]
        if merged_idx is None:
            cmp_exact(ctx, tid, "tear-append-clean", got, expected, F)
            continue
        ctx.count("merged_line_cases")
        for o in set(got) | set(expected):
            if got.get(o) == expected.get(o):
                continue
            if o in expected and o not in got:
                ctx.violation("C08/tear-append/lost", "%s: record of %r lost after tear at %d + append" % (tid, util.show(o), c),
                              {"file_hex": F.hex()[:8000]})
            elif (first_app is not None and o == first_app[4][0] and got[o][0] == h1 and got[o][3] == first_app[2]):
                # the merged line is the first appended record with a damaged start/end time: that
                # record was genuinely completed in this session, so (hash, mtime) are true
                ctx.count("merged_line_is_genuine_new_record")
            elif torn_rec is not None and o == torn_rec[0] and got[o] == (torn_rec[1], torn_rec[2], torn_rec[3], torn_rec[4]):
                # the digits glued on happen to be exactly the ones the tear cut off: the merged line *is* the record that was
                # being written when the write was torn - true in every field (seen once in ~10^5 cuts)
                ctx.count("merged_line_reconstitutes_the_torn_record")
            elif got[o][0] in ever.get(o, ()):
                ctx.violation("C08/tear-append/merged-line-looks-valid",
                              "%s: after tear at %d + append, %r has (hash,mtime)=%r but complete records say %r" %
                              (tid, c, util.show(o), got[o], expected.get(o)), {"file_hex": F.hex()[:8000]})
            else:
                ctx.count("merged_line_harmless_entries")
    if len(ctx.samples) < 2 and tail and kind >= 1:
        ctx.sample({"case": tid, "cut_at": c, "torn_tail": util.show(tail)[:60], "continuation": kind})


# ---------------------------------------------------------------------------------- canaries
def canary_fold():
    data = b"# ninja log v7\n1\t2\t3\tout\tabc\n4\t5\t6\tout\tdef\n7\t8\t9\tx"
    ver, e = parse_build_log(data)
    return ver == 7 and e == {b"out": (0xdef, 4, 5, 6)}


def canary_merged():
    # a first-wins loader must be flagged by cmp_exact
    c = core.Ctx("C08", "quick", 0, "fault_enumeration")
    cmp_exact(c, "canary", "x", {b"out": (0xabc, 1, 2, 3)}, {b"out": (0xdef, 4, 5, 6)})
    return len(c.violations) == 1


# ---------------------------------------------------------------------------------- e2e part
def e2e_part(ctx):
    try:
        from .. import e2e
    except ImportError:
        ctx.count("e2e_part_skipped")
        return
    e2e.c08_scenarios(ctx)


def replay(ctx, path):
    run(ctx)
