"""C12 - manifest text means what the manual says.
nprobe manifest-dump (real ManifestParser on in-memory files, every binding evaluated) against an independent Python
evaluator written from doc/manual.asciidoc only (vlib/refeval.py), over grammar-generated programs and their
single-token mutants."""
import json, random, re
from concurrent.futures import ThreadPoolExecutor
from .. import build, util, core, refeval

MANIFEST = dict(
    engine="nprobe", category="exploration",
    technique="runtime monitoring, differential: real ManifestParser graph dump vs an independent reference evaluator written from the "
              "manual; grammar-based program generation + single-token mutation",
    text="Programs from a grammar covering every statement form (rule, build with explicit/implicit/order-only inputs, implicit "
         "outputs, validations and bindings, pool, default, include, subninja three levels deep, top-level variables), the same "
         "variable bound at build / rule / file / including-file scope, all $-escapes, line continuations, CRLF, paths needing "
         "canonicalisation, the legacy self-referencing phony form, plus ALL single-token deletions/duplications/replacements of a "
         "sample of valid programs, are parsed by the real ManifestParser; per statement the dump lists outputs and inputs by kind, "
         "validations, pool and the evaluated command, description, depfile, rspfile, rspfile_content, deps, dyndep, restat, "
         "generator; pools; defaults; or the error. Oracle: reference evaluator (immediate expansion of file/build variables, late "
         "expansion of rule variables in the build's scope, lookup order build -> rule -> file -> including file, include shares / "
         "subninja copies scope, escapes, canonicalisation). Valid -> graphs equal. Program breaking a documented constraint -> "
         "rejected with a file:line: diagnostic. Anything the reference cannot decide from the manual is inconclusive (counted).",
    note="Trusted: vlib/refeval.py (written from the manual by an independent agent that did not read the parser; its own test-suite "
         "is tools/refeval/test_refeval.py; its recorded disagreements with the binary are tools/refeval/DISAGREEMENTS.md). Known "
         "findings: legacy phony self-reference handling; file-level variables shadowing rule variables for build statements without "
         "bindings.",
    ref="DESIGN.md §5 C12")

FIELDS = ["outs", "iouts", "ins", "iins", "oins", "vals", "rule", "pool", "command", "description", "depfile", "rspfile", "rspfile_content",
          "deps", "dyndep", "restat", "generator"]
# error kinds of the reference that correspond to constraints the property lists
LISTED = {"duplicate_output", "unknown_rule", "unknown_pool", "missing_command", "bad_rule_variable", "bad_escape", "tab", "dyndep_not_input",
          "duplicate_rule", "duplicate_pool", "bad_pool", "missing_include", "rspfile_pair"}


def probe():
    return build.get_bin("nprobe-manifest", ["nprobe.cc", "probe_manifest.cc"], link_extra=["-Wl,--wrap=exit"])


def setup():
    probe()


# ------------------------------------------------------------------------------------------ generator
VARS = ["a", "b", "cflags", "x", "dir", "description", "depfile", "deps", "restat"]
FILES = ["a.c", "b.c", "h.h", "gen.h", "lib.a", "sub/x.c", "tool"]


def rvalue(rng, allow_in_out=False):
    parts = []
    for _ in range(rng.randint(1, 4)):
        x = rng.random()
        if x < 0.35:
            parts.append(rng.choice(["gcc", "-c", "-o", "foo", "1", "a.b", "x=y", "-I.", "w/e"]))
        elif x < 0.55:
            parts.append("$" + rng.choice(VARS))
        elif x < 0.7:
            parts.append("${" + rng.choice(VARS) + "}")
        elif x < 0.78:
            parts.append(rng.choice(["$$", "$ ", "$:", "$$x", "a$:b"]))
        elif x < 0.9 and allow_in_out:
            parts.append(rng.choice(["$in", "$out", "${in}", "${out}"]))
        else:
            parts.append("$\n    cont")
    return " ".join(parts)


def path(rng, pool):
    p = rng.choice(pool)
    x = rng.random()
    if x < 0.1:
        p = "./" + p
    elif x < 0.15:
        p = p.replace("/", "//") if "/" in p else "sub/../" + p
    elif x < 0.3:
        p = "$dir/" + p
    elif x < 0.42:
        # directory names that merely look like '.' and '..' components: they are ordinary names and stay
        p = rng.choice((".d/", ".o/", ".x/y/", "..x/", "x../", ".../", ".hidden/", "a/.b/", "a/../.c/", "..a/../", ".a/./", "d/.e/../")) + p
    return p


def gen_file(rng, depth, state, name):
    L = []
    n = rng.randint(2, 9)
    for _ in range(n):
        x = rng.random()
        if x < 0.25:
            L.append("%s = %s" % (rng.choice(VARS), rvalue(rng)))
        elif x < 0.45:
            rn = "r%d" % state["nrule"]
            state["nrule"] += 1
            if rng.random() < 0.12 and state["rules"]:
                rn = rng.choice(state["rules"])          # duplicate rule (error in the same scope, fine in a subninja)
            state["rules"].append(rn)
            L.append("rule " + rn)
            keys = ["command"] + rng.sample(["description", "depfile", "deps", "restat", "generator", "pool", "rspfile+"], rng.randint(0, 3))
            if rng.random() < 0.06:
                keys.remove("command")
            if rng.random() < 0.06:
                # a variable that is not one of the reserved rule variables: any other name, also one that merely begins or
                # ends like a reserved one
                keys.insert(rng.randint(0, len(keys)), rng.choice(["bogus", "bogus", "dep", "desc", "comm", "rspfile_", "gen", "restat1", "depfiles", "c", "d",
                                                                    "pools", "ommand", "eps", "msvc_deps", "rsp", "in", "out", "Command", "dyndeps"]))
            for k in keys:
                if k == "rspfile+":
                    L.append("  rspfile = $out.rsp")
                    if rng.random() < 0.9:
                        L.append("  rspfile_content = " + rvalue(rng, True))
                elif k == "deps":
                    L.append("  deps = " + rng.choice(["gcc", "msvc"]))
                elif k in ("restat", "generator"):
                    L.append("  %s = 1" % k)
                elif k == "pool":
                    L.append("  pool = " + rng.choice(state["pools"] + ["console", "nopool"] if rng.random() < 0.15 else state["pools"] + ["console"]))
                else:
                    L.append("  %s = %s" % (k, rvalue(rng, True)))
        elif x < 0.75 and state["rules"]:
            outs = ["o%d" % state["nout"]]
            state["nout"] += 1
            if rng.random() < 0.2:
                outs.append("o%d" % state["nout"]); state["nout"] += 1
            if rng.random() < 0.05 and state["outs"]:
                outs.append(rng.choice(state["outs"]))   # duplicate output
            io = []
            if rng.random() < 0.2:
                io.append("io%d" % state["nout"]); state["nout"] += 1
            rule = rng.choice(state["rules"] + ["phony"]) if rng.random() > 0.04 else "norule"
            pool_all = FILES + state["outs"]
            ins = [path(rng, pool_all) for _ in range(rng.randint(0, 3))]
            iins = [path(rng, pool_all) for _ in range(rng.randint(0, 2))] if rng.random() < 0.4 else []
            oins = [path(rng, pool_all) for _ in range(rng.randint(0, 2))] if rng.random() < 0.3 else []
            vals = [path(rng, pool_all) for _ in range(rng.randint(1, 2))] if rng.random() < 0.2 else []
            if rule == "phony" and rng.random() < 0.25:
                ins.insert(rng.randint(0, len(ins)), outs[0])     # legacy self reference
            line = "build " + " ".join(outs) + (" | " + " ".join(io) if io else "") + ": " + rule
            if ins:
                line += " " + " ".join(ins)
            if iins:
                line += " | " + " ".join(iins)
            if oins:
                line += " || " + " ".join(oins)
            if vals:
                line += " |@ " + " ".join(vals)
            L.append(line)
            if "$dir" in line and rng.random() < 0.6:
                # a variable used in the statement's own paths, bound (or shadowed) in the statement's own block: outputs,
                # every kind of input and validations are all expanded in that scope
                L.append("  dir = " + rng.choice(["bld", "o/p", ".", "$x", "q$ r"]))
            for _ in range(rng.randint(0, 2)):
                L.append("  %s = %s" % (rng.choice(VARS), rvalue(rng)))
            if rng.random() < 0.1 and (ins or iins or oins):
                L.append("  dyndep = " + (rng.choice(ins + iins + oins) if rng.random() < 0.8 else "nowhere.dd"))
            if rng.random() < 0.1:
                L.append("  pool = " + rng.choice(state["pools"] + ["console"]))
            state["outs"] += outs + io
        elif x < 0.8:
            pn = "p%d" % len(state["pools"])
            if rng.random() < 0.1 and state["pools"]:
                pn = state["pools"][0]
            L.append("pool " + pn)
            if rng.random() < 0.93:
                L.append("  depth = " + rng.choice(["1", "2", "0", "17", "-1"] if rng.random() < 0.1 else ["1", "2", "4"]))
            state["pools"].append(pn)
        elif x < 0.86 and state["outs"]:
            L.append("default " + " ".join(rng.sample(state["outs"], rng.randint(1, min(2, len(state["outs"]))))))
        elif x < 0.93 and depth < 3:
            sub = "f%d.ninja" % state["nfile"]
            state["nfile"] += 1
            kind = rng.choice(["include", "subninja"])
            saved_rules = list(state["rules"])
            state["files"][sub] = None
            gen_file(rng, depth + 1, state, sub)
            if kind == "subninja":
                state["rules"] = saved_rules
            L.append("%s %s" % (kind, sub if rng.random() > 0.04 else "missing.ninja"))
        elif x < 0.96:
            L.append("# comment $ with stuff")
        else:
            L.append("")
    text = "\n".join(L) + "\n"
    if rng.random() < 0.08:
        text = text.replace("\n", "\r\n")
    if rng.random() < 0.03:
        text = text.replace("\n  ", "\n\t", 1)
    state["files"][name] = text.encode("latin-1")


def gen_program(rng):
    state = {"nrule": 0, "nout": 0, "nfile": 0, "rules": [], "outs": [], "pools": [], "files": {}}
    gen_file(rng, 1, state, "build.ninja")
    return state["files"]


TOK = re.compile(rb"\r?\n|[ ]+|\$\n|\$.|[|]{1,2}@?|[:=]|[^ \r\n:|=$]+")


def mutants(rng, files, k):
    out = []
    names = sorted(files)
    for _ in range(k):
        f = rng.choice(names)
        toks = TOK.findall(files[f])
        if not toks:
            continue
        i = rng.randrange(len(toks))
        x = rng.random()
        t2 = list(toks)
        if x < 0.35:
            del t2[i]
        elif x < 0.55:
            t2.insert(i, toks[i])
        elif x < 0.8:
            t2[i] = rng.choice([b"build", b"rule", b"pool", b"default", b"include", b"subninja", b":", b"|", b"||", b"|@", b"=", b"$", b"\n", b" ",
                                b"\t", b"x", b"$x", b"${x}", b"$$", b"$:", b"phony", b"  ", b"depth", b"command"])
        else:
            j = rng.randrange(len(toks))
            t2[i], t2[j] = t2[j], t2[i]
        m = dict(files)
        m[f] = b"".join(t2)
        out.append(m)
    return out


# ------------------------------------------------------------------------------------------ compare
def run_probe(b, programs):
    def enc(files):
        names = ["build.ninja"] + sorted(n for n in files if n != "build.ninja")
        return b",".join(n.encode().hex().encode() + b":" + files[n].hex().encode() for n in names)
    n = util.NCPU
    shards = [programs[i::n] for i in range(n)]

    def one(sh):
        if not sh:
            return []
        res, pending = [], list(sh)
        while pending:
            rc, out, err, to = util.run([b, "manifest-dump"], input=b"\n".join(enc(p) for p in pending) + b"\n", timeout=600)
            lines = out.decode("latin-1").splitlines()
            for ln in lines:
                try:
                    res.append(json.loads(ln))
                except ValueError:
                    res.append({"ok": False, "err": "unparsable probe output", "broken": True})
            if rc == 0 and not to and len(lines) == len(pending):
                break
            # crashed on program number len(lines)
            res = res[:len(res) - len(lines) + min(len(lines), len(pending))]
            k = len(lines)
            res.append({"crash": err.decode("latin-1")[-3000:], "timeout": to})
            pending = pending[k + 1:]
        return res
    with ThreadPoolExecutor(max_workers=n) as ex:
        rs = list(ex.map(one, shards))
    out = [None] * len(programs)
    for k, r in enumerate(rs):
        for j, x in enumerate(r):
            if k + j * n < len(out):
                out[k + j * n] = x
    return out


def judge(ctx, files, nin, mutant):
    rep = {"files_hex": {k: v.hex() for k, v in files.items()}}
    tag = "/mutant" if mutant else ""
    if nin is None:
        ctx.inconclusive += 1
        return
    ctx.evaluations += 1
    if nin.get("crash") is not None:
        sig = util.san_signature(nin["crash"]) or ("hang" if nin.get("timeout") else "crash")
        ctx.violation("C12/parser-crash/" + sig, nin["crash"][-1500:], rep)
        return
    try:
        ref = refeval.evaluate(files)
    except refeval.Unsure as e:
        ctx.inconclusive += 1
        ctx.count("reference_unsure")
        return
    except Exception as e:   # the reference promises not to do this
        ctx.inconclusive += 1
        ctx.count("reference_exception")
        return
    show = {k: v.decode("latin-1") for k, v in files.items()}
    if nin.get("ok") and any(a.get("rule") == "phony" and set(a.get("outs", []) + a.get("iouts", [])) &
                             set(a.get("ins", []) + a.get("iins", []) + a.get("oins", [])) for a in nin["edges"]):
        # a phony self reference outside the exact legacy CMake shape (one output, no implicit outputs or inputs) is kept by
        # ninja and diagnosed as a cycle at build time (C17); the manual is silent about it: not judged
        ctx.count("phony_self_reference_kept_not_judged")
        ctx.inconclusive += 1
        return
    if ref["ok"] and nin.get("ok"):
        ctx.count("both_accept" + tag)
        ne, re_ = nin["edges"], ref["edges"]
        if len(ne) != len(re_):
            ctx.violation("C12/graph-differs/edge-count", "ninja has %d statements, reference %d for %r" % (len(ne), len(re_), show), rep)
            return
        for k, (a, b_) in enumerate(zip(ne, re_)):
            if a.get("rule") == "phony" and set(a.get("outs", []) + a.get("iouts", [])) & set(a.get("ins", []) + a.get("iins", []) + a.get("oins", [])):
                # a self reference outside the exact legacy CMake shape (one output, no implicit outputs or inputs) is kept by
                # ninja and diagnosed as a cycle at build time (C17); the manual is silent about it: not judged
                ctx.count("phony_self_reference_kept_not_judged")
                ctx.inconclusive += 1
                return
            if not a.get("counts_sane", True):
                ctx.violation("C12/graph-differs/input-counts-corrupt", "statement %d (%s): implicit/order-only counts exceed the input list: %r in %r" %
                              (k, a.get("outs"), a, show), rep)
                return
            for f in FIELDS:
                if a.get(f) != b_.get(f):
                    kind = ""
                    if a.get("rule") == "phony" and set(a.get("outs", [])) & set(b_["ins"] + b_["iins"] + b_["oins"] + a.get("ins", []) + a.get("iins", []) + a.get("oins", []) + _self_refs(files, a)):
                        kind = "/phony-self-reference"
                    ctx.violation("C12/graph-differs/%s%s" % (f, kind), "statement %d (outputs %s): %s is %r in ninja, %r per the manual; program: %r" %
                                  (k, a.get("outs"), f, a.get(f), b_.get(f), show), rep)
                    return
        if nin["pools"] != ref["pools"]:
            ctx.violation("C12/graph-differs/pools", "%r vs %r in %r" % (nin["pools"], ref["pools"], show), rep)
            return
        if nin["defaults"] != ref["defaults"]:
            ctx.violation("C12/graph-differs/defaults", "%r vs %r in %r" % (nin["defaults"], ref["defaults"], show), rep)
            return
        ctx.count("graphs_equal" + tag)
        ctx.nontrivial(json.dumps(show, sort_keys=True))
        if len(ctx.samples) < 2 and len(ne) >= 2 and len(files) >= 2:
            ctx.sample({"program": show, "statements": len(ne)})
    elif ref["ok"] and not nin.get("ok"):
        err = nin.get("err", "")
        ctx.violation("C12/valid-rejected/%s" % re.sub(r"[^a-z]+", "-", re.sub(r"'.*?'", "", err.split(": ", 2)[-1].split("\n")[0].lower()))[:40].strip("-"),
                      "the manual accepts %r, ninja says %r" % (show, err), rep)
    elif not ref["ok"] and nin.get("ok"):
        kind = ref["error_kind"]
        if kind in LISTED:
            ctx.violation("C12/invalid-accepted/%s" % kind, "%s (%s:%s: %s) but ninja accepted %r" %
                          (kind, ref.get("file"), ref.get("line"), ref.get("message"), show), rep)
        else:
            ctx.count("unlisted_constraint_not_judged_" + kind)
    else:
        ctx.count("both_reject" + tag)
        ctx.nontrivial(json.dumps(show, sort_keys=True))
        err = nin.get("err", "")
        if not nin.get("fatal") and not re.match(r"^[^:\n]+:\d+: ", err):
            ctx.violation("C12/diagnostic-without-file-line", "ninja rejects %r with %r" % (show, err), rep)


def _self_refs(files, a):
    return []


def same_scope_family(ctx, rng, b, n):
    """Where the manual is silent - a variable used in a build line's paths and bound again in that statement's own block -
    one thing still has to hold: every list of the line (outputs, explicit, implicit, order-only inputs, validations) is
    expanded in the same scope.  The same path expression is put into several lists; the names ninja resolves must agree."""
    progs, metas = [], []
    for _ in range(n):
        var = rng.choice(["dir", "x", "v"])
        expr = rng.choice(["$%s/h.h" % var, "${%s}h" % var, "p_$%s" % var, "$%s" % var])
        lists = rng.sample(["ins", "iins", "oins", "vals", "outs"], rng.randint(2, 4))
        if "outs" in lists and len(lists) > 1:
            lists = [x for x in lists if x == "outs" or rng.random() < 0.6] or ["outs", "vals"]
            # the expression as an output: the others then refer to that output (no self dependency)
            lists = ["outs", "vals"] if set(lists) == {"outs"} else lists
        L = ["%s = file" % var, "rule r", "  command = c $in $out"]
        sub = rng.random() < 0.3
        line = "build o1"
        if "outs" in lists:
            line += " " + expr.replace("h.h", "out.h")
        line += ": r a.c"
        use = lambda k: (" " + expr) if k in lists and not ("outs" in lists and k != "vals") else ""
        if "ins" in lists and "outs" not in lists:
            line += " " + expr
        if "iins" in lists and "outs" not in lists:
            line += " | " + expr
        if "oins" in lists and "outs" not in lists:
            line += " || " + expr
        if "vals" in lists:
            line += " |@ " + (expr if "outs" not in lists else expr.replace("h.h", "chk.h"))
        L.append(line)
        bound = rng.random() < 0.75
        if bound:
            L.append("  %s = %s" % (var, rng.choice(["block", "b/c", "$%s$%s" % (var, var), "z"])))
        if rng.random() < 0.3:
            L.append("  cflags = 1")
        files = {"build.ninja": ("\n".join(L) + "\n").encode()}
        if sub:
            files = {"build.ninja": ("%s = outer\nsubninja s.ninja\n" % var).encode(), "s.ninja": ("\n".join(L) + "\n").encode()}
        progs.append(files)
        metas.append((expr, lists, bound, var))
    res = run_probe(b, progs)
    for files, r, (expr, lists, bound, var) in zip(progs, res, metas):
        ctx.evaluations += 1
        rep = {"files_hex": {k: v.hex() for k, v in files.items()}}
        if r is None or r.get("crash") is not None or not r.get("ok"):
            if r is not None and r.get("crash") is not None:
                ctx.violation("C12/parser-crash/" + (util.san_signature(r["crash"]) or "crash"), r["crash"][-1200:], rep)
            else:
                ctx.count("same_scope_rejected")
            continue
        e = next((x for x in r["edges"] if "o1" in x["outs"]), None)
        if e is None:
            ctx.inconclusive += 1
            continue
        if "outs" in lists:
            continue
        names = {}
        for k in ("ins", "iins", "oins", "vals"):
            if k in lists:
                got = [x for x in e[k] if x != "a.c"]
                names[k] = tuple(got)
        ctx.count("same_scope_checks")
        if bound:
            ctx.nontrivial(("same-scope", files["build.ninja"], files.get("s.ninja", b"")))
        if len(set(names.values())) > 1:
            ctx.violation("C12/path-lists-expanded-in-different-scopes/%s" % "+".join(sorted(names)),
                          "the expression %r resolves to %r in one build line%s" % (expr, names, " (variable bound again in the statement's block)" if bound else ""), rep)

def path_binding_family(ctx, rng, b, n):
    """Rule variables are expanded late, in the build's scope, and "$in/$out are shell-quoted if they appear in commands" (manual):
    a path-valued binding on the rule (depfile, rspfile, dyndep) spelled with $out/$in therefore names exactly <path><suffix>,
    byte for byte, whatever characters the path contains - the same file the binding written out on the build statement names."""
    alpha = "ab0_-.@=,;'()&+~%#!^{}[] :$x"
    progs, metas = [], []

    def esc_path(x):
        return x.replace("$", "$$").replace(" ", "$ ").replace(":", "$:")

    def esc_val(x):
        return x.replace("$", "$$")
    for _ in range(n):
        def name(ext):
            while True:
                core = "".join(rng.choice(alpha) for _ in range(rng.randint(1, 6)))
                if core[0] in " #." or core[-1] in " ." or "  " in core:
                    continue
                return (rng.choice(["", "", "o/", "d e/"]) + core + ext)
        out, inp = name(".o"), name(".c")
        via = rng.choice(["out", "out", "in"])
        base = out if via == "out" else inp
        with_dd = rng.random() < 0.6
        keys = [k for k in ("depfile", "rspfile", "dyndep") if k != "dyndep" or with_dd]
        suffix = {"depfile": ".d", "rspfile": ".rsp", "dyndep": ".dd"}
        form = rng.choice(["$%s", "${%s}"]) % via
        on_rule = ["rule r", "  command = c $in > $out"]
        for k in keys:
            on_rule.append("  %s = %s%s" % (k, form, suffix[k]))
        if "rspfile" in keys:
            on_rule.append("  rspfile_content = x")
        line = "build %s: r %s" % (esc_path(out), esc_path(inp)) + (" || %s" % esc_path(base + ".dd") if with_dd else "")
        p1 = "\n".join(on_rule + [line]) + "\n"
        lit = ["rule r", "  command = c $in > $out", line]
        for k in keys:
            lit.append("  %s = %s" % (k, esc_val(base + suffix[k])))
        if "rspfile" in keys:
            lit.append("  rspfile_content = x")
        p2 = "\n".join(lit) + "\n"
        progs.append({"build.ninja": p1.encode("latin-1")})
        progs.append({"build.ninja": p2.encode("latin-1")})
        metas.append((out, base, keys, suffix))
    res = run_probe(b, progs)
    for i, (out, base, keys, suffix) in enumerate(metas):
        r1, r2 = res[2 * i], res[2 * i + 1]
        ctx.evaluations += 1
        rep = {"files_hex": {k: v.hex() for k, v in progs[2 * i].items()}, "literal_files_hex": {k: v.hex() for k, v in progs[2 * i + 1].items()}}
        for r in (r1, r2):
            if r is not None and r.get("crash") is not None:
                ctx.violation("C12/parser-crash/" + (util.san_signature(r["crash"]) or "crash"), r["crash"][-1200:], rep)
                break
        else:
            if r1 is None or r2 is None:
                ctx.inconclusive += 1
                continue
            if not r2.get("ok"):
                # the literal form itself is not a valid manifest (should not happen with this alphabet): nothing to compare
                ctx.count("path_binding_literal_rejected")
                continue
            special = any(ch not in "ab0_-./x" for ch in base)
            if not r1.get("ok"):
                ctx.violation("C12/valid-rejected/rule-level-path-binding/%s" % ("special" if special else "plain"),
                              "bindings %s on the rule (spelled with $in/$out) are rejected: %s; the same manifest with the values written out on "
                              "the build statement is accepted" % (keys, r1.get("err")), rep)
                continue
            e1 = next((x for x in r1["edges"] if out in x["outs"]), None)
            e2 = next((x for x in r2["edges"] if out in x["outs"]), None)
            if e1 is None or e2 is None:
                ctx.inconclusive += 1
                continue
            ctx.count("path_binding_checks")
            if special:
                ctx.nontrivial(("path-binding", progs[2 * i]["build.ninja"]))
            for k in keys:
                want = base + suffix[k]
                if e1[k] != want or e2[k] != want:
                    ctx.violation("C12/path-binding-differs/%s/%s" % (k, "special" if special else "plain"),
                                  "%s: on the rule (late expansion of $in/$out) it names %r, written out on the build statement %r, the path is %r" %
                                  (k, e1[k], e2[k], want), rep)
                    break


def late_rule_binding_family(ctx, rng, b, n):
    """Rule variables are expanded late, in the scope of each build statement: a rule-level `pool = $p`, `depfile = $d`,
    `description = $t` ... means, for every statement of that rule, what the variable is worth where the statement stands - also
    when it got a new value in a file that was `include`d between two statements of the same rule, and also for statements
    without bindings of their own.  Judged by the reference evaluator like every generated program."""
    progs = []
    for _ in range(n):
        key = rng.choice(("pool", "pool", "depfile", "description", "rspfile", "deps", "restat"))
        vals = {"pool": ["one", "wide", "", "nosuchpool"], "depfile": ["a.d", "b.d", "$out.d"], "description": ["D1", "D2 $out"],
                "rspfile": ["r1.rsp", "r2.rsp"], "deps": ["gcc", "msvc", ""], "restat": ["1", ""]}[key]
        v1, v2 = rng.sample(vals, 2) if len(vals) > 1 else (vals[0], vals[0])
        how = rng.choice(("include", "include", "subninja", "assign"))
        L = ["pool one", "  depth = 1", "pool wide", "  depth = 4", "p = %s" % v1, "rule r", "  command = c $in $out", "  %s = $p" % key]
        if key == "rspfile":
            L.append("  rspfile_content = $in")
        own = lambda: rng.random() < 0.3
        L.append("build a1: r s1")
        if own():
            L.append("  x = 1")
        inc = "p = %s\n" % v2
        if rng.random() < 0.4:
            inc += "build i1: r s2\n"
        if how == "assign":
            L.append("p = %s" % v2)
        else:
            L.append("%s inc.ninja" % how)
        L.append("build a2: r s3")
        if own():
            L.append("  y = 2")
        L.append("build a3: r s4")
        files = {"build.ninja": ("\n".join(L) + "\n").encode()}
        if how != "assign":
            files["inc.ninja"] = inc.encode()
        progs.append(files)
    res = run_probe(b, progs)
    for p_, r_ in zip(progs, res):
        judge(ctx, p_, r_, False)
        ctx.count("late_rule_binding_programs")


def run(ctx):
    quick = ctx.tier == "quick"
    rng = random.Random(ctx.seed * 7561 + 12)
    b = probe()
    nprog = 30000 if quick else 400000
    nmut = 5 if quick else 8
    progs, kinds = [], []
    for _ in range(nprog):
        p = gen_program(rng)
        progs.append(p); kinds.append(False)
        if rng.random() < 0.5:
            for m in mutants(rng, p, nmut):
                progs.append(m); kinds.append(True)
    res = run_probe(b, progs)
    for p, r, k in zip(progs, res, kinds):
        judge(ctx, p, r, k)
    same_scope_family(ctx, rng, b, 1500 if quick else 30000)
    path_binding_family(ctx, rng, b, 1500 if quick else 30000)
    late_rule_binding_family(ctx, rng, b, 1500 if quick else 30000)
    ctx.rule = ("%d grammar-generated programs (1..4 files, include/subninja up to 3 levels) + %d single-token mutants each for half of "
                "them; distinct_nontrivial = distinct programs on which the reference gave a definite verdict and ninja agreed (equal "
                "graph or both reject)" % (nprog, nmut))


def replay(ctx, path):
    j = json.load(open(path))["replay"]
    files = {k: bytes.fromhex(v) for k, v in j["files_hex"].items()}
    res = run_probe(probe(), [files])
    print("program:", {k: v.decode("latin-1") for k, v in files.items()})
    print("ninja  :", res[0])
    try:
        print("manual :", refeval.evaluate(files))
    except refeval.Unsure as e:
        print("manual : Unsure", e)
    judge(ctx, files, res[0], False)
    ctx.distinct_extra += 2
