"""C17 - dependency cycles are always diagnosed, and only real ones.
nsim: all small graphs (exhaustive), random large graphs with planted back edges of every input kind, cycles closed by a
stale deps-log/depfile record after a manifest change, cycles appearing mid-build when a dyndep file is loaded."""
import copy, itertools, json, random
from .. import simlib, gen, model, util, core
from ..simlib import St, all_outs, manifest_step, dyndep_text

MANIFEST = dict(
    engine="nsim", category="exploration",
    technique="runtime monitoring: bounded-exhaustive small graphs + random graphs with planted cycles through nsim; oracle = independent "
              "DFS on the scenario's effective graph restricted to the requested closure, hop-by-hop validation of the reported cycle",
    text="(Round 10: cycles closed by a dyndep file that is on disk and current when the build starts, the targets named one by one so that the scan meets the consumer of the future output before or after the statement the file serves; consumer-first is a known finding.) ALL graphs with <=2 statements over 3 files and every input kind / implicit output / validation placement are enumerated, 3 "
         "statements over 4 files and random graphs up to 40 statements with planted back edges (explicit, implicit, order-only, through "
         "multi-output statements and phony aliases, inside and outside the requested closure, validation back edges that are NOT "
         "cycles) are sampled; cycles closed by a deps-log / depfile record that became stale through a manifest change; cycles that "
         "appear mid-build when a dyndep file is produced and loaded. Oracle: independent DFS over the effective graph of the requested "
         "closure. Cyclic -> ninja stops with 'dependency cycle: p0 -> ... -> p0', every hop is checked against the scenario, no "
         "statement on that cycle ever STARTs, the child neither hangs nor overflows the stack (ASan). Acyclic -> never rejected as "
         "cyclic (incl. a validation that depends on its requester).",
    note="Trusted: the DFS in this file. A recorded discovery counts for the effective graph only while ninja considers the record "
         "(consumer outputs exist) - BuildTest.CycleWithOldDepfile pins that a stale depfile of a statement with a missing output "
         "must not close a cycle. The legacy self-referencing phony is filtered by the parser and treated as acyclic.",
    ref="DESIGN.md §5 C17")

KINDS = ("ins", "iins", "oins", "vals")


def setup():
    simlib.nsim_bin()


def node_graph(sc, extra=None):
    """node -> set(input nodes) (validations excluded), producer map"""
    dep, prod = {}, {}
    for s in sc["stmts"]:
        for o in all_outs(s):
            prod[o] = s
    for s in sc["stmts"]:
        ins = set(s["ins"] + s["iins"] + s["oins"]) | set((extra or {}).get(s["id"], []))
        if s["kind"] == "phony" and len(s["outs"]) == 1 and not s["iouts"] and not s["iins"] and not sc.get("_phonycycle_err"):
            ins.discard(s["outs"][0])     # legacy CMake form: the parser drops the self reference with a warning
        for o in all_outs(s):
            dep.setdefault(o, set()).update(ins)
    return dep, prod


def closure_nodes(sc, targets, dep, prod):
    seen, work = set(), list(targets)
    while work:
        n = work.pop()
        if n in seen:
            continue
        seen.add(n)
        work += list(dep.get(n, ()))
        s = prod.get(n)
        if s is not None:
            work += s["vals"]
            work += all_outs(s) if False else []
    return seen


def find_cycle(dep, nodes):
    """True if the sub-graph induced by `nodes` (following dep edges) has a cycle"""
    color = {}

    def visit(n):
        color[n] = 1
        for m in dep.get(n, ()):
            c = color.get(m, 0)
            if c == 1:
                return True
            if c == 0 and visit(m):
                return True
        color[n] = 2
        return False
    import sys
    sys.setrecursionlimit(10000)
    for n in sorted(nodes):
        if color.get(n, 0) == 0 and visit(n):
            return True
    return False


def judge(ctx, scn, sc, step, trace, extra=None, tag=""):
    ctx.evaluations += 1
    rep = {"scenario": scn}
    if trace.get("crash"):
        sig = util.san_signature(trace.get("stderr", "")) or ("timeout" if trace.get("timeout") else "crash")
        ctx.violation("C17/nsim-crash/" + sig, "scenario %s: %s" % (scn["id"], trace.get("stderr", "")[-1500:]), rep)
        return
    res = trace["result"]
    dep, prod = node_graph(sc, extra)
    targets = step["targets"] or (sc["defaults"] or gen.Gen.roots(sc))
    if not targets:
        targets = list(prod)          # no root at all (everything on cycles): ninja reports it differently
    nodes = closure_nodes(sc, targets, dep, prod)
    cyclic = find_cycle(dep, nodes)
    err = res.get("err") or ""
    started = [e["o"] for e in trace["events"] if e["e"] == "S"]
    if "could not determine root nodes" in err or "could not determine root" in err:
        # no roots: every node has a consumer - only possible with a cycle
        if not find_cycle(dep, set(prod)):
            ctx.violation("C17/no-roots-without-cycle", "scenario %s: %s" % (scn["id"], err), rep)
        else:
            ctx.count("no_root_cycles")
            ctx.nontrivial(scn["id"])
        return
    if cyclic:
        ctx.count("cyclic_cases" + tag)
        ctx.nontrivial(scn["id"])
        if res.get("exit") == 0:
            ctx.violation("C17/cycle-not-diagnosed" + tag, "scenario %s targets=%s: the requested closure contains a cycle but ninja exit 0 (%s); started %s" %
                          (scn["id"], targets, err, started), rep)
            return
        if "dependency cycle: " not in err:
            ctx.violation("C17/cycle-other-error" + tag, "scenario %s targets=%s: closure is cyclic, ninja says %r" % (scn["id"], targets, err), rep)
            return
        path = err.split("dependency cycle: ", 1)[1].split(" [-w phonycycle=err]")[0].strip().split(" -> ")
        if len(path) < 2 or path[0] != path[-1]:
            ctx.violation("C17/reported-path-not-closed", "scenario %s: %r" % (scn["id"], err), rep)
            return
        for x, y in zip(path, path[1:]):
            if y not in dep.get(x, ()):
                ctx.violation("C17/reported-hop-not-an-edge", "scenario %s: reported %r but %s is not an input of the statement producing %s" %
                              (scn["id"], err, y, x), rep)
                return
        on_cycle = {prod[p]["outs"][0] for p in path if p in prod}
        ran = on_cycle & set(started)
        if ran:
            ctx.violation("C17/cycle-member-ran", "scenario %s: %s on the reported cycle were started" % (scn["id"], sorted(ran)), rep)
            return
        ctx.count("cycles_diagnosed_and_validated")
        if len(ctx.samples) < 3:
            ctx.sample({"scenario": scn["id"], "manifest": scn["files"]["build.ninja"][-400:], "targets": targets, "error": err})
    else:
        ctx.count("acyclic_cases" + tag)
        if "dependency cycle" in err:
            ctx.violation("C17/false-cycle" + tag, "scenario %s targets=%s: acyclic closure rejected: %r" % (scn["id"], targets, err), rep)
            return
        if any(s["vals"] for s in sc["stmts"]):
            ctx.count("acyclic_with_validations")


# ------------------------------------------------------------------------------------------ families
def small_graphs(nfiles, nstmts):
    """every graph with exactly nstmts statements over files f0..: each statement has 1 explicit output (+ optionally 1
    implicit output) and for every other file one of: no edge / explicit / implicit / order-only / validation"""
    files = ["f%d" % i for i in range(nfiles)]

    def rec(k, used):
        if k == nstmts:
            yield []
            return
        for o in files:
            if o in used:
                continue
            if any(o < u for u in used_first[:k]):   # canonical order of first outputs
                continue
            for io in [None] + [f for f in files if f not in used and f != o]:
                others = [f for f in files if f != o and f != io]
                for kinds in itertools.product(range(5), repeat=len(others)):
                    st = St("s%d" % k, [o], iouts=[io] if io else [])
                    for f, kd in zip(others, kinds):
                        if kd:
                            st[KINDS[kd - 1]].append(f)
                    used_first[k] = o
                    for rest in rec(k + 1, used | {o} | ({io} if io else set())):
                        yield [copy.deepcopy(st)] + rest
    used_first = [None] * (nstmts + 1)
    for stmts in rec(0, set()):
        yield stmts


def make_sc(sid, stmts, nfiles):
    produced = {o for s in stmts for o in all_outs(s)}
    sc = {"id": sid, "sources": {}, "stmts": copy.deepcopy(stmts), "pools": {}, "defaults": []}
    for i in range(nfiles):
        f = "f%d" % i
        if f not in produced:
            sc["sources"][f] = "// src %s\n" % f
    return sc


def run(ctx):
    quick = ctx.tier == "quick"
    rng = random.Random(ctx.seed * 6151 + 17)
    jobs = []      # (scn, sc, step, extra, tag)
    # ---- exhaustive: 1 and 2 statements over 3 files
    n = 0
    for ns in (1, 2):
        for stmts in small_graphs(3, ns):
            sc = make_sc("C17-x%d-%d" % (ns, n), stmts, 3)
            n += 1
            tg = [] if n % 3 else [rng.choice(stmts)["outs"][0]]
            step = {"op": "build", "targets": tg, "j": 2, "k": 1, "sched": {"mode": "prng", "seed": 1}, "snap": False}
            jobs.append((simlib.scenario_json(sc, [step]), sc, step, None, ""))
    ctx.count("exhaustive_small_graphs", n)
    # ---- sampled: 3 statements over 4 files
    allg = None
    want = 3000 if quick else 60000
    it = small_graphs(4, 3)
    stride = 97 + ctx.seed % 50
    k = 0
    for idx, stmts in enumerate(it):
        if idx % stride:
            continue
        sc = make_sc("C17-y-%d" % idx, stmts, 4)
        tg = [] if idx % 2 else [rng.choice(stmts)["outs"][0]]
        step = {"op": "build", "targets": tg, "j": 2, "k": 1, "sched": {"mode": "prng", "seed": 1}, "snap": False}
        jobs.append((simlib.scenario_json(sc, [step]), sc, step, None, ""))
        k += 1
        if k >= want:
            break
    # ---- large random graphs with planted back edges
    for k in range(400 if quick else 8000):
        g = gen.Gen(random.Random(rng.randint(0, 2 ** 60)), size=rng.randint(4, 40 if not quick else 20),
                    feat=dict(deps=0.0, phony=0.2, vals=0.2, multi=0.3, rsp=0.0, chain=0.9, dyndep=0.0))
        sc = g.scenario("C17-L-%d-%d" % (ctx.seed, k))
        cmds = [s for s in sc["stmts"]]
        mode = rng.random()
        if mode < 0.75 and len(cmds) >= 2:
            # back edge: an earlier statement takes a later statement's output
            a, b = sorted(rng.sample(range(len(cmds)), 2))
            kind = rng.choice(("ins", "iins", "oins", "vals", "ins"))
            cmds[a][kind].append(rng.choice(all_outs(cmds[b])))
        elif mode < 0.85:
            s = rng.choice(cmds)
            s[rng.choice(("iins", "oins"))].append(rng.choice(all_outs(s)))     # self edge
        tg = g.pick_targets(sc)
        step = {"op": "build", "targets": tg, "j": 3, "k": 1, "sched": {"mode": "prng", "seed": k}, "snap": False}
        jobs.append((simlib.scenario_json(sc, [step]), sc, step, None, "/large"))
    # ---- validations of validations: the cycle lies only behind the n-th level
    for k in range(120 if quick else 2500):
        depth = rng.randint(1, 3)
        sc = {"id": "C17-V-%d-%d" % (ctx.seed, k), "sources": {"in.c": "// in\n"}, "pools": {}, "defaults": [], "stmts": []}
        top = St("top", ["top.o"], ins=["in.c"], vals=["v1.ok"])
        sc["stmts"].append(top)
        for lv in range(1, depth + 1):
            st = St("v%d" % lv, ["v%d.ok" % lv], ins=[rng.choice(("in.c", "top.o")) if lv == 1 else "in.c"])
            if lv < depth:
                st["vals"] = ["v%d.ok" % (lv + 1)]
            sc["stmts"].append(st)
        last = sc["stmts"][-1]
        where = rng.choice(("none", "at", "behind", "behind"))
        if where == "at":
            # the last validation statement and a helper need each other
            last["ins"].append("loop.o")
            sc["stmts"].append(St("loop", ["loop.o"], ins=[last["outs"][0]]))
        elif where == "behind":
            last[rng.choice(("ins", "iins", "oins"))].append("la.o")
            sc["stmts"].append(St("la", ["la.o"], ins=["lb.o"]))
            sc["stmts"].append(St("lb", ["lb.o"], ins=[rng.choice(("la.o", "la.o", "lb.o"))]))
        tg = rng.choice((["top.o"], [], ["top.o"]))
        step = {"op": "build", "targets": tg, "j": 2, "k": 1, "sched": {"mode": "prng", "seed": k}, "snap": False}
        jobs.append((simlib.scenario_json(sc, [step]), sc, step, None, "/nested-validation-%d" % depth))
    # ---- legacy self-referencing phony
    for kx, flag in enumerate((False, True)):
        sc = {"id": "C17-ph-%d" % kx, "sources": {"x": "x\n"}, "pools": {}, "defaults": [],
              "stmts": [St("s0", ["a"], ins=["a", "x"], kind="phony"), St("s1", ["out"], ins=["x"], oins=["a"])]}
        step = {"op": "build", "targets": [], "j": 1, "k": 1, "phonycycle_err": flag, "sched": {"mode": "prng", "seed": 1}, "snap": False}
        jobs.append((simlib.scenario_json(sc, [step]), sc, step, None, "/phony-self-" + ("err" if flag else "warn")))
    res = {}

    def handler(scn, results, err):
        res[scn["id"]] = results
    simlib.run_scenarios([j[0] for j in jobs], handler)
    for scn, sc, step, extra, tag in jobs:
        r = res.get(scn["id"])
        if not r:
            ctx.inconclusive += 1
            continue
        if tag == "/phony-self-warn":
            t = r[0]["trace"]
            ctx.evaluations += 1
            if "dependency cycle" in (t.get("result", {}).get("err") or ""):
                ctx.violation("C17/legacy-phony-self-reference-rejected", "%r" % t["result"], {"scenario": scn})
            continue
        if tag == "/phony-self-err":
            t = r[0]["trace"]
            ctx.evaluations += 1
            if "dependency cycle: a -> a [-w phonycycle=err]" not in (t.get("result", {}).get("err") or ""):
                ctx.violation("C17/phonycycle-err-not-reported", "%r" % t.get("result"), {"scenario": scn})
            continue
        judge(ctx, scn, sc, step, r[0]["trace"], extra, tag)
    stale_record_family(ctx, rng, 150 if quick else 3000)
    dyndep_cycle_family(ctx, rng, 150 if quick else 3000)
    dyndep_binding_cycle_family(ctx, rng, 150 if quick else 3000)
    mixed_cycle_family(ctx, rng, 200 if quick else 4000)
    mixed_cycle_family(ctx, rng, 200 if quick else 3000, static=True)
    ctx.rule = ("all graphs with 1..2 statements over 3 files (1 explicit + optional implicit output; each other file: none / explicit / "
                "implicit / order-only / validation), every %d-th graph with 3 statements over 4 files, random graphs of 4..%d statements "
                "with planted back edges, validations nested 1..3 deep with the cycle behind the last level, stale-record and dyndep mid-build families; distinct_nontrivial = distinct scenarios whose "
                "requested closure is cyclic" % (stride, 20 if quick else 40))
    ctx.exhaustive = False


def stale_record_family(ctx, rng, n):
    """A's deps record names H; the manifest then changes so that H is produced from A's output."""
    jobs = []
    for k in range(n):
        deps = rng.choice(("gcc", "msvc", "depfile"))
        sc = {"id": "C17-S-%d-%d" % (ctx.seed, k), "pools": {}, "defaults": [],
              "sources": {"a.c": "#include h.h\n// a\n", "h.h": "// h\n", "b.c": "// b\n"},
              "stmts": [St("A", ["a.o"], ins=["a.c"], deps=deps, depfile="a.o.d" if deps != "msvc" else ""),
                        St("B", ["b.o"], ins=["b.c", "a.o"])]}
        sc2 = copy.deepcopy(sc)
        # now h.h is generated from something downstream of a.o
        via = rng.choice(("b.o", "a.o"))
        sc2["stmts"].append(St("H", ["h.h"], ins=[via]))
        del sc2["sources"]["h.h"]
        rm_out = rng.random() < 0.4
        touch_a = rng.random() < 0.5
        # ... or the statement does not use discovered dependencies any more (and its source no longer reads the header):
        # its record is still in the deps log until the next recompaction, but it describes nothing - no cycle
        obsolete = rng.random() < 0.35
        steps = [{"op": "build", "targets": [], "j": 1, "k": 1, "sched": {"mode": "prng", "seed": 1}}]
        if obsolete:
            A2 = next(s_ for s_ in sc2["stmts"] if s_["id"] == "A")
            A2["deps"], A2["depfile"] = "none", ""
            sc2["sources"]["a.c"] = "// a without the header\n"
            steps.append({"op": "write", "path": "a.c", "content": sc2["sources"]["a.c"]})
            rm_out = False
        steps.append(manifest_step(sc2))
        if rm_out:
            steps.append({"op": "rm", "path": "a.o"})
        if touch_a:
            steps.append({"op": "touch", "path": "a.c"})
        tg = rng.choice(([], ["b.o"], ["a.o"], ["h.h"]))
        steps.append({"op": "build", "targets": tg, "j": 2, "k": 1, "sched": {"mode": "prng", "seed": 2}})
        jobs.append((simlib.scenario_json(sc, steps), sc2, steps[-1], (rm_out, obsolete)))
    res = {}

    def handler(scn, results, err):
        res[scn["id"]] = results
    simlib.run_scenarios([j[0] for j in jobs], handler)
    for scn, sc2, step, (rm_out, obsolete) in jobs:
        r = res.get(scn["id"])
        if not r or r[-1].get("skipped"):
            ctx.inconclusive += 1
            continue
        # the record counts while a.o exists; with a.o missing either outcome is accepted (pinned by the unit test)
        if rm_out:
            t = r[-1]["trace"]
            ctx.evaluations += 1
            ctx.count("stale_record_output_missing_cases")
            if t.get("crash"):
                ctx.violation("C17/nsim-crash/" + (util.san_signature(t.get("stderr", "")) or "crash"), t.get("stderr", "")[-1500:], {"scenario": scn})
            continue
        if obsolete:
            ctx.count("obsolete_record_cases")
            judge(ctx, scn, sc2, step, r[-1]["trace"], None, "/obsolete-record")
            continue
        judge(ctx, scn, sc2, step, r[-1]["trace"], {"A": ["h.h"]}, "/stale-record")


def dyndep_cycle_family(ctx, rng, n):
    jobs = []
    for k in range(n):
        # out is served by dd; x consumes out; the dyndep file may name x (cycle), or something harmless
        cyc = rng.random() < 0.6
        extra_consumer = rng.random() < 0.6
        srcs = {"dd.in": "// scan input\n", "out.src": ("#include x\n" if cyc else "#include m.h\n") + "// served\n", "m.h": "// m\n",
                "x.c": "// x\n"}
        stmts = []
        side = St("side", ["side"], ins=["x.c"], oins=["dd"] if rng.random() < 0.5 else [], iins=["out"] if extra_consumer else [])
        scan = St("scan", ["dd"], ins=["out.src"], kind="scan", serves=[["out", "out.src"]])
        out = St("out", ["out"], ins=["out.src"], oins=["dd"], dd=True, dyndep="dd")
        # x needs out through an input of any kind - order-only too: the way back to out closes a cycle whatever the kind of its
        # links - directly or with a statement in between
        x = St("x", ["x"], ins=["x.c"])
        link = rng.choice(("ins", "ins", "iins", "oins", "oins"))
        mid = None
        if rng.random() < 0.3:
            mid = St("mid", ["mid"], ins=["x.c"])
            mid[rng.choice(("ins", "iins", "oins"))].append("out")
            x[link].append("mid")
        else:
            x[link].append("out")
        order = [side, scan, out, x] if rng.random() < 0.5 else [scan, out, x, side]
        if rng.random() < 0.3:
            order = [scan, x, out, side]
        if mid:
            order.insert(rng.randint(0, len(order)), mid)
        sc = {"id": "C17-D-%d-%d" % (ctx.seed, k), "pools": {}, "defaults": [], "sources": srcs, "stmts": order}
        step = {"op": "build", "targets": rng.choice(([], ["x"], ["out"], ["x", "side"])), "j": rng.choice((1, 2, 3)), "k": 1,
                "sched": {"mode": "prng", "seed": k}}
        jobs.append((simlib.scenario_json(sc, [step]), sc, step, {"out": ["x"]} if cyc else {"out": ["m.h"]}))
    res = {}

    def handler(scn, results, err):
        res[scn["id"]] = results
    simlib.run_scenarios([j[0] for j in jobs], handler)
    for scn, sc, step, extra in jobs:
        r = res.get(scn["id"])
        if not r:
            ctx.inconclusive += 1
            continue
        judge(ctx, scn, sc, step, r[0]["trace"], extra, "/dyndep-mid-build")


def mixed_cycle_family(ctx, rng, n, static=False):
    """(static=True: the same graphs, but the dyndep file that closes the cycle is regenerated by a build of its own first, so
    that it is on disk and current - "present at start" - when the judged build scans the graph; what then decides is which
    side the scan reaches first, the consumer F of the file that is to become an output, or the statement E the dyndep file
    serves: the targets are named one by one on the command line.)
    A cycle that exists only in the union of two kinds of discovered information and appears in the middle of a build:
    F's recorded dependencies (deps log / depfile, from an earlier build) name a plain header x.h; a dyndep file regenerated
    in this build declares x.h an implicit output of E, which consumes F's output.  e.out -> f.o -> x.h -> (E)."""
    jobs = []
    for k in range(n):
        deps = rng.choice(("gcc", "msvc", "depfile", "gcc"))
        cyc = rng.random() < 0.65
        between = rng.randint(0, 1)
        srcs = {"f.c": "#include x.h\n// f\n", "x.h": "// x\n", "e.src": "// served\n", "g.c": "// g\n"}
        F = St("F", ["f.o"], ins=["f.c"], deps=deps, depfile="f.o.d" if deps != "msvc" else "")
        declared = rng.random() < 0.25
        if declared:
            # the same with x.h written in the manifest (no discovered information on F's side at all)
            F = St("F", ["f.o"], ins=["f.c"], iins=["x.h"])
        prev = "f.o"
        chain = []
        for b in range(between):
            st = St("M%d" % b, ["m%d.o" % b], ins=["g.c", prev])
            chain.append(st)
            prev = "m%d.o" % b
        scan = St("scan", ["dd"], ins=["e.src"], kind="scan", serves=[["e.out", "e.src"]])
        E = St("E", ["e.out"], ins=["e.src", prev], dd=True, dyndep="dd")
        E[rng.choice(("oins", "iins"))] = ["dd"]
        stmts = [F] + chain + [scan, E]
        rng.shuffle(stmts)
        sc = {"id": "C17-M%s-%d-%d" % ("S" if static else "", ctx.seed, k), "pools": {}, "defaults": [], "sources": srcs, "stmts": stmts}
        sc2 = copy.deepcopy(sc)
        sc2["sources"]["e.src"] = "#provides %s\n// served\n" % ("x.h" if cyc else "side.h")
        steps = [{"op": "build", "targets": [], "j": 2, "k": 1, "sched": {"mode": "prng", "seed": 1}},
                 {"op": "write", "path": "e.src", "content": sc2["sources"]["e.src"]}]
        if static:
            steps.append({"op": "build", "targets": ["dd"], "j": 1, "k": 1, "sched": {"mode": "prng", "seed": 1}})
        if rng.random() < 0.7:
            steps.append({"op": "touch", "path": "f.c"})       # F out of date on its own account, its output still there
        tg = rng.choice(([], [], ["e.out"], ["e.out", "f.o"], ["f.o"]))
        if static:
            tg = rng.choice((["f.o", "e.out"], [prev, "e.out"], ["e.out"], ["e.out", "f.o"], ["e.out", prev]))
        steps.append({"op": "build", "targets": tg, "j": rng.choice((1, 2, 3)), "k": 1, "sched": {"mode": "prng", "seed": rng.randint(1, 10 ** 6)}})
        jobs.append((simlib.scenario_json(sc, steps), sc2, steps[-1], (cyc, declared)))
    res = {}

    def handler(scn, results, err):
        res[scn["id"]] = results
    simlib.run_scenarios([j[0] for j in jobs], handler)
    for scn, sc2, step, (cyc, declared) in jobs:
        r = res.get(scn["id"])
        builds = [x for x in (r or []) if x.get("op") == "build"]
        if len(builds) < (3 if static else 2) or builds[-1].get("skipped") or (static and builds[1]["trace"]["result"].get("exit") != 0):
            ctx.inconclusive += 1
            continue
        t0, t = builds[0]["trace"], builds[-1]["trace"]
        rep = {"scenario": scn}
        ctx.evaluations += 1
        for tt in (t0, t):
            if tt.get("crash"):
                ctx.violation("C17/nsim-crash/" + (util.san_signature(tt.get("stderr", "")) or "crash"), "scenario %s: %s" % (scn["id"], tt.get("stderr", "")[-1500:]), rep)
                break
        else:
            if t0["result"].get("exit") != 0:
                ctx.inconclusive += 1
                ctx.count("mixed_cycle_setup_failed")
                continue
            tg = step["targets"] or ["e.out"]
            in_closure = "e.out" in tg
            err = t["result"].get("err") or ""
            started = [e["o"] for e in t["events"] if e["e"] == "S"]
            if cyc and in_closure:
                ctx.count("cyclic_cases/mixed-" + ("at-start" if static else "mid-build"))
                ctx.nontrivial(scn["id"])
                if t["result"].get("exit") == 0 or "dependency cycle: " not in err:
                    # where was F when the dyndep file was loaded (= when its producer finished)?
                    fin = [e["o"] for e in t["events"] if e["e"] == "F"]
                    f_done_first = "f.o" in fin and (("dd" not in fin) or fin.index("f.o") < fin.index("dd"))
                    f_ran = "f.o" in started
                    state = "consumer-already-finished" if f_done_first else ("consumer-clean" if not f_ran else "consumer-pending")
                    if static:
                        state = "at-start/consumer-scanned-" + ("later" if tg[0] == "e.out" else "first")
                    if t["result"].get("exit") == 0 and "stuck" in err:
                        # not only undiagnosed: nothing built, nothing said, and the exit status of a success (repaired: 12cdd98)
                        state += "/reported-success-while-stuck"
                    ctx.violation("C17/cycle-not-diagnosed/%s+dyndep-output/%s" % ("declared-input" if declared else "recorded-dependency", state),
                                  "scenario %s targets=%s: f.o %s x.h and the dyndep file loaded in this build makes x.h an output "
                                  "of the statement that consumes f.o, yet ninja exits %s (%r); started %s, finished %s" %
                                  (scn["id"], tg, "declares" if declared else "has recorded a dependency on", t["result"].get("exit"), err, started, fin), rep)
                    continue
                path = err.split("dependency cycle: ", 1)[1].split(" [-w")[0].strip().split(" -> ")
                if len(path) < 2 or path[0] != path[-1] or not {"x.h", "f.o"} <= set(path):
                    ctx.violation("C17/reported-path-not-the-cycle/mixed", "scenario %s: %r" % (scn["id"], err), rep)
                    continue
                if "e.out" in started:
                    ctx.violation("C17/cycle-member-ran/mixed", "scenario %s: E was started" % scn["id"], rep)
                    continue
                ctx.count("cycles_diagnosed_and_validated")
            else:
                ctx.count("acyclic_cases/mixed-" + ("at-start" if static else "mid-build"))
                if "dependency cycle" in err or t["result"].get("exit") != 0:
                    ctx.violation("C17/false-cycle/mixed", "scenario %s targets=%s: no cycle in the requested closure, ninja exits %s: %r" %
                                  (scn["id"], tg, t["result"].get("exit"), err), rep)


def dyndep_binding_cycle_family(ctx, rng, n):
    """a cycle that runs through a statement's dyndep binding while the dyndep file is still pending (its producer is on the
    cycle): found at scan time, entered from any of its members or from above; the reported path must be a path of the graph"""
    jobs = []
    for k in range(n):
        between = rng.randint(0, 2)
        srcs = {"out.src": "// served\n", "t.c": "// t\n", "up.c": "// up\n"}
        out = St("out", ["out"], ins=["out.src"], dd=True, dyndep="dd")
        if rng.random() < 0.5:
            out["oins"] = ["dd"]
        else:
            out["iins"] = ["dd"]
        chain, prev = [], "out"
        for b in range(between):
            srcs["m%d.c" % b] = "// m\n"
            st = St("mid%d" % b, ["mid%d" % b], ins=["m%d.c" % b])
            st[rng.choice(("ins", "iins", "oins"))].append(prev)
            chain.append(st)
            prev = "mid%d" % b
        top = St("top", ["top"], ins=["t.c", prev])
        closes = rng.random() < 0.7
        scan = St("scan", ["dd"], ins=["out.src"] + (["top"] if closes else []), kind="scan", serves=[["out", "out.src"]])
        up = St("up", ["up"], ins=["up.c", rng.choice(("top", "out", "dd"))])
        stmts = [out] + chain + [top, scan, up]
        rng.shuffle(stmts)
        sc = {"id": "C17-B-%d-%d" % (ctx.seed, k), "pools": {}, "defaults": [], "sources": srcs, "stmts": stmts}
        step = {"op": "build", "targets": rng.choice(([], ["top"], ["out"], ["dd"], ["up"], ["up", "top"])), "j": rng.choice((1, 2)), "k": 1,
                "sched": {"mode": "prng", "seed": k}}
        jobs.append((simlib.scenario_json(sc, [step]), sc, step))
    res = {}

    def handler(scn, results, err):
        res[scn["id"]] = results
    simlib.run_scenarios([j[0] for j in jobs], handler)
    for scn, sc, step in jobs:
        r = res.get(scn["id"])
        if not r:
            ctx.inconclusive += 1
            continue
        judge(ctx, scn, sc, step, r[0]["trace"], None, "/dyndep-binding")


def replay(ctx, path):
    run(ctx)
