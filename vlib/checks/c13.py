"""C13 - no file content can crash, corrupt or hang ninja.
nfuzz: one harness per parser entry point under ASan+UBSan: (a) bounded-exhaustive token strings, (b) structure-aware
seeds with byte mutation, (c) libFuzzer coverage-guided runs, (d) the same inputs through the real binary."""
import json, os, random, re, struct, subprocess, time
from concurrent.futures import ThreadPoolExecutor
from .. import build, util, core, simlib, gen, e2e
from . import c09 as c09mod, c15 as c15mod, c11 as c11mod, c13vg

MANIFEST = dict(
    engine="nfuzz", category="exploration",
    technique="runtime monitoring with sanitizers: ASan+UBSan harnesses per parser - bounded-exhaustive token enumeration, structure-aware "
              "seeds + mutation, libFuzzer coverage-guided fuzzing, replay through the real sanitised binary; hang watchdog per input; "
              "a sample of the structure-aware corpus replayed through an uninstrumented build under valgrind memcheck (uninitialised reads)",
    text="Targets: manifest (in-memory file set so include/subninja of other files and of the file itself are reachable; every binding a "
         "build evaluates is evaluated), depfile, dyndep file against a fixed graph, .ninja_log (load, recompact, reload), .ninja_deps "
         "(load, GetDeps of every node, append, recompact, reload), /showIncludes output with arbitrary prefix, MAKEFLAGS, "
         "NINJA_STATUS / --status formats driven through start/finish calls, ElideMiddle, StripAnsiEscapeCodes, JSON encoding, "
         "CanonicalizePath, EditDistance. Workloads: all token strings up to N tokens per format alphabet; generated valid files "
         "(manifests, depfiles, dyndep files, both logs) with byte/field mutation; libFuzzer runs bounded by -runs; a sample of all "
         "of these dropped into a build directory and run through `ninja`, `ninja -n`, `-t clean`, `-t deps`, `-t recompact`. Oracle: "
         "any ASan/UBSan report, abort, uncaught exception, per-input timeout or RSS limit is a violation; exit() through Fatal() is "
         "'reported an error'.",
    note="Trusted: the sanitizers (red-zone tools miss intra-object and far overflows; a clean run is 'no report on N executions', not "
         "memory safety). Assertions are compiled in.",
    ref="DESIGN.md §5 C13")

TARGETS = ["manifest", "depfile", "depfileload", "dyndep", "buildlog", "depslog", "clparser", "makeflags", "status", "elide", "stripansi", "json",
           "canon", "editdistance"]
# max tokens for the exhaustive sweep (quick, thorough)
EXH = {"manifest": (4, 5), "dyndep": (3, 4), "depfile": (5, 6), "depfileload": (4, 5), "buildlog": (5, 6), "clparser": (5, 6), "makeflags": (5, 6),
       "status": (4, 5), "stripansi": (5, 6), "elide": (5, 6), "canon": (6, 8)}


def sa_bin():
    return build.get_bin("nfuzz-sa", ["fuzz_targets.cc"], extra=["-DSTANDALONE"], link_extra=["-Wl,--wrap=exit"])


def lf_bin():
    return build.get_bin("nfuzz-lf", ["fuzz_targets.cc"], flavor="fuzz", extra=["-fsanitize=fuzzer"], link_extra=["-Wl,--wrap=exit"])


def setup():
    sa_bin()
    lf_bin()
    c13vg.vg_bin()


def env_for(target):
    e = build.san_env()
    e["FUZZ_TARGET"] = target
    e["NFUZZ_TAG"] = str(os.getpid())
    e["ASAN_OPTIONS"] += ":detect_stack_use_after_return=0:malloc_context_size=5"
    return e


def crash_report(ctx, target, err, how):
    txt = err.decode("latin-1") if isinstance(err, bytes) else err
    m = re.search(r"NFUZZ-(CRASH-INPUT|HANG) .*?hex=([0-9a-f]*)", txt)
    hx = m.group(2) if m else ""
    if "NFUZZ-HANG" in txt:
        sig = "hang"
    else:
        sig = util.san_signature(txt) or "crash"
    ctx.violation("C13/%s/%s" % (target, sig), "%s target=%s input=%r\n%s" % (how, target, bytes.fromhex(hx)[:200] if hx else None, txt[-1800:]),
                  {"target": target, "input_hex": hx})
    mi = re.search(r"idx=(\d+)", txt)
    return int(mi.group(1)) if mi else None


def exhaustive(ctx, quick):
    b = sa_bin()
    jobs = []
    nsh = util.NCPU
    for t, (q, th) in EXH.items():
        mt = q if quick else th
        for sh in range(nsh):
            jobs.append((t, mt, sh))

    def one(job):
        t, mt, sh = job
        start, done, exits, crashes = 0, 0, 0, []
        for attempt in range(12):
            rc, out, err, to = util.run([b, "exhaustive", str(mt), str(start), str(sh), str(nsh)], env=env_for(t), timeout=3000)
            txt = err.decode("latin-1")
            m = re.search(r"NFUZZ-DONE exhaustive=(\d+) exits=(\d+)", txt)
            if m and rc == 0:
                done += int(m.group(1))
                exits += int(m.group(2))
                break
            crashes.append(txt)
            mi = re.search(r"idx=(\d+)", txt)
            if not mi:
                break
            start = int(mi.group(1)) + 1
        return t, mt, done, exits, crashes
    with ThreadPoolExecutor(max_workers=nsh) as ex:
        for t, mt, done, exits, crashes in ex.map(one, jobs):
            ctx.evaluations += done
            ctx.count("exhaustive_%s_inputs" % t, done)
            ctx.count("reported_errors_via_exit", exits)
            ctx.counters["exhaustive_%s_maxtokens" % t] = mt
            for c in crashes:
                crash_report(ctx, t, c, "exhaustive(<=%d tokens)" % mt)
    ctx.distinct_extra += sum(v for k, v in ctx.counters.items() if k.startswith("exhaustive_") and k.endswith("_inputs"))


HAND_MANIFESTS = [
    "rule r\n  command = echo $command\nbuild out: r\n",
    "cc = gcc\nrule r\n  command = $cc $command\nbuild out: r\n",
    "rule r\n  command = $a\n  a = $b\n  b = $c $in\n  c = $a\nbuild out: r in\n",
    "x = 1\nrule r\n  command = c\n  description = $x $description\nbuild out: r\n",
    "rule r\n  command = c\n  pool = $y$pool\nbuild out: r\n",
    "rule r\n  command = c\n  depfile = $out.d $depfile\n  deps = gcc\nbuild out: r\n",
    "rule r\n  command = c $out\n  rspfile = $out.rsp\n  rspfile_content = $x $rspfile_content\nbuild out: r\n",
    "include build.ninja\n", "subninja a.ninja\n\n---\ninclude b.ninja\n\n---\nsubninja build.ninja\n",
    "build a: phony a\nbuild b: phony || b a\nbuild c: phony | c\ndefault a b c\n",
    "rule r\n  command = c\nbuild a | a2: r b || c |@ d\n  dyndep = c\nbuild c: r\n",
    "pool p\n  depth = 0\npool q\n  depth = -1\n", "pool p\n  depth = 99999999999999999999\nrule r\n  command = c\n  pool = p\nbuild o: r\n",
    "ninja_required_version = 99999.99999\n", "ninja_required_version = 1.$\n", "builddir = $builddir/x\n",
    "rule r\n  command = $in_newline $out ${in} $$ $: $\n   continued\nbuild o$ ut: r i$:n\n",
    "rule r\r\n  command = c\r\nbuild o: r\r\n", "\tbuild o: r\n", "build o: phony" + " x" * 300 + "\n",
    "rule r\n  command = c\nbuild " + "a" * 5000 + ": r\n", "default\n", "default nothere\n", "rule phony\n  command = c\n",
]


def _binding_manifests():
    """Every rule-level binding expanding $in / $in_newline / $out (alone, or through another binding), on build statements with
    every mix of explicit / implicit / order-only inputs, validations and explicit / implicit outputs: the parser evaluates some
    bindings (pool, dyndep) while the statement is still being put together."""
    out = []
    keys = ["pool", "description", "depfile", "rspfile", "rspfile_content", "dyndep", "deps", "restat", "generator", "msvc_deps_prefix", "command"]
    lines = []
    for no in (1, 2):
        for nio in (0, 1, 2):
            for ni in (0, 1, 2):
                for nii in (0, 1):
                    for noi in (0, 2):
                        l = "build " + " ".join("o%d" % k for k in range(no))
                        if nio:
                            l += " | " + " ".join("io%d" % k for k in range(nio))
                        l += ": r " + " ".join("i%d" % k for k in range(ni))
                        if nii:
                            l += " | ii0"
                        if noi:
                            l += " || oi0 oi1"
                        if (no + nio + ni) % 2:
                            l += " |@ v0"
                        lines.append(l)
    n = 0
    for key in keys:
        for var in ("$in", "$in_newline", "$out", "${in}x${out}", "$description", "$depfile"):
            for l in lines[n % 3::3]:
                m = "pool $\n  depth = 1\n" if False else ""
                m += "rule r\n"
                if key != "command":
                    m += "  command = c\n"
                if var in ("$description", "$depfile"):
                    if key in ("description", "depfile"):
                        continue
                    m += "  %s = $out $in\n" % var[1:]
                m += "  %s = %s\n" % (key, var)
                if key == "rspfile":
                    m += "  rspfile_content = $in\n"
                if key == "rspfile_content":
                    m += "  rspfile = $out.rsp\n"
                m += l + "\n"
                out.append(m)
            n += 1
    return out


HAND_MANIFESTS += _binding_manifests()


def mutate(rng, data, n=1):
    d = bytearray(data)
    for _ in range(n):
        if not d:
            d = bytearray(b"x")
        x = rng.random()
        i = rng.randrange(len(d))
        if x < 0.3:
            d[i] = rng.randrange(256)
        elif x < 0.45:
            d[i] ^= 1 << rng.randrange(8)
        elif x < 0.6:
            del d[i:i + rng.randint(1, 4)]
        elif x < 0.75:
            d[i:i] = bytes(rng.randrange(256) for _ in range(rng.randint(1, 4)))
        elif x < 0.85:
            j = rng.randrange(len(d))
            d[i:i] = d[j:j + rng.randint(1, 20)]
        elif x < 0.93:
            d = d[:i]
        else:
            d[i:i] = rng.choice((b"$", b"\n", b"\0", b" ", b":", b"|", b"\xff\xff\xff\xff", b"\x00\x00\x00\x80", b"include ", b"subninja ", b"${"))
    return bytes(d)


def seeds_for(rng, target, n):
    out = []
    if target == "manifest":
        out += [x.encode("latin-1") for x in HAND_MANIFESTS]
        for k in range(n):
            g = gen.Gen(random.Random(rng.randint(0, 2 ** 60)), size=rng.randint(1, 8), feat=dict(dyndep=0.0, pools=0.5, rsp=0.3))
            sc = g.scenario("f")
            txt = simlib.render_manifest(sc)["build.ninja"]
            if rng.random() < 0.3:
                txt = txt + "\n---\n" + "rule zz\n  command = zz $in\nx = 1\n" + "\n---\n" + "include a.ninja\n"
                txt = ("include a.ninja\nsubninja b.ninja\n" if rng.random() < 0.5 else "subninja a.ninja\n") + txt
            out.append(txt.encode("latin-1"))
        # include graphs over the three files of the in-memory file set (build.ninja, a.ninja, b.ninja), cyclic or not, with
        # one or several include/subninja lines per file (a cycle entered twice per level is 2^depth loads if only the depth is
        # bounded), the file names spelt plainly, with './' and 'x/../', and through a variable that grows at every level
        files = ["build.ninja", "a.ninja", "b.ninja"]
        for k in range(max(8, n // 8)):
            parts = []
            for f in files:
                L = ["rule r%d\n  command = c $in $out" % len(parts)] if rng.random() < 0.6 else []
                if rng.random() < 0.3:
                    L.append("p = ./$p")
                for _ in range(rng.choice((0, 1, 1, 2, 2, 3))):
                    tgt = rng.choice(files)
                    sp = rng.choice((tgt, tgt, "./" + tgt, "x/../" + tgt, ".//" + tgt, "${p}" + tgt, "$p/" + tgt))
                    L.append("%s %s" % (rng.choice(("include", "subninja")), sp))
                if rng.random() < 0.5:
                    L.append("build o%d: r%d i" % (len(parts), len(parts)) if L and L[0].startswith("rule") else "build o%d: phony" % len(parts))
                parts.append("\n".join(L) + "\n")
            out.append("\n---\n".join(parts).encode("latin-1"))
        # ... and cycles for certain: build.ninja -> ... -> back, every file on the cycle naming its successor one to three times
        for k in range(max(6, n // 16)):
            cyc = ["build.ninja"] + rng.sample(["a.ninja", "b.ninja"], rng.randint(0, 2))
            fan = rng.choice((1, 2, 2, 3))
            texts = {f: "" for f in files}
            for i, f in enumerate(cyc):
                nxt = cyc[(i + 1) % len(cyc)]
                if rng.random() < 0.3:
                    texts[f] += "p = ./$p\n"
                for _ in range(fan):
                    sp = rng.choice((nxt, nxt, "./" + nxt, "x/../" + nxt, "${p}" + nxt))
                    texts[f] += "%s %s\n" % (rng.choice(("include", "subninja")), sp)
            out.append("\n---\n".join(texts[f] for f in files).encode("latin-1"))
    elif target in ("depfile", "depfileload"):
        for k in range(n):
            T = [bytes(rng.choice(b"ab/. \\#$:%") for _ in range(rng.randint(1, 9)))]
            D = [bytes(rng.choice(b"ab/. \\#$:%c") for _ in range(rng.randint(1, 12))) for _ in range(rng.randint(0, 6))]
            out.append(c15mod.layout(T, D, rng.choice(list(c15mod.DIALECTS)), rng.choice(c15mod.LAYOUTS), rng.choice((b"\n", b"\r\n"))))
    elif target == "dyndep":
        base = ["ninja_dyndep_version = 1\nbuild out: dyndep\nbuild out2 | imp: dyndep\n",
                "ninja_dyndep_version = 1.0\nbuild out | o1 o2: dyndep | in4 in5\n  restat = 1\nbuild out2 | imp: dyndep | x\n",
                "ninja_dyndep_version = 1\nbuild out: dyndep | other\nbuild out2 | imp: dyndep | out\n"]
        out = [rng.choice(base).encode() for _ in range(n // 4)]
        # structured: any statement of the fixed graph (bound to the file or not) with implicit outputs and inputs drawn
        # from every name the graph knows - the file itself, the statements' own outputs and inputs, each other - and new ones
        names = ["out", "out2", "imp", "other", "x", "dd", "in", "in2", "in3", "new1", "new2", "sub/new3", "build.ninja", "a$ b", "$$x"]
        while len(out) < n:
            L = ["ninja_dyndep_version = %s" % rng.choice(("1", "1", "1", "1.0", "1.5", "2", ""))]
            stmts = [("out", ""), ("out2", "imp")]
            if rng.random() < 0.15:
                stmts.append((rng.choice(("other", "x", "nosuch", "imp")), ""))
            if rng.random() < 0.15:
                stmts.pop(rng.randrange(len(stmts)))
            if rng.random() < 0.1 and stmts:
                stmts.append(rng.choice(stmts))
            rng.shuffle(stmts)
            for o, _ in stmts:
                line = "build " + o
                io = rng.sample(names, rng.choice((0, 0, 1, 1, 2, 3)))
                if io:
                    line += " | " + " ".join(io)
                line += ": dyndep"
                ii = rng.sample(names, rng.choice((0, 0, 1, 1, 2, 3)))
                if ii:
                    line += " | " + " ".join(ii)
                if rng.random() < 0.05:
                    line += " || " + rng.choice(names)
                L.append(line)
                if rng.random() < 0.2:
                    L.append("  restat = %s" % rng.choice(("1", "0", "", "$x")))
            out.append(("\n".join(L) + rng.choice(("\n", "\n", "", "\r\n"))).encode())
    elif target == "buildlog":
        for k in range(n):
            lines = [b"# ninja log v7"]
            for _ in range(rng.randint(0, 12)):
                lines.append(b"%d\t%d\t%d\t%s\t%x" % (rng.randint(0, 9999), rng.randint(0, 9999), rng.choice((0, 1, 2 ** 62, rng.randint(0, 2 ** 40))),
                                                       bytes(rng.choice(b"abc/._ ") for _ in range(rng.randint(1, 10))), rng.getrandbits(64)))
            out.append(b"\n".join(lines) + b"\n")
    elif target == "depslog":
        for k in range(n):
            d = bytearray(c09mod.HDR)
            paths = []
            for _ in range(rng.randint(0, 8)):
                x = rng.random()
                if x < 0.6 or not paths:
                    p = bytes(rng.choice(b"abc/._") for _ in range(rng.randint(1, 11)))
                    pad = (4 - len(p) % 4) % 4
                    d += struct.pack("<I", len(p) + pad + 4) + p + b"\0" * pad + struct.pack("<I", (~len(paths)) & 0xFFFFFFFF)
                    paths.append(p)
                else:
                    ids = [rng.randrange(len(paths)) for _ in range(rng.randint(0, 4))]
                    d += struct.pack("<Iiii", 0x80000000 | (12 + 4 * len(ids)), rng.randrange(len(paths)), rng.randint(0, 2 ** 31 - 1), rng.randint(0, 3))
                    d += b"".join(struct.pack("<i", i) for i in ids)
            if rng.random() < 0.5:
                d += c09mod.damage_tail(rng, bytes(d), len(d), len(paths))
            out.append(bytes(d))
    elif target == "clparser":
        for k in range(n):
            L = []
            for _ in range(rng.randint(0, 8)):
                L.append(rng.choice((b"Note: including file: ", b"Note: including file:   ", b"PFX ", b"", b"foo.cc", b"warning: x")) +
                         bytes(rng.choice(b"abc:\\/. ") for _ in range(rng.randint(0, 12))))
            out.append(rng.choice((b"\n", b"\r\n", b"\r")).join(L))
    elif target == "makeflags":
        out = [rng.choice((b" -j4 --jobserver-auth=fifo:/tmp/x", b"--jobserver-fds=3,4 -j", b"n --jobserver-auth=3,4", b"-- X=1 --jobserver-auth=sem",
                           b"kj --jobserver-auth=fifo:")) for _ in range(n)]
    elif target == "status":
        out = [rng.choice((b"[%s/%f/%t/%r/%u] ", b"%p %e %o %c %w", b"%E %P %W %%", b"[$started/$finished/$total] ${description}", b"$elapsed $eta %",
                           b"%", b"$", b"${", b"$x")) for _ in range(n)]
    else:
        out = [bytes(rng.randrange(256) for _ in range(rng.randint(0, 40))) for _ in range(n)]
    return out


def replay_corpus(ctx, quick, rng, keep_dir):
    """structure-aware seeds + mutants through the stand-alone replayer. Returns {target: [files]} kept for the e2e part."""
    b = sa_bin()
    kept = {}
    nseed = 400 if quick else 6000
    nmut = 6 if quick else 30
    for t in TARGETS:
        seeds = seeds_for(rng, t, nseed if t in ("manifest", "depfile", "dyndep", "buildlog", "depslog") else nseed // 4)
        files = []
        d = os.path.join(keep_dir, t)
        os.makedirs(d, exist_ok=True)
        k = 0
        for s in seeds:
            for m in range(nmut + 1):
                data = s if m == 0 else mutate(rng, s, rng.choice((1, 1, 2, 4)))
                p = os.path.join(d, "%06d" % k)
                with open(p, "wb") as f:
                    f.write(data)
                files.append(p)
                k += 1
        kept[t] = files
        # replay in chunks, resuming after a crash
        chunks = [files[i::util.NCPU] for i in range(util.NCPU)]

        def one(chunk):
            res, pending = [], list(chunk)
            n = 0
            while pending and n < 15:
                n += 1
                rc, out, err, to = util.run([b, "replay"] + pending, env=env_for(t), timeout=3000)
                txt = err.decode("latin-1")
                if rc == 0 and "NFUZZ-DONE" in txt:
                    break
                res.append(txt)
                m = re.search(r"hex=([0-9a-f]*)", txt)
                if not m:
                    break
                bad = bytes.fromhex(m.group(1))
                # drop everything up to and including the crashing file
                idx = None
                for i, p in enumerate(pending):
                    with open(p, "rb") as f:
                        dd = f.read()
                    if dd[:len(bad)] == bad[:len(dd)] and (len(dd) == len(bad) or len(bad) >= 2000):
                        idx = i
                        break
                if idx is None:
                    break
                pending = pending[idx + 1:]
            return res
        with ThreadPoolExecutor(max_workers=util.NCPU) as ex:
            for res in ex.map(one, chunks):
                for txt in res:
                    crash_report(ctx, t, txt, "structure-aware replay")
        ctx.evaluations += len(files)
        ctx.count("replayed_%s" % t, len(files))
        for f in files[:200]:
            ctx.nontrivial(open(f, "rb").read())
    return kept


def libfuzzer(ctx, quick, corpus_root=None):
    b = lf_bin()
    runs = 150000 if quick else 4000000
    big = {"manifest": 400, "dyndep": 300, "depfile": 300, "depfileload": 300, "buildlog": 600, "depslog": 400, "clparser": 300, "makeflags": 120, "status": 80,
           "elide": 200, "stripansi": 100, "json": 100, "canon": 200, "editdistance": 60}
    jobs = []
    per = 1 if quick else 3
    for t in TARGETS:
        for k in range(per):
            jobs.append((t, ctx.seed * 100 + k + 1))

    def one(job):
        t, seed = job
        d = util.scratch("nfuzz-lf-")
        try:
            # ninja never frees its graph (by design), so a fuzzing process grows with every execution: the budget is spent
            # in processes of at most 400 000 executions that share the corpus directory
            total = runs if t in ("manifest", "dyndep", "depslog", "buildlog", "depfile", "depfileload") else runs // 3
            txt, rc, to, chunk = "", 0, False, 0
            while total > 0 and rc == 0 and not to:
                nrun = min(total, 400000)
                total -= nrun
                rc, out, err, to = util.run([b, "-runs=%d" % nrun,
                                             "-max_len=%d" % big[t], "-seed=%d" % (seed + 1000 * chunk), "-timeout=20", "-rss_limit_mb=3000", "-malloc_limit_mb=1500",
                                             "-print_final_stats=1", "-artifact_prefix=%s/" % d, "-verbosity=0", d] +
                                            ([os.path.join(corpus_root, t)] if corpus_root and os.path.isdir(os.path.join(corpus_root, t)) else []),
                                            env=env_for(t), timeout=7200, cwd=d)
                chunk += 1
                txt += err.decode("latin-1")
                if rc != 0 and "out-of-memory (used" in txt:
                    # accumulated growth or one input's doing?  the artifact alone, in a fresh process, decides
                    arts = [f for f in os.listdir(d) if f.startswith("oom-")]
                    alone = util.run([b, "-rss_limit_mb=3000", "-malloc_limit_mb=1500", "-timeout=20", os.path.join(d, arts[0])], env=env_for(t), timeout=600, cwd=d) if arts else None
                    if alone is not None and alone[0] == 0:
                        for f in arts:
                            os.unlink(os.path.join(d, f))
                        txt = txt.replace("out-of-memory (used", "accumulated-growth (used")
                        txt += "\nNFUZZ-NOTE rss limit reached by accumulation, artifact alone is fine\n"
                        rc = 0
            if rc != 0 and "NFUZZ-CRASH-INPUT" not in txt:
                for f in os.listdir(d):
                    if f.startswith(("crash-", "timeout-", "oom-")):
                        with open(os.path.join(d, f), "rb") as fh:
                            txt += "\nNFUZZ-CRASH-INPUT target=%s idx=0 hex=%s\n" % (t, fh.read()[:4000].hex())
                        break
            return t, rc, txt, to
        finally:
            util.rmtree(d)
    with ThreadPoolExecutor(max_workers=util.NCPU) as ex:
        for t, rc, txt, to in ex.map(one, jobs):
            n = sum(int(x) for x in re.findall(r"stat::number_of_executed_units: (\d+)", txt))
            if "NFUZZ-NOTE rss limit reached by accumulation" in txt:
                ctx.count("libfuzzer_processes_restarted_for_memory_growth")
            ctx.evaluations += n
            ctx.count("libfuzzer_%s_execs" % t, n)
            mc = re.findall(r"cov: (\d+) ft: (\d+)", txt)
            ma = [int(x) for x in re.findall(r"stat::new_units_added:\s+(\d+)", txt)]
            if ma:
                ctx.count("libfuzzer_%s_new_units" % t, sum(ma))
                ctx.distinct_extra += sum(ma)
            if to:
                ctx.inconclusive += 1
                continue
            if rc != 0:
                if "ERROR: libFuzzer: timeout" in txt:
                    ctx.violation("C13/%s/hang" % t, "libFuzzer timeout: %s" % txt[-1500:], {"target": t})
                elif "out-of-memory" in txt:
                    ctx.violation("C13/%s/out-of-memory" % t, txt[-1500:], {"target": t})
                else:
                    crash_report(ctx, t, txt, "libFuzzer")


def real_binary(ctx, quick, rng, kept):
    """a sample of the inputs as real files in a build directory, through the real binary"""
    n = 40 if quick else 600
    jobs = []
    for t in ("manifest", "depfile", "dyndep", "buildlog", "depslog"):
        fs = kept.get(t, [])
        for f in rng.sample(fs, min(n, len(fs))):
            jobs.append((t, f))
    # always part of the sample: text that ends up quoted in ninja's own diagnostics (a diagnostic that is used as a
    # format string, or copied into a fixed buffer, only fails on particular content)
    fmt = "%s%s%s%n%s%n%d%c%s%s%s%s%n"
    extra = {
        "dyndep": ["ninja_dyndep_version = 1\nbuild %s: dyndep\n" % fmt,
                   "ninja_dyndep_version = 1\nbuild out | %s: dyndep\nbuild out2 | imp: dyndep\n" % fmt,
                   "ninja_dyndep_version = 1\nbuild out: dyndep | %s\nbuild out2 | imp: dyndep\n" % fmt,
                   "ninja_dyndep_version = %s\n" % fmt, "ninja_dyndep_version = 1\nbuild out: dyndep\n  %s = 1\n" % fmt,
                   "ninja_dyndep_version = 1\n%s\n" % fmt, "ninja_dyndep_version = 1\nbuild out %s\n" % fmt,
                   "ninja_dyndep_version = 1\nbuild out: dyndep\nbuild out: dyndep\nbuild out2 | imp %s: dyndep\n" % fmt],
        "manifest": ["rule r\n  command = %s\nbuild %s: r %s\ndefault %s\n" % (fmt, "a" + fmt, "b" + fmt, "nosuch" + fmt),
                     "rule %s\n  command = x\nbuild a: nosuch%s\n" % (fmt, fmt), "%s\n" % fmt, "build a: phony %s\n  pool = %s\n" % (fmt, fmt),
                     "include %s\n" % fmt, "subninja %s\n" % fmt, "pool %s\n  depth = %s\n" % (fmt, fmt)],
        "depfile": ["%s: %s\n" % (fmt, fmt), "out %s: in\n" % fmt, "out: in\nin %s: x\n" % fmt, "%s\n" % fmt],
    }
    # the response file name at every small offset of the command line, with and without the options `-t compdb -x` looks for in
    # front of it (and with those options elsewhere in the command): offsets are compared with unsigned arithmetic there
    for L in list(range(0, 18)) + [30]:
        for tail in ("", " -f other", " --option-file=other", " @other"):
            for lead in ("", "@", "-f ", "--option-file="):
                pre = ("p" * max(0, L - len(lead))) + lead
                extra["manifest"].append("rule r\n  command = %s$out.rsp%s\n  rspfile = $out.rsp\n  rspfile_content = $in_newline\nbuild x: r in in2\nbuild out: r x\n" % (pre, tail))
    k = 0
    for t, texts in extra.items():
        os.makedirs(os.path.join("/dev/shm", "nfuzz-%d-extra" % os.getpid()), exist_ok=True)
        for txt in texts:
            f = os.path.join("/dev/shm", "nfuzz-%d-extra" % os.getpid(), "%s-%d" % (t, k))
            k += 1
            with open(f, "wb") as fh:
                fh.write(txt.encode("latin-1"))
            jobs.append((t, f))
    ninja = e2e.ninja_bin()

    def one(job):
        t, f = job
        data = open(f, "rb").read()
        d = util.scratch("ne2e-fz-")
        bad = []
        try:
            base = b"rule cc\n  command = true\n  depfile = out.d\nrule r\n  command = true\nbuild out: cc in || dd\n  dyndep = dd\nbuild out2 | imp: r in2 || dd\n  dyndep = dd\nbuild other: r in3\nbuild x: r out\n"
            files = {"build.ninja": base, "in": b"", "in2": b"", "in3": b"", "dd": b"ninja_dyndep_version = 1\nbuild out: dyndep\nbuild out2 | imp: dyndep\n"}
            if t == "manifest":
                parts = data.split(b"\n---\n")
                files = {"build.ninja": parts[0]}
                if len(parts) > 1:
                    files["a.ninja"] = parts[1]
                if len(parts) > 2:
                    files["b.ninja"] = parts[2]
            elif t == "depfile":
                files["out.d"] = data
                files["out"] = b"x"
            elif t == "dyndep":
                files["dd"] = data
            elif t == "buildlog":
                files[".ninja_log"] = data
            elif t == "depslog":
                files[".ninja_deps"] = data
            for p, c in files.items():
                with open(os.path.join(d, p), "wb") as fh:
                    fh.write(c)
            env = build.san_env()
            env["TERM"] = "dumb"
            for args in ([], ["-n"], ["-t", "clean"], ["-t", "deps"], ["-t", "recompact"], ["-t", "cleandead"], ["-t", "commands"],
                         ["-t", "query", "out"], ["-t", "query", "out2", "x"], ["-t", "graph"], ["-t", "inputs", "x"], ["-t", "targets", "all"],
                         ["-t", "compdb"], ["-t", "missingdeps"], ["-d", "explain", "-n", "x"], ["-t", "compdb", "-x"], ["-t", "compdb", "-x", "r", "cc"],
                         ["-t", "compdb-targets", "x"], ["-t", "multi-inputs", "x", "out"], ["-t", "inputs", "--dependency-order", "x"],
                         ["-t", "commands", "-s", "x"], ["-t", "rules", "-d"], ["-t", "targets", "rule"], ["-t", "targets", "depth", "3"],
                         ["-t", "restat"], ["-t", "clean", "-r", "r"], ["-t", "clean", "x"], ["-d", "explain", "-d", "stats", "x"]):
                try:
                    p = subprocess.run([ninja, "-j2"] + args if not args or args[0] != "-t" else [ninja] + args, cwd=d, env=env,
                                       stdout=subprocess.PIPE, stderr=subprocess.PIPE, timeout=60)
                    txt = (p.stdout + p.stderr).decode("latin-1")
                    sig = util.san_signature(txt)
                    if sig or p.returncode < 0:
                        bad.append(("%s" % (sig or "signal%d" % -p.returncode), " ".join(args), txt[-1500:]))
                        break
                except subprocess.TimeoutExpired:
                    bad.append(("hang", " ".join(args), ""))
                    break
        finally:
            util.rmtree(d)
        return t, f, data, bad
    with ThreadPoolExecutor(max_workers=util.NCPU) as ex:
        for t, f, data, bad in ex.map(one, jobs):
            ctx.evaluations += 1
            ctx.count("real_binary_%s" % t)
            for sig, args, txt in bad:
                ctx.violation("C13/real-binary/%s/%s" % (t, sig), "ninja %s with a %s of %r...: %s" % (args, t, data[:120], txt),
                              {"target": t, "input_hex": data.hex()[:8000], "args": args})


def run(ctx):
    quick = ctx.tier == "quick"
    rng = random.Random(ctx.seed * 1009 + 13)
    exhaustive(ctx, quick)
    keep = util.scratch("nfuzz-corpus-")
    try:
        kept = replay_corpus(ctx, quick, rng, keep)
        c13vg.memcheck(ctx, quick, kept, rng)
        libfuzzer(ctx, quick, keep)
        real_binary(ctx, quick, rng, kept)
    finally:
        util.rmtree(keep)
    for f in __import__("glob").glob("/dev/shm/nfuzz-%d-*" % os.getpid()):
        util.rmtree(f)
    ctx.rule = ("per parser: all token strings up to N tokens (N per target in counters), generated valid files + byte/field mutants, "
                "libFuzzer -runs bounded executions, a sample through the real binary; distinct_nontrivial = exhaustively enumerated "
                "inputs (all distinct) + corpus units libFuzzer kept for new coverage + distinct structure-aware inputs (first 200/target)")
    ctx.samples = [{"target": "manifest", "example": "include build.ninja (4 tokens) -> must be an error, not a stack overflow"},
                   {"target": "depslog", "example": "header + deps record of size 8 (shorter than its fixed part)"}]


def replay(ctx, path):
    j = json.load(open(path))["replay"]
    t, hx = j["target"], j.get("input_hex", "")
    d = util.scratch("nfuzz-replay-")
    try:
        p = os.path.join(d, "input")
        with open(p, "wb") as f:
            f.write(bytes.fromhex(hx))
        rc, out, err, to = util.run([sa_bin(), "replay", p], env=env_for(t), timeout=120)
        print("replay rc=%s" % rc)
        print(err.decode("latin-1")[-3000:])
        ctx.evaluations = 1
        ctx.distinct_extra = 2
        if rc != 0:
            crash_report(ctx, t, err, "replay")
    finally:
        util.rmtree(d)
