"""C13, second memory oracle: the structure-aware corpus replayed through an *uninstrumented* build of the same harness under
valgrind memcheck.  ASan/UBSan do not see reads of uninitialised memory (a member a refactor forgot to initialise, a stack
buffer only partly filled, padding bytes handed to write()); memcheck does, and it gives a second opinion on heap accesses.
Leaks are not judged (ninja leaks by design).  MemorySanitizer is not usable here (uninstrumented libstdc++)."""
import os, re
from concurrent.futures import ThreadPoolExecutor
from .. import build, util

VG = ["valgrind", "-q", "--error-exitcode=99", "--leak-check=no", "--track-origins=yes", "--num-callers=12",
      "--child-silent-after-fork=yes"]
ERR = re.compile(r"==\d+== (Invalid (?:read|write|free)[^\n]*|Conditional jump or move depends on uninitialised value\(s\)|"
                 r"Use of uninitialised value[^\n]*|Syscall param [^\n]*|Mismatched free[^\n]*|Source and destination overlap[^\n]*|"
                 r"Jump to the invalid address[^\n]*|Process terminating with default action of signal \d+[^\n]*)")


def vg_bin():
    return build.get_bin("nfuzz-vg", ["fuzz_targets.cc"], flavor="vg", extra=["-DSTANDALONE"], link_extra=["-Wl,--wrap=exit"])


def signature(txt):
    """kind + the first three frames inside ninja or the harness, without addresses and line numbers"""
    m = ERR.search(txt)
    if not m:
        return None
    kind = re.sub(r"\s+of size \d+", "", m.group(1))
    kind = re.sub(r"\(s\)", "", kind)
    kind = re.sub(r"[^A-Za-z0-9]+", "_", kind).strip("_").lower()[:48]
    frames = []
    for fm in re.finditer(r"==\d+==\s+(?:at|by) 0x[0-9A-F]+: ([^\n]*?) \(([^()\n]*)\)\n", txt[m.end():m.end() + 4000]):
        fn, where = fm.group(1), fm.group(2)
        if where.startswith("in /usr") or "vg_replace" in where or fn.startswith("std::") or fn.startswith("__"):
            continue
        fn = re.sub(r"\(.*", "", fn.replace("(anonymous namespace)::", ""))
        frames.append(fn)
        if len(frames) == 3:
            break
    return "memcheck:%s@%s" % (kind, ">".join(frames))


def run_chunk(b, target, files, tag):
    e = dict(os.environ)
    e["FUZZ_TARGET"] = target
    e["NFUZZ_TAG"] = tag
    rc, out, err, to = util.run(VG + [b, "replay"] + files, env=e, timeout=1800)
    return rc, err.decode("latin-1"), to


def memcheck(ctx, quick, kept, rng):
    """kept: {target: [files]} from the structure-aware replay (seeds and their mutants)."""
    b = vg_bin()
    per = 320 if quick else 4000
    jobs = []
    for t, files in sorted(kept.items()):
        pick = list(files)
        rng.shuffle(pick)
        pick = pick[:per]
        n = 80
        for i in range(0, len(pick), n):
            jobs.append((t, pick[i:i + n]))
    tag = "vg%d" % os.getpid()

    def one(job):
        t, files = job
        rc, txt, to = run_chunk(b, t, files, tag)
        if to:
            return (t, files, "timeout", [])
        if rc == 0 and "NFUZZ-DONE" in txt:
            return (t, files, "ok", [])
        # something was reported (99), or the process died: find the inputs, one process per input
        bad = []
        for f in files:
            rc1, txt1, to1 = run_chunk(b, t, [f], tag)
            if to1:
                continue
            if rc1 != 0 or "NFUZZ-DONE" not in txt1:
                bad.append((f, rc1, txt1))
        return (t, files, "reported" if bad else "not-reproduced", bad)

    seen = 0
    with ThreadPoolExecutor(max_workers=util.NCPU) as ex:
        for t, files, what, bad in ex.map(one, jobs):
            ctx.evaluations += len(files)
            seen += len(files)
            ctx.count("memcheck_%s" % t, len(files))
            if what == "timeout":
                ctx.inconclusive += 1; ctx.count("memcheck_chunk_timeout")
            elif what == "not-reproduced":
                ctx.inconclusive += 1; ctx.count("memcheck_report_not_reproduced")
            for f, rc1, txt1 in bad:
                sig = signature(txt1)
                if not sig:
                    # died without a memcheck report (abort, signal): the ASan replay of the same file is the judge of that
                    ctx.count("memcheck_died_without_report")
                    continue
                data = open(f, "rb").read()
                ctx.violation("C13/%s/%s" % (t, sig), "valgrind memcheck, target=%s input=%r\n%s" % (t, data[:200], txt1[-2500:]),
                              {"target": t, "input_hex": data.hex(), "oracle": "memcheck"})
    ctx.count("memcheck_inputs", seen)
    if seen == 0:
        from .. import core
        raise core.Inconclusive("memcheck pass replayed nothing")
