"""C19 - dry runs and query tools observe without disturbing, and tell the truth.
e2e with the real binary: before/after snapshots around every tool, 'as if they had not run' against a pristine copy,
truthfulness of -n and -t commands, JSON validity and round trip of compdb."""
import copy, json, os, random, re, subprocess
from .. import simlib, gen, model, util, core, e2e
from ..simlib import St, all_outs
from ..logmodel import parse_build_log, parse_deps_log, deps_view
from .c07 import copy_tree

MANIFEST = dict(
    engine="e2e", category="exploration",
    technique="runtime monitoring of the real binary: file-tree and log-meaning snapshots around each tool, differential build against a "
              "pristine copy, predicted vs executed commands, structural JSON validation and round trip",
    text="(Round 10: the statement that regenerates the manifest may have order-only inputs / validations with work to do while the manifest itself is current; -n must go on to list the real build.) On generated trees in assorted states (never built, built, built+changes, after a failed build) each of -n, -t commands, inputs, "
         "multi-inputs, query, targets, rules, graph, compdb, compdb-targets, deps, missingdeps is run: no build command may execute "
         "(vtool event log empty), every file keeps name, content and mtime, the lock file is absent, and the MEANING of .ninja_log / "
         ".ninja_deps (independent parsers) is unchanged. Then the real build runs in the probed tree and in a pristine copy: same "
         "commands, same final contents. Truthfulness: the commands printed by -n -v equal those the real build runs (superset when a "
         "restat command prunes) in an order that respects dependencies; -t commands T equals the commands of a from-scratch build of "
         "T; compdb output parses as JSON (structural RFC 8259 over bytes) and round-trips command strings containing quotes, "
         "backslashes and every control byte a manifest can hold.",
    note="Trusted: Python's json module on latin-1 decoded bytes (bytes >= 0x80 are passed through by ninja and not judged as UTF-8). "
         "Graphs without pending dyndep files, as the property states.",
    ref="DESIGN.md §5 C19")

TOOLS = ["-n", "commands", "inputs", "multi-inputs", "query", "targets", "rules", "graph", "compdb", "compdb-targets", "deps", "missingdeps"]


def setup():
    e2e.ninja_bin()
    e2e.vtool_bin()


def log_meaning(tree):
    bd = (tree.sc or {}).get("builddir")
    pre = bd + "/" if bd else ""
    lg = tree.read(pre + ".ninja_log")
    dp = tree.read(pre + ".ninja_deps")
    return (parse_build_log(lg)[1] if lg is not None else None, deps_view(parse_deps_log(dp)) if dp is not None else None)


def ids_of(text):
    return re.findall(r"--id (\S+)", text)


def scenario(ctx, seed):
    rng = random.Random(seed)
    g = gen.Gen(random.Random(rng.randint(0, 2 ** 60)), size=rng.randint(3, 8),
                feat=dict(deps=0.5, rsp=0.2, multi=0.3, restat=0.25, phony=0.2, vals=0.2, generator=0.05, pools=0.2, dyndep=0.0))
    sc = g.scenario("C19-%d" % seed)
    if rng.random() < 0.35:
        sc["builddir"] = rng.choice(("bd", "out/logs"))       # the logs live in a directory of their own
    if rng.random() < 0.35:
        sc["regen_manifest"] = True
        sc["sources"]["build.ninja.in"] = "# what the manifest is generated from\n"
        cmds = [s_ for s_ in sc["stmts"] if s_["kind"] == "cmd" and not s_["generator"]]
        if cmds and rng.random() < 0.6:
            # the statement that regenerates the manifest needs (order-only) or asks for (validation) another statement's output:
            # that one can have work to do while the manifest itself is current - the build that brings the manifest up to date then
            # runs something, finds the manifest untouched and goes on with the real build; -n has to go on as well
            side = rng.choice(cmds)
            sc["regen_manifest_oins" if rng.random() < 0.6 else "regen_manifest_vals"] = [side["outs"][0]]
            ctx.count("scenarios_manifest_statement_with_side_work")
    t = e2e.Tree(sc)
    rep = {"seed": seed}
    try:
        rep["manifest"] = open(t.path("build.ninja")).read()
        state = rng.choice(("never", "built", "changed", "changed", "failed"))
        if state != "never":
            # sometimes keep the depfiles of deps=gcc rules on disk (as after a crash, or with -d keepdepfile)
            rc, so, se = t.run(["-j3"] + (["-d", "keepdepfile"] if rng.random() < 0.4 else []))
            if rc != 0:
                ctx.inconclusive += 1
                return
        if state in ("changed", "failed"):
            for _ in range(rng.randint(1, 3)):
                p = rng.choice(sorted(sc["sources"]))
                sc["sources"][p] += "// e%d\n" % rng.randint(0, 999999)
                t.write(p, sc["sources"][p])
            if rng.random() < 0.3:
                outs = [o for s in sc["stmts"] if s["kind"] == "cmd" for o in all_outs(s)]
                t.rm(rng.choice(outs))
        if state == "failed":
            victim = rng.choice([s for s in sc["stmts"] if s["kind"] == "cmd"])
            t.install(sc, extra={victim["id"]: ["--exit", "3"]})
            t.run(["-j2", "-k", "0"])
            t.install(sc)
        stale_manifest = False
        if sc.get("regen_manifest") and rng.random() < 0.7:
            # the manifest is out of date when the tools run: they must still not run its generator
            sc["sources"]["build.ninja.in"] += "# changed %d\n" % rng.randint(0, 999999)
            t.write("build.ninja.in", sc["sources"]["build.ninja.in"])
            stale_manifest = True
            ctx.count("scenarios_with_stale_self_regenerating_manifest")
        if sc.get("regen_manifest"):        # (an edit of a random source above may have hit build.ninja.in too)
            stale_manifest = os.stat(t.path("build.ninja.in")).st_mtime_ns > os.stat(t.path("build.ninja")).st_mtime_ns
        t.events(clear=True)
        pristine = util.scratch("ne2e-pristine-")
        try:
            copy_tree(t.d, pristine)
            outs = [s["outs"][0] for s in sc["stmts"]]
            tg = rng.sample(outs, rng.randint(1, min(3, len(outs))))
            rules = ["r_" + s["id"] for s in sc["stmts"] if s["kind"] != "phony"]
            dryrun_ids = None
            for tool in rng.sample(TOOLS, rng.randint(4, len(TOOLS))):
                before = t.snapshot()
                lm_before = log_meaning(t)
                if tool == "-n":
                    args = ["-n", "-v", "-j3"] + (tg if rng.random() < 0.5 else [])
                    dry_targets = args[3:]
                elif tool in ("commands", "inputs", "query", "compdb-targets"):
                    args = ["-t", tool] + tg
                elif tool == "multi-inputs":
                    args = ["-t", tool] + tg
                elif tool == "targets":
                    args = ["-t", "targets"] + rng.choice(([], ["all"], ["depth", "3"], ["rule"], ["rule", rules[0]] if rules else []))
                elif tool == "rules":
                    args = ["-t", "rules"] + rng.choice(([], ["-d"]))
                elif tool == "graph":
                    args = ["-t", "graph"] + (tg if rng.random() < 0.5 else [])
                elif tool == "compdb":
                    args = ["-t", "compdb"] + rng.choice(([], ["-x"], rules[:2]))
                elif tool == "deps":
                    args = ["-t", "deps"] + (tg if rng.random() < 0.5 else [])
                else:
                    args = ["-t", "missingdeps"] + (tg if rng.random() < 0.5 else [])
                rc, so, se = t.run(args)
                ctx.evaluations += 1
                ctx.count("tool_" + tool)
                what = "scenario %d (%s tree): ninja %s" % (seed, state, " ".join(args))
                txt = (so + se).decode("latin-1")
                if rc is None:
                    ctx.violation("C19/tool-hangs/" + tool, what, rep)
                    return
                sig = util.san_signature(txt)
                if sig:
                    ctx.violation("C19/sanitizer/%s/%s" % (tool, sig), "%s: %s" % (what, txt[-1500:]), rep)
                    return
                ev = t.events()
                if ev:
                    ctx.violation("C19/command-executed/" + tool, "%s executed build commands: %s" % (what, sorted({e['id'] for e in ev})), rep)
                    return
                after = t.snapshot()
                if sc.get("builddir"):
                    # the tools that open the logs make sure the directory for them exists: neither a source, an output nor a
                    # depfile, and an empty directory means the same as none
                    bd_dirs = {"/".join(sc["builddir"].split("/")[:k + 1]) + "/" for k in range(len(sc["builddir"].split("/")))}
                    after = {k_: v_ for k_, v_ in after.items() if k_ not in bd_dirs or k_ in before}
                if os.path.exists(t.path(".ninja_lock")) or ".ninja_lock" in after:
                    ctx.violation("C19/lock-file-left/" + tool, what, rep)
                    return
                if after != before:
                    diff = sorted(set(after.items()) ^ set(before.items()))[:3]
                    names = sorted({d[0] for d in diff})
                    kind = "created" if any(n not in before for n in names) else ("removed" if any(n not in after for n in names) else "modified")
                    ctx.violation("C19/tree-disturbed/%s/%s" % (tool, kind), "%s changed %s" % (what, names), rep)
                    return
                lm_after = log_meaning(t)
                if lm_after != lm_before:
                    # a log that did not exist may be created empty: same meaning as "no records"
                    norm = lambda m: tuple((x or {}) for x in m)
                    if norm(lm_after) != norm(lm_before):
                        ctx.violation("C19/log-meaning-changed/" + tool, "%s: %r -> %r" % (what, str(lm_before)[:300], str(lm_after)[:300]), rep)
                        return
                if tool == "-n":
                    dryrun_ids = (ids_of(so.decode("latin-1")), dry_targets, rc)
                if tool == "commands" and rc == 0:
                    judge_commands(ctx, sc, t, tg, so.decode("latin-1"), what, rep)
                if tool in ("compdb", "compdb-targets") and rc == 0:
                    try:
                        json.loads(so.decode("latin-1"))
                        ctx.count("compdb_json_valid")
                    except ValueError as ex:
                        ctx.violation("C19/compdb-invalid-json/" + tool, "%s: %s" % (what, ex), rep)
                        return
                if tool == "inputs" and rc == 0:
                    judge_inputs(ctx, sc, t, tg, so.decode("latin-1"), what, rep)
            # ---- as if they had not run: same build in the probed tree and in the pristine copy
            bt = dryrun_ids[1] if dryrun_ids else []
            rc1, so1, se1 = t.run(["-j1"] + bt)
            ev1 = [e["id"] for e in t.events() if e["e"] == "S"]
            p2 = e2e.Tree()
            try:
                copy_tree(pristine, p2.d)
                rc2, so2, se2 = p2.run(["-j1"] + bt)
                ev2 = [e["id"] for e in p2.events() if e["e"] == "S"]
                ctx.evaluations += 1
                ctx.nontrivial((seed, "pristine-compare", tuple(ev1)))
                if rc1 != rc2 or sorted(ev1) != sorted(ev2):
                    ctx.violation("C19/build-differs-after-tools", "scenario %d: after the tools the build ran %s (rc %s), in a pristine copy %s (rc %s)" %
                                  (seed, ev1, rc1, ev2, rc2), rep)
                    return
                s1 = {k: v[1] for k, v in t.snapshot().items() if k != "build.ninja"}
                s2 = {k: v[1] for k, v in p2.snapshot().items() if k != "build.ninja"}
                if s1 != s2:
                    ctx.violation("C19/contents-differ-after-tools", "scenario %d: %s" % (seed, sorted(set(s1.items()) ^ set(s2.items()))[:2]), rep)
                    return
                ctx.count("pristine_comparisons_equal")
            finally:
                p2.close()
            # ---- -n told the truth?
            # (with an out-of-date self-regenerating manifest -n stops after listing the generator command - ninja.cc says
            # so - and predicts nothing about the build that follows: not judged)
            if dryrun_ids is not None and dryrun_ids[2] == 0 and rc1 == 0 and not stale_manifest:
                predicted = dryrun_ids[0]
                ctx.count("dry_run_predictions_checked")
                restat_any = any(s["restat"] for s in sc["stmts"])
                if set(ev1) - set(predicted):
                    ctx.violation("C19/dry-run-missed-command", "scenario %d: real build ran %s, -n listed %s" % (seed, ev1, predicted), rep)
                    return
                if set(predicted) - set(ev1) and not restat_any:
                    ctx.violation("C19/dry-run-extra-command", "scenario %d: -n listed %s, real build ran %s (no restat rule in the graph)" %
                                  (seed, predicted, ev1), rep)
                    return
                g_, _ = e2e.clean_contents(sc, t)
                # (a command may be listed twice: once by the build that checks the manifest - side work behind the manifest's
                # statement - and again by the real build; what counts is that its prerequisite was listed before its first mention)
                pos = {}
                for i_, o_ in enumerate(predicted):
                    pos.setdefault(o_, i_)
                sid_of = {s["outs"][0]: s["id"] for s in sc["stmts"]}
                pairs = model.ordering_constraints(g_, {sid_of[o] for o in predicted if o in sid_of})
                out0 = {s["id"]: s["outs"][0] for s in sc["stmts"]}
                for p, c in pairs:
                    if out0[p] in pos and out0[c] in pos and pos[out0[p]] > pos[out0[c]]:
                        ctx.violation("C19/dry-run-order", "scenario %d: -n lists %s before its prerequisite %s" % (seed, out0[c], out0[p]), rep)
                        return
                if len(ctx.samples) < 2 and predicted:
                    ctx.sample({"scenario": seed, "state": state, "dry_run_listed": predicted, "real_build_ran": ev1})
        finally:
            util.rmtree(pristine)
    finally:
        t.close()


def judge_commands(ctx, sc, tree, tg, text, what, rep):
    """-t commands T == the commands of a from-scratch build of T, in dependency order"""
    listed = ids_of(text)
    g, _ = e2e.clean_contents(sc, tree)
    want = set()
    valonly = set()
    # closure through inputs; validation targets are part of what a from-scratch build runs
    for sid in g.closure(tg):
        s = g.by_id[sid]
        if s["kind"] != "phony":
            want.add(s["outs"][0])
    nov = set()
    seen, work = set(), list(tg)
    while work:
        f = work.pop()
        if f in seen:
            continue
        seen.add(f)
        s = g.producer.get(f)
        if s is None:
            continue
        if s["kind"] != "phony":
            nov.add(s["outs"][0])
        work += g.all_inputs(s)
    ctx.count("commands_tool_checked")
    if set(listed) - want:
        ctx.violation("C19/commands-tool-extra", "%s lists %s which a from-scratch build of %s does not run" % (what, sorted(set(listed) - want), tg), rep)
        return
    miss = want - set(listed)
    if miss:
        only_validation = miss <= (want - nov)
        ctx.violation("C19/commands-tool-omits/%s" % ("validation-targets" if only_validation else "other"),
                      "%s omits %s, which a from-scratch build of %s runs" % (what, sorted(miss), tg), rep)
        return
    pos = {o: i for i, o in enumerate(listed)}
    sid_of = {s["outs"][0]: s["id"] for s in sc["stmts"]}
    out0 = {s["id"]: s["outs"][0] for s in sc["stmts"]}
    for p, c in model.ordering_constraints(g, {sid_of[o] for o in listed}):
        if out0[p] in pos and out0[c] in pos and pos[out0[p]] > pos[out0[c]]:
            ctx.violation("C19/commands-tool-order", "%s lists %s before its prerequisite %s" % (what, out0[c], out0[p]), rep)
            return
    ctx.nontrivial(("commands", what))


def judge_inputs(ctx, sc, tree, tg, text, what, rep):
    listed = set(text.split())
    g, _ = e2e.clean_contents(sc, tree)
    want, seen, work = set(), set(), list(tg)
    while work:
        f = work.pop()
        if f in seen:
            continue
        seen.add(f)
        s = g.producer.get(f)
        if s is None:
            continue
        for i in s["ins"] + s["iins"] + s["oins"]:
            p = g.producer.get(i)
            if not (p is not None and p["kind"] == "phony"):
                want.add(i)
            work.append(i)
    ctx.count("inputs_tool_checked")
    if listed != want:
        ctx.violation("C19/inputs-tool-mismatch", "%s: lists %s, inputs of the closure are %s" % (what, sorted(listed ^ want)[:5], "..."), rep)


def compdb_roundtrip(ctx, seed):
    """commands with quotes, backslashes and every control byte a manifest can carry"""
    rng = random.Random(seed)
    d = util.scratch("ne2e-compdb-")
    try:
        cmds = []
        L = []
        pool = [bytes([b]) for b in range(1, 256) if b not in (10, 13, 36)] + [b'"', b"\\", b'\\"', b"\\\\", b"\t", b"\x7f"] * 4
        for i in range(rng.randint(2, 6)):
            c = b"cc " + b"".join(rng.choice(pool) for _ in range(rng.randint(1, 60))) + b" -c $in -o $out"
            cmds.append(c)
            L.append(b"rule r%d\n  command = %s\n" % (i, c))
        for i in range(len(cmds)):
            L.append(b"build out%d.o: r%d in%d.c\n" % (i, i, i))
        with open(os.path.join(d, "build.ninja"), "wb") as f:
            f.write(b"".join(L))
        for tool in (["-t", "compdb"], ["-t", "compdb-targets"] + ["out%d.o" % i for i in range(len(cmds))]):
            p = subprocess.run([e2e.ninja_bin()] + tool, cwd=d, env=dict(os.environ, **{"ASAN_OPTIONS": "detect_leaks=0:abort_on_error=1"}),
                               stdout=subprocess.PIPE, stderr=subprocess.PIPE, timeout=60)
            ctx.evaluations += 1
            rep = {"seed": seed, "manifest_hex": b"".join(L).hex()}
            if p.returncode != 0:
                err = p.stderr.decode("latin-1")
                if "lexing error" in err or "error:" in err:
                    ctx.count("compdb_manifest_rejected")     # some byte is not spellable in a manifest: not judged
                    return
                ctx.violation("C19/compdb-crash", err[-800:], rep)
                return
            try:
                j = json.loads(p.stdout.decode("latin-1"))
            except ValueError as ex:
                ctx.violation("C19/compdb-invalid-json/" + tool[1], "seed %d: %s" % (seed, ex), rep)
                return
            got = {e["output"]: e["command"].encode("latin-1") for e in j}
            for i, c in enumerate(cmds):
                want = c.replace(b"$in", b"in%d.c" % i).replace(b"$out", b"out%d.o" % i)
                # the lexer strips leading whitespace of a value and trailing nothing; commands start with 'cc'
                if got.get("out%d.o" % i) != want:
                    ctx.violation("C19/compdb-roundtrip", "seed %d: command %r comes back as %r" % (seed, want, got.get("out%d.o" % i)), rep)
                    return
            ctx.count("compdb_roundtrips_ok")
            ctx.nontrivial((seed, tool[1]))
    finally:
        util.rmtree(d)


def run(ctx):
    quick = ctx.tier == "quick"
    rng = random.Random(ctx.seed * 3571 + 19)
    seeds = [rng.randint(1, 10 ** 9) for _ in range(120 if quick else 3000)]
    from .c07 import safe
    e2e.parallel(lambda s: safe(ctx, scenario, ctx, s), seeds)
    cseeds = [rng.randint(1, 10 ** 9) for _ in range(150 if quick else 4000)]
    e2e.parallel(lambda s: safe(ctx, compdb_roundtrip, ctx, s), cseeds)
    ctx.rule = ("%d generated trees (never built / built / changed / after failure) x 4..12 tools each with random arguments, then the "
                "differential build against a pristine copy; %d compdb manifests with arbitrary command bytes; distinct_nontrivial = "
                "distinct differential builds + judged commands/compdb outputs" % (len(seeds), len(cseeds)))


def replay(ctx, path):
    j = json.load(open(path))["replay"]
    if "manifest_hex" in j:
        compdb_roundtrip(ctx, j["seed"])
    else:
        scenario(ctx, j["seed"])
    ctx.distinct_extra += 2
