"""C06 - concurrency limits hold, no slot idles, and the build always finishes.
nsim part: exhaustive completion orders on small graphs with pools, -j, simulated jobserver with a token thief,
failures; trace monitors.  The real RealCommandRunner / SubprocessSet / FIFO jobserver are exercised by the e2e part."""
import random
from .. import sched, simlib

MANIFEST = dict(
    engine="nsim+e2e", category="exploration",
    technique="runtime monitoring: exhaustive completion orders on small graphs (pools, -j, simulated jobserver with adversarial "
              "thief, failures); trace monitors for limits, at-most-once, no-idle, termination, token conservation; e2e runs with the "
              "real runner and a real FIFO jobserver",
    text="Every explored trace is checked instant by instant: running <= -j, running-in-pool <= depth (console: 1), running <= tokens "
         "held, no statement starts twice, nothing starts after the failure budget is spent. No-idle is checked post hoc: at every "
         "wait point, no command that starts later may already have had all its producers finished, a free global slot (or token), a "
         "free pool slot and failure budget. Termination: the invocation returns, never 'stuck', never waits with nothing running "
         "(nsim reports instead of hanging), waits <= 2*commands+10. Token conservation: acquired == released on every exit path "
         "(success, failure, StartEdge failure, interrupt). e2e: real ninja with -j/pools/console and a FIFO jobserver pre-loaded with "
         "N tokens - the FIFO must hold N tokens after exit on every path.",
    note="Trusted: SimRunner mirrors RealCommandRunner::CanRunMore/Abort (the real ones are covered by the e2e part); liveness is "
         "restated as bounded progress.",
    ref="DESIGN.md §5 C06")


def setup():
    simlib.nsim_bin()


def run(ctx):
    quick = ctx.tier == "quick"
    rng = random.Random(ctx.seed * 31337 + 6)
    feat = dict(pools=0.7, console=0.15, chain=0.5, order_only=0.4, vals=0.3, restat=0.2)
    items = sched.small_scenarios(ctx, "C06", 1200 if quick else 8000, rng, size=(2, 6), cap=250 if quick else 600, feat=feat,
                                  with_history=0.3)
    items += sched.small_scenarios(ctx, "C06", 500 if quick else 3000, rng, size=(2, 6), cap=150 if quick else 400, feat=feat,
                                   faults=True, with_history=0.2, salt=1)
    items += sched.small_scenarios(ctx, "C06", 700 if quick else 5000, rng, size=(2, 6), cap=150 if quick else 400, feat=feat,
                                   jobserver=1.0, with_history=0.2, salt=2)
    items += sched.small_scenarios(ctx, "C06", 400 if quick else 3000, rng, size=(2, 6), cap=100 if quick else 250, feat=feat,
                                   jobserver=1.0, faults=True, with_history=0.2, salt=3)
    # load-limited capacity (-l): the room left under the load limit fluctuates from call to call, down to nothing while
    # commands run; many phony statements so that ready work items are not all commands
    lim = sched.small_scenarios(ctx, "C06", 500 if quick else 3500, rng, size=(2, 7), cap=80 if quick else 200,
                                feat=dict(pools=0.4, chain=0.6, order_only=0.4, phony=0.4, restat=0.15, dyndep=0.1), with_history=0.2, salt=4)
    for scn, info in lim:
        ex = scn["steps"][info["explore_step"]]
        ex["load_caps"] = [rng.choice((0, 0, 1, 1, 2, 3, 8)) for _ in range(rng.randint(1, 7))]
    items += lim
    items += sched.special_c06(ctx, rng, 300 if quick else 2000)
    sched.run_explore(ctx, "C06", items)
    try:
        from .. import e2e
        e2e.c06_scenarios(ctx)
    except ImportError:
        ctx.count("e2e_part_skipped")
    ctx.rule = ("graphs of 2..6 statements with pools/console/-j/jobserver(0..4 tokens + thief script)/fault plans: all completion "
                "orders up to the cap; plus load-limited capacity scripts, StartEdge-failure and interrupt families; distinct_nontrivial = distinct (scenario, "
                "START/FINISH interleaving) with >= 2 commands")


def replay(ctx, path):
    sched.replay(ctx, "C06", path)
