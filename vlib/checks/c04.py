"""C04 - a command starts only after everything it needs is up to date and in place.
nsim, exhaustive enumeration of completion orders on small graphs, sampling on larger ones."""
import random
from .. import sched, simlib

MANIFEST = dict(
    engine="nsim+e2e", category="exploration",
    technique="runtime monitoring: exhaustive enumeration of command completion orders (stateless re-execution) on small graphs; "
              "START-time monitors over the reconstructed disk",
    text="For small generated graphs (2-6 statements; first builds and incremental builds after change sets) nsim enumerates EVERY "
         "completion order for the chosen -j/pools (capped per graph, cap reported), larger graphs are PRNG-sampled. At every START "
         "the monitor reconstructs the virtual disk from the event log and demands: every file the statement needs - explicit, "
         "implicit, order-only, through phony aliases, and recorded discovered dependencies - exists with exactly the content a clean "
         "build gives it; the directories of its outputs and depfile exist; its response file holds the declared bytes; after FINISH "
         "the response file is gone on success and kept on failure (C16 part 2).",
    note="Trusted: reference evaluator for clean contents; nsim's SimRunner reports START/FINISH at ninja's CommandRunner boundary. "
         "Validation edges impose no order - that is observed by C06's no-idle monitor.",
    ref="DESIGN.md §5 C04")


def setup():
    simlib.nsim_bin()
    from .. import e2e
    e2e.ninja_bin()
    e2e.vtool_bin()


def run(ctx):
    quick = ctx.tier == "quick"
    rng = random.Random(ctx.seed * 31337 + 4)
    items = sched.small_scenarios(ctx, "C04", 2000 if quick else 40000, rng, size=(2, 6), cap=250 if quick else 3000,
                                  feat=dict(order_only=0.6, deps=0.6, phony=0.2, restat=0.25, chain=0.55))
    items += sched.small_scenarios(ctx, "C04", 300 if quick else 4000, rng, size=(7, 14), cap=40 if quick else 300, salt=1,
                                   feat=dict(order_only=0.6, deps=0.6, phony=0.2, chain=0.7))
    # generated headers that a consumer knows only from its recorded discoveries (no manifest path to their generator),
    # after a first build, with the consumer and the generator out of date at the same time.  (Every output exists when the explored build starts: with a missing consumer output the known C10
    # finding - recorded dependencies are not loaded for it - would show up here as well.)
    items += sched.small_scenarios(ctx, "C04", 500 if quick else 10000, rng, size=(3, 7), cap=60 if quick else 600, salt=2, with_history=1.0,
                                   change_kinds=["edit", "edit", "edit_hdr", "touch", "cmd"], build_everything_first=True,
                                   feat=dict(deps=0.9, no_manifest_path=0.6, restat=0.15, chain=0.6, dyndep=0.0, phony=0.1, generator=0.0))
    # commands that fail (with -k 1, 2, 3 and 0): nothing that needs an output of a failed command may start, whichever of its
    # other producers finishes afterwards
    items += sched.small_scenarios(ctx, "C04", 700 if quick else 12000, rng, size=(3, 7), cap=120 if quick else 1500, salt=3, faults=True,
                                   feat=dict(order_only=0.5, deps=0.5, phony=0.2, restat=0.2, chain=0.6))
    sched.run_explore(ctx, "C04", items)
    # "its response file holds the declared content" on the real disk: a longer file may already be at that path (kept after a
    # failed command, kept by -d keeprsp, stale), the declared content may be empty
    from .. import e2e
    seeds = [rng.randint(1, 10 ** 9) for _ in range(45 if quick else 800)]
    e2e.parallel(lambda sd: e2e.c16_rsp_case(ctx, sd, prop="C04"), seeds)
    ctx.rule = ("graphs of 2..6 statements: all completion orders (cap %d per graph), 7..14 statements: first %d orders of the DFS; "
                "distinct_nontrivial = distinct (scenario, START/FINISH interleaving) with >= 2 commands" %
                ((250, 40) if quick else (3000, 300)))
    ctx.exhaustive = False


def replay(ctx, path):
    sched.replay(ctx, "C04", path)
