"""C04 - a command starts only after everything it needs is up to date and in place.
nsim, exhaustive enumeration of completion orders on small graphs, sampling on larger ones."""
import random
from .. import sched, simlib

MANIFEST = dict(
    engine="nsim+e2e", category="exploration",
    technique="runtime monitoring: exhaustive enumeration of command completion orders (stateless re-execution) on small graphs; "
              "START-time monitors over the reconstructed disk",
    text="(Round 10: ordering groups - phony statements over generated headers, nested 1-3 deep, inputs of any kind - with consumers that name only the top group.) For small generated graphs (2-6 statements; first builds and incremental builds after change sets) nsim enumerates EVERY "
         "completion order for the chosen -j/pools (capped per graph, cap reported), larger graphs are PRNG-sampled. At every START "
         "the monitor reconstructs the virtual disk from the event log and demands: every file the statement needs - explicit, "
         "implicit, order-only, through phony aliases, and recorded discovered dependencies - exists with exactly the content a clean "
         "build gives it; the directories of its outputs and depfile exist; its response file holds the declared bytes; after FINISH "
         "the response file is gone on success and kept on failure (C16 part 2).",
    note="Trusted: reference evaluator for clean contents; nsim's SimRunner reports START/FINISH at ninja's CommandRunner boundary. "
         "Validation edges impose no order - that is observed by C06's no-idle monitor.",
    ref="DESIGN.md §5 C04")


def setup():
    simlib.nsim_bin()
    from .. import e2e
    e2e.ninja_bin()
    e2e.vtool_bin()


def implicit_dd_family(ctx, rng, n, cap):
    """The dyndep file as a *further* output of the statement that makes it (`build scan.stamp | t.dd: scan ...`), loaded in the
    middle of the build, naming inputs whose producers still have work to do: the served statement may not start before them.
    Built by hand: the shared generator only makes dyndep files that are the first output of their producer."""
    import copy
    from ..simlib import St
    items = []
    for k in range(n):
        nserved = rng.randint(1, 2)
        srcs = {"cfg.in": "// scanner configuration\n", "gen.in": "// gen\n", "x.c": "// x\n"}
        stmts = [St("gen", ["gen.h"], ins=["gen.in"]), St("x", ["o/x.o"], ins=["x.c"])]
        served = []
        provided = False
        for i in range(nserved):
            src = "t%d.src" % i
            lines = []
            if rng.random() < 0.8:
                lines.append("#include gen.h")
            if rng.random() < 0.5:
                lines.append("#include o/x.o")
            if i > 0 and provided and rng.random() < 0.7:
                lines.append("#include o/t0.mod")
            if i == 0 and rng.random() < 0.6:
                lines.append("#provides o/t0.mod")
                provided = True
            srcs[src] = "\n".join(lines + ["// served %d" % i]) + "\n"
            st = St("t%d" % i, ["o/t%d.out" % i], ins=[src], dd=True, dyndep="t.dd")
            st[rng.choice(("oins", "iins"))] = ["t.dd"]
            served.append(st)
        where = rng.choice(("implicit", "implicit", "second", "first"))
        if where == "implicit":
            scan = St("scan", ["scan.stamp"], iouts=["t.dd"], ins=[s_["ins"][0] for s_ in served] + ["cfg.in"], kind="scan",
                      serves=[[s_["outs"][0], s_["ins"][0]] for s_ in served])
        elif where == "second":
            scan = St("scan", ["scan.stamp", "t.dd"], ins=[s_["ins"][0] for s_ in served] + ["cfg.in"], kind="scan",
                      serves=[[s_["outs"][0], s_["ins"][0]] for s_ in served])
        else:
            scan = St("scan", ["t.dd"], ins=[s_["ins"][0] for s_ in served] + ["cfg.in"], kind="scan",
                      serves=[[s_["outs"][0], s_["ins"][0]] for s_ in served])
        stmts += [scan] + served
        rng.shuffle(stmts)
        sc = {"id": "C04-%d-idd-%d" % (ctx.seed, k), "sources": srcs, "stmts": stmts, "pools": {}, "defaults": []}
        steps, scs = [], []
        if rng.random() < 0.5:
            steps.append({"op": "build", "targets": [], "j": 2, "k": 1, "sched": {"mode": "prng", "seed": 1}})
            scs.append(copy.deepcopy(sc))
            for p_ in rng.sample(["cfg.in", "gen.in", "x.c"], rng.randint(1, 3)) + (["t0.src"] if rng.random() < 0.3 else []):
                steps.append({"op": "touch", "path": p_})
                scs.append(copy.deepcopy(sc))
            if "cfg.in" not in [s_.get("path") for s_ in steps]:
                steps.append({"op": "touch", "path": "cfg.in"})
                scs.append(copy.deepcopy(sc))
        tg = rng.choice(([], [], [served[-1]["outs"][0]], [s_["outs"][0] for s_ in served]))
        steps.append({"op": "build", "targets": tg, "j": rng.choice((1, 2, 3, 8)), "k": 1, "sched": {"mode": "all", "cap": cap, "keep_world": True}})
        scs.append(copy.deepcopy(sc))
        items.append((simlib.scenario_json(sc, steps), {"scs": scs, "explore_step": len(steps) - 1}))
    return items


SPECIAL_NAMES = ["with space", "til~de", "quo'te", "amp&er", "par(en)", "eq=ual", "at@sign", "bang!", "com,ma", "per%cent",
                 "two  spaces", "br{ace}", "sq[uare]", "plain", "qu?est", "dq\"uote"]


def derived_paths_family(ctx, rng, n, cap):
    """Path-valued bindings written on the rule in terms of $out ("depfile = deps/$out.d", "rspfile = $out.rsp") for outputs whose
    names need shell quoting: inside a command line $out is quoted, as the value of depfile / rspfile it is the plain path - the
    directory that has to exist when the command starts is the depfile's real directory, the response file is written to the real
    path with quoted names inside.  Names avoid the bytes the depfile reader is known to cut (C15 findings)."""
    import copy
    from ..simlib import St, eval_path_expr
    items = []
    for k in range(n):
        ncomp = rng.randint(1, 3)
        names = rng.sample(SPECIAL_NAMES, ncomp)
        srcs = {"h.h": "// h\n"}
        stmts = []
        for i, nm in enumerate(names):
            src = "c%d.c" % i if rng.random() < 0.6 else "src %d/%s.c" % (i, nm)
            srcs[src] = ("#include h.h\n" if rng.random() < 0.6 else "") + "// source %d\n" % i
            d = rng.choice(("obj%d/" % i, "o/", "obj%d/deep/" % i))
            st = St("s%d" % i, [d + nm + ".o"], ins=[src])
            if rng.random() < 0.3:
                st["iouts"] = [d + nm + ".lst"]
            deps = rng.choice(("gcc", "depfile", "gcc", "none"))
            if deps != "none":
                st["deps"] = deps
                st["depfile_expr"] = rng.choice(("$out.d", "deps/$out.d", "dd%d/x/$out.d" % i, "deps/$out.d"))
                st["depfile"] = eval_path_expr(st["depfile_expr"], st, False)
            if rng.random() < 0.4:
                st["rsp_expr"] = "$out.rsp"
                st["rsp"] = eval_path_expr(st["rsp_expr"], st, False)
                st["rsp_content"] = rng.choice(("$in", "$in_newline", "-o $out $in"))
            if rng.random() < 0.3:
                st["early"] = True
            stmts.append(st)
        link = St("link", ["bin/pro g" if rng.random() < 0.5 else "prog"], ins=[s_["outs"][0] for s_ in stmts])
        if rng.random() < 0.5:
            link["rsp_expr"] = "$out.rsp"
            link["rsp"] = eval_path_expr(link["rsp_expr"], link, False)
            link["rsp_content"] = rng.choice(("$in", "$in_newline"))
        stmts.append(link)
        sc = {"id": "C04-%d-dp-%d" % (ctx.seed, k), "sources": srcs, "stmts": stmts, "pools": {}, "defaults": []}
        steps, scs = [], []
        if rng.random() < 0.4:
            steps.append({"op": "build", "targets": [], "j": 2, "k": 1, "sched": {"mode": "prng", "seed": 1}})
            scs.append(copy.deepcopy(sc))
            for p_ in rng.sample(sorted(srcs), rng.randint(1, len(srcs))):
                steps.append({"op": "touch", "path": p_})
                scs.append(copy.deepcopy(sc))
        steps.append({"op": "build", "targets": [], "j": rng.choice((1, 2, 3)), "k": 1, "sched": {"mode": "all", "cap": cap, "keep_world": True}})
        scs.append(copy.deepcopy(sc))
        items.append((simlib.scenario_json(sc, steps), {"scs": scs, "explore_step": len(steps) - 1}))
    return items


def ordering_groups_family(ctx, rng, n, cap):
    """Ordering groups as build-file generators emit them (CMake's cmake_object_order_depends_target_*): phony statements whose
    inputs - often order-only ones only - are generated headers or further groups, nested one to three levels deep, and
    consumers that name only the top group.  Every level is a pass-through: the consumer may start only when the generators at
    the bottom have finished, also when the target asked for reaches them through the groups alone, also after a first build when
    only a generator's source changed."""
    import copy
    from ..simlib import St
    items = []
    for k in range(n):
        srcs, stmts = {}, []
        ngen = rng.randint(1, 3)
        gens = []
        for i in range(ngen):
            srcs["gen%d.in" % i] = "// generator input %d\n" % i
            g_ = St("gen%d" % i, ["inc/gen%d.h" % i], ins=["gen%d.in" % i])
            if rng.random() < 0.3:
                g_["restat"] = True
            stmts.append(g_)
            gens.append(g_["outs"][0])
        level = gens
        cover = {h: {h} for h in gens}
        depth = rng.randint(1, 3)
        for lv in range(depth):
            nxt = []
            for j in range(rng.randint(1, 2)):
                members = rng.sample(level, rng.randint(1, len(level)))
                grp = St("grp%d_%d" % (lv, j), ["grp%d_%d" % (lv, j)], kind="phony")
                kind = rng.choice(("oins", "oins", "oins", "ins", "iins"))
                grp[kind] = members
                if kind != "oins" and rng.random() < 0.3 and len(level) > len(members):
                    grp["oins"] = [x for x in level if x not in members][:1]
                stmts.append(grp)
                nxt.append(grp["outs"][0])
                cover[grp["outs"][0]] = set().union(*[cover[m_] for m_ in grp["ins"] + grp["iins"] + grp["oins"]])
            level = nxt
        # ... or the top of it all is a stamp file: a real command ('touch headers.stamp') that takes a configuration header made
        # by a write-if-changed (restat) rule and is ordered after the groups.  When the configuration step turns out to change
        # nothing, the stamp statement is found clean in the middle of the build - while the generators below it still run.
        stamped = rng.random() < 0.4
        if stamped:
            srcs["config.in"] = "// configuration\n"
            cfg = St("cfg", ["inc/config.h"], ins=["config.in"], restat=True)
            stamp = St("stamp", ["headers.stamp"], ins=["inc/config.h"])
            stamp[rng.choice(("oins", "oins", "iins"))] = list(level)
            stmts += [cfg, stamp]
            cover["headers.stamp"] = set().union(*[cover[g2] for g2 in level]) | {"inc/config.h"}
            level = ["headers.stamp"]
        ncons = rng.randint(1, 3)
        cons = []
        for i in range(ncons):
            # the consumer names one or more top-level groups and includes only headers those groups stand for
            named = rng.sample(level, rng.randint(1, len(level)))
            covered = sorted(set().union(*[cover[g2] for g2 in named]))
            inc = rng.sample(covered, rng.randint(1, len(covered)))
            srcs["app%d.c" % i] = "".join("#include %s\n" % h for h in inc) + "// consumer %d\n" % i
            c_ = St("app%d" % i, ["o/app%d.o" % i], ins=["app%d.c" % i])
            c_[rng.choice(("oins", "oins", "iins"))] = named
            deps = rng.choice(("none", "gcc", "depfile"))
            if deps != "none":
                c_["deps"], c_["depfile"] = deps, c_["outs"][0] + ".d"
            stmts.append(c_)
            cons.append(c_["outs"][0])
        if rng.random() < 0.5:
            stmts.append(St("link", ["prog"], ins=list(cons)))
        rng.shuffle(stmts)
        sc = {"id": "C04-%d-og-%d" % (ctx.seed, k), "sources": srcs, "stmts": stmts, "pools": {}, "defaults": []}
        steps, scs = [], []
        if rng.random() < 0.5:
            steps.append({"op": "build", "targets": [], "j": 2, "k": 1, "sched": {"mode": "prng", "seed": 1}})
            scs.append(copy.deepcopy(sc))
            for p_ in rng.sample(sorted(p for p in srcs if p.startswith("gen")), rng.randint(1, ngen)) + ([rng.choice(sorted(p for p in srcs if p.startswith("app")))] if rng.random() < 0.5 else []):
                srcs[p_] += "// e%d\n" % rng.randint(0, 10 ** 6)
                steps.append({"op": "write", "path": p_, "content": srcs[p_]})
                scs.append(copy.deepcopy(sc))
            if stamped and rng.random() < 0.8:
                steps.append({"op": "touch", "path": "config.in"})       # the configuration step runs again and changes nothing
                scs.append(copy.deepcopy(sc))
                for p_ in sorted(p for p in srcs if p.startswith("app")):
                    if rng.random() < 0.6:
                        srcs[p_] += "// e%d\n" % rng.randint(0, 10 ** 6)
                        steps.append({"op": "write", "path": p_, "content": srcs[p_]})
                        scs.append(copy.deepcopy(sc))
        tg = rng.choice(([], [], [rng.choice(cons)], list(cons)))
        steps.append({"op": "build", "targets": tg, "j": rng.choice((1, 2, 3, 8)), "k": 1, "sched": {"mode": "all", "cap": cap, "keep_world": True}})
        scs.append(copy.deepcopy(sc))
        items.append((simlib.scenario_json(sc, steps), {"scs": scs, "explore_step": len(steps) - 1}))
    return items


def run(ctx):
    quick = ctx.tier == "quick"
    rng = random.Random(ctx.seed * 31337 + 4)
    items = sched.small_scenarios(ctx, "C04", 2000 if quick else 16000, rng, size=(2, 6), cap=250 if quick else 600,
                                  feat=dict(order_only=0.6, deps=0.6, phony=0.2, restat=0.25, chain=0.55))
    items += sched.small_scenarios(ctx, "C04", 300 if quick else 2000, rng, size=(7, 14), cap=40 if quick else 100, salt=1,
                                   feat=dict(order_only=0.6, deps=0.6, phony=0.2, chain=0.7))
    # generated headers that a consumer knows only from its recorded discoveries (no manifest path to their generator),
    # after a first build, with the consumer and the generator out of date at the same time.  (Every output exists when the explored build starts: with a missing consumer output the known C10
    # finding - recorded dependencies are not loaded for it - would show up here as well.)
    items += sched.small_scenarios(ctx, "C04", 500 if quick else 4000, rng, size=(3, 7), cap=60 if quick else 150, salt=2, with_history=1.0,
                                   change_kinds=["edit", "edit", "edit_hdr", "touch", "cmd"], build_everything_first=True,
                                   feat=dict(deps=0.9, no_manifest_path=0.6, restat=0.15, chain=0.6, dyndep=0.0, phony=0.1, generator=0.0))
    # commands that fail (with -k 1, 2, 3 and 0): nothing that needs an output of a failed command may start, whichever of its
    # other producers finishes afterwards
    items += sched.small_scenarios(ctx, "C04", 700 if quick else 5000, rng, size=(3, 7), cap=120 if quick else 300, salt=3, faults=True,
                                   feat=dict(order_only=0.5, deps=0.5, phony=0.2, restat=0.2, chain=0.6))
    items += implicit_dd_family(ctx, rng, 250 if quick else 2500, 80 if quick else 200)
    items += derived_paths_family(ctx, rng, 250 if quick else 2500, 40 if quick else 100)
    items += ordering_groups_family(ctx, rng, 300 if quick else 3000, 60 if quick else 150)
    sched.run_explore(ctx, "C04", items)
    # "its response file holds the declared content" on the real disk: a longer file may already be at that path (kept after a
    # failed command, kept by -d keeprsp, stale), the declared content may be empty
    from .. import e2e
    seeds = [rng.randint(1, 10 ** 9) for _ in range(45 if quick else 400)]
    e2e.parallel(lambda sd: e2e.c16_rsp_case(ctx, sd, prop="C04"), seeds)
    ctx.rule = ("graphs of 2..6 statements: all completion orders (cap %d per graph), 7..14 statements: first %d orders of the DFS; "
                "distinct_nontrivial = distinct (scenario, START/FINISH interleaving) with >= 2 commands" %
                ((250, 40) if quick else (600, 100)))
    ctx.exhaustive = False


def replay(ctx, path):
    sched.replay(ctx, "C04", path)
