"""C16 - file names and response files reach commands intact.
Part 1 (here, nprobe shellesc + /bin/sh): the real Edge::EvaluateCommand() text for $in/$out/
$in_newline is handed to `/bin/sh -c` exactly as subprocess-posix.cc does; an argv dumper shows
what the shell made of it.  Part 2 (response files) is observed by the nsim trace monitor:
rspfile bytes at START, removed after success, kept after failure."""

MANIFEST = {'engine': 'nprobe+e2e', 'category': 'exploration', 'technique': 'runtime monitoring: real Edge::EvaluateCommand text executed by /bin/sh -c with an argv-dumping command; exhaustive 1-2 byte names', 'text': 'All 64,770 names of one and two bytes (every byte but NUL/newline), 3-byte names over a 26-symbol shell-special alphabet, otherwise safe names of 2..13 bytes with one special byte at each position in turn, and random long names are placed in $in/$out lists of an edge built directly in a State; the evaluated command is run by /bin/sh exactly as ninja does and the argv the shell produced is compared word by word. Safe names must appear verbatim. Response files: real-binary scenarios in which a longer file already sits at the rspfile path (stale, kept after a failed command, kept by -d keeprsp): the command must read exactly the evaluated content (its output is a hash of it), the file is removed after success and kept verbatim after failure; the same is monitored on the virtual disk in the nsim traces of C04/C05.', 'note': "Trusted: /bin/sh is the shell ninja spawns; argvdump. $in_newline is tested with one name (newline is the shell's command separator).", 'ref': 'DESIGN.md §5 C16'}

import itertools, os, random, re, subprocess
from concurrent.futures import ThreadPoolExecutor
from .. import build, util, core

SAFE = re.compile(rb"^[A-Za-z0-9_+./-]+$")


def probe():
    return build.get_bin("nprobe-shellesc", ["nprobe.cc", "probe_shellesc.cc"])


def argvdump():
    return build.get_tool("argvdump", "argvdump.c", ["-O1", "-x", "c"], cc="clang")


def setup():
    probe()
    argvdump()
    from .. import e2e
    e2e.ninja_bin()
    e2e.vtool_bin()


def run_sh(cmd: bytes):
    try:
        p = subprocess.run([b"/bin/sh", b"-c", cmd], stdout=subprocess.PIPE, stderr=subprocess.PIPE,
                           timeout=60, cwd="/", env={"PATH": "/nonexistent", "IFS": " \t\n", "HOME": "/c16 home/of the user"})   # (a HOME to expand '~' to)
        return p.returncode, p.stdout, p.stderr
    except subprocess.TimeoutExpired:
        return -999, b"", b"timeout"


def run(ctx):
    b, tool = probe(), argvdump()
    rng = random.Random(ctx.seed)
    allb = [bytes([c]) for c in range(1, 256) if c != 10]
    names1 = list(allb)
    names2 = [a + c for a in allb for c in allb]
    special = [bytes([c]) for c in b" \t'\"\\$`*?[]~#&|;<>(){}!=%-a"]
    names3 = [b"".join(t) for t in itertools.product(special, repeat=3)]
    if ctx.tier == "quick":
        names3 = names3[ctx.seed % 4::4]
    nrand = 2000 if ctx.tier == "quick" else 40000
    randn = []
    for _ in range(nrand):
        L = rng.choice((1, 2, 4, 9, 30, 120, 1000))
        pool = rng.choice((bytes(allb_i[0] for allb_i in allb), b"ab/._-+", b" '\"\\$`*?~;|&<>(){}[]!#\t\rab"))
        randn.append(bytes(rng.choice(pool) for _ in range(L)))
    # sparse specials: otherwise safe names of 2..13 bytes with one shell-special byte at each position in turn (a scan
    # for "needs quoting" that looks at most positions but not all is only exposed by the one position it skips)
    sparse = []
    sp_chars = b" *;&'$`|" if ctx.tier == "quick" else b" \t'\"\\$`*?[]~#&|;<>(){}!="
    for L in range(2, 14):
        base = (b"abcdefghijklmnop")[:L]
        for pos in range(L):
            for ch in sp_chars:
                sparse.append(base[:pos] + bytes([ch]) + base[pos + 1:])
    randn += sparse
    # names the shell would expand as a whole word (tilde prefixes: HOME, a user's home), otherwise made of safe characters
    randn += [b"~", b"~/a.c", b"~root", b"~root/a.c", b"~/", b"~root/", b"a~", b"~a.c~", b"~+", b"x/~", b"~.", b"~_"]
    groups = []   # (mode, nin, [names])
    rotations = (0, 5, 11) if ctx.tier == "thorough" else (0, 7)

    def add_groups(names, rot):
        for i in range(0, len(names), 16):
            g = names[i:i + 16]
            g = g[rot % len(g):] + g[:rot % len(g)]
            g = list(dict.fromkeys(g))
            nin = rng.randint(0, len(g) - 1) if len(g) > 1 else rng.choice((0, 1))
            if nin == len(g):
                nin -= 1     # an edge needs an output in the graph API? keep >= 1 output
            groups.append(("c", nin, g))
    for rot in rotations:
        add_groups(names1, rot)
        add_groups(names2, rot)
    add_groups(names3, 0)
    add_groups(randn, 0)
    # the same names on statements with depfile = $out.d and rspfile = $out.rsp (ninja expands those unescaped, for itself,
    # before it expands the command for the shell)
    for i in range(0, len(names3), 16 * 5):
        gg = list(dict.fromkeys(names3[i:i + 6]))
        if len(gg) >= 2:
            groups.append(("d", rng.randint(0, len(gg) - 1), gg))
    for i in range(0, len(randn), 16 * 3):
        gg = list(dict.fromkeys(randn[i:i + 5]))
        if len(gg) >= 2:
            groups.append(("d", rng.randint(0, len(gg) - 1), gg))
    # the same substitution inside rspfile_content (what a response file holds is read by shells as well: xargs, $(cat f))
    for i in range(0, len(names3), 16 * 4):
        gg = list(dict.fromkeys(names3[i:i + 8]))
        if len(gg) >= 2:
            groups.append((rng.choice("rq"), rng.randint(1, len(gg) - 1), gg))
    for i in range(0, len(randn), 16 * 2):
        gg = list(dict.fromkeys(randn[i:i + 6]))
        if len(gg) >= 2:
            groups.append((rng.choice("rq"), rng.randint(1, len(gg) - 1), gg))
    # $in_newline with a single input (a newline inside a command line is the shell's separator,
    # so multi-name $in_newline only makes sense in response files)
    for nm in names1 + names3[::3] + randn[::4] + names2[ctx.seed % 16::16]:
        groups.append(("n", 1, [nm]))
    inp = b"".join(("%s %d " % (m, nin)).encode() + b" ".join(x.hex().encode() for x in g) + b"\n"
                   for m, nin, g in groups)
    lines = inp.split(b"\n")[:-1]
    CH = 1500
    chunks = [lines[i:i + CH] for i in range(0, len(lines), CH)]

    def probe_chunk(ch):
        data = b"\n".join(ch) + b"\n"
        for attempt in range(2):
            rc, out, err, to = util.run([b, "shellesc", tool], input=data, timeout=90)
            if not to:
                return rc, out, err, False
        return rc, out, err, True
    with ThreadPoolExecutor(max_workers=util.NCPU) as ex:
        pres = list(ex.map(probe_chunk, chunks))
    out = b""
    for ci, (rc, o, err, to) in enumerate(pres):
        if to:
            # the probe is a few milliseconds per group: two timeouts in a row on the same chunk is a hang in the escaping code
            ctx.violation("C16/escaping-hangs", "Edge::EvaluateCommand did not return within 90 s (twice) for a chunk starting with %r" %
                          chunks[ci][0][:200], {"chunk_first": chunks[ci][0].decode()})
            return
        if rc != 0:
            ctx.violation("C16/sanitizer/" + (util.san_signature(err.decode("latin-1")) or "crash rc=%d" % rc),
                          err.decode("latin-1")[-2500:])
            return
        out += o
    extra_fields = {}
    cmds = []
    for li, l in enumerate(out.decode().splitlines()):
        if l.startswith("ERR"):
            cmds.append(None)
            continue
        f = l.split(" ")
        cmds.append(bytes.fromhex(f[0]))
        if len(f) > 1:
            extra_fields[li] = [bytes.fromhex(x) for x in f[1:]]
    if len(cmds) != len(groups):
        raise core.Inconclusive("probe produced %d lines for %d groups" % (len(cmds), len(groups)))
    with ThreadPoolExecutor(max_workers=util.NCPU) as ex:
        shres = list(ex.map(lambda c: run_sh(c) if c is not None else None, cmds))
    ctx.rule = ("all names of 1 and 2 bytes (every byte except NUL and newline), 3-byte names over a %d-symbol "
                "shell-special alphabet, %d random long names; 16 distinct names per command split between $in and "
                "$out, %d rotations; $in_newline with one input. distinct_nontrivial = distinct names that need "
                "quoting and came back as exactly one equal word" % (len(special), nrand, len(rotations)))
    seen_names = set()
    for gi, ((mode, nin, g), cmd, sr) in enumerate(zip(groups, cmds, shres)):
        if cmd is None or sr is None:
            ctx.inconclusive += 1
            continue
        ctx.evaluations += 1
        rc, so, se = sr
        if mode == "d":
            ctx.count("statements_with_out_derived_depfile_and_rspfile")
            df, rf, df2 = extra_fields.get(gi, [None, None, None])
            want = b" ".join(g[nin:])
            if df != want + b".d" or rf != want + b".rsp" or df2 != df:
                ctx.violation("C16/unescaped-path-binding", "depfile = $out.d / rspfile = $out.rsp for outputs %r evaluate to %r / %r (again: %r)" %
                              ([util.show(x) for x in g[nin:]], df, rf, df2), {"mode": mode, "nin": nin, "names_hex": [x.hex() for x in g]})
                continue
        if mode in "rq":
            ctx.count("rspfile_content_substitutions_checked")
        exp = (g[:nin] + [b"--"] + g[nin:]) if mode in ("c", "d", "r", "q") else g
        toks = so.decode().split()
        got = [b"" if t == "-" else bytes.fromhex(t) for t in toks]
        if rc != 0 or got != exp:
            # attribute to the first name that did not come back
            culprit = None
            for k, e in enumerate(exp):
                if k >= len(got) or got[k] != e:
                    culprit = e
                    break
            sig = "C16/%s/%s" % ("rspfile-content-not-one-word-per-name" if mode in "rq" else "argv-mismatch", culprit.hex()[:24] if culprit is not None else "extra-args")
            ctx.violation(sig, "command %r: sh rc=%s stderr=%r argv=%r expected=%r" %
                          (util.show(cmd), rc, se[:200], [util.show(x) for x in got][:20], [util.show(x) for x in exp][:20]),
                          {"mode": mode, "nin": nin, "names_hex": [x.hex() for x in g]})
            continue
        ctx.count("argv_equal")
        # verbatim rule
        if all(SAFE.match(x) for x in g):
            want = tool.encode() + b" " + (b" ".join(g[:nin]) + b" -- " + b" ".join(g[nin:]) if mode in ("c", "d", "r", "q") else g[0])
            ctx.count("verbatim_checked")
            if cmd != want:
                ctx.violation("C16/not-verbatim", "safe names quoted: %r" % util.show(cmd))
        for x in g:
            if not SAFE.match(x):
                seen_names.add(x)
            elif mode in ("c", "d", "r", "q"):
                # a safe name must appear unquoted even among unsafe neighbours
                if not re.search(rb"(^| )" + re.escape(x) + rb"( |$)", cmd):
                    ctx.violation("C16/not-verbatim", "safe name %r quoted in %r" % (x, util.show(cmd)))
        if len(ctx.samples) < 3 and mode == "c" and any(b"'" in x for x in g):
            ctx.sample({"names": [util.show(x) for x in g[:6]], "command": util.show(cmd)[:300]})
    ctx.distinct_extra = len(seen_names)
    # response files on the real disk (RealDiskInterface::WriteFile, real processes)
    from .. import e2e
    import random as _random
    rr = _random.Random(ctx.seed * 31337 + 16)
    seeds = [rr.randint(1, 10 ** 9) for _ in range(90 if ctx.tier == "quick" else 1500)]
    e2e.parallel(lambda sd: e2e.c16_rsp_case(ctx, sd), seeds)
    ctx.counters["sh_invocations"] = len(groups)
    ctx.counters["names_1byte"] = len(names1)
    ctx.counters["names_2byte"] = len(names2)
    ctx.counters["names_3byte_special"] = len(names3)
    ctx.exhaustive = False
    ctx.assumptions = ["/bin/sh (dash) is the shell ninja uses (subprocess-posix.cc: /bin/sh -c)",
                       "NUL and newline cannot occur in a ninja path; multi-name $in_newline is only meaningful in response files",
                       "response-file half of C16 is monitored by the nsim START/FINISH rspfile monitor (C04/C05 runs) and e2e"]


def replay(ctx, path):
    import json
    j = json.load(open(path))["replay"]
    b, tool = probe(), argvdump()
    g = [bytes.fromhex(x) for x in j["names_hex"]]
    inp = ("%s %d " % (j["mode"], j["nin"])).encode() + b" ".join(x.hex().encode() for x in g) + b"\n"
    rc, out, err, to = util.run([b, "shellesc", tool], input=inp)
    cmd = bytes.fromhex(out.decode().strip())
    print("command:", util.show(cmd))
    print("sh:", run_sh(cmd))
    ctx.evaluations = 1
    ctx.distinct_extra = 2
