"""C11 - dyndep information behaves as if it had been written in the manifest.
(a) metamorphic twins in nsim: dyndep variant vs the manifest with the same implicit inputs / outputs / restat written in;
(b) fault enumeration of dyndep file contents: every truncation, line deletion/duplication, missing file, extra / omitted /
    duplicated statement, output of another statement, cycle - classified by a small reference grammar."""
import copy, json, random
from .. import simlib, gen, model, util, core, sched
from ..simlib import St, all_outs, directives, hhex, manifest_step, dyndep_text

MANIFEST = dict(
    engine="nsim", category="exploration",
    technique="runtime monitoring: metamorphic twin scenarios (dyndep vs inlined manifest) through nsim with START-time monitors; fault "
              "enumeration of dyndep file contents against a reference grammar",
    text="Twin scenarios: statements served by a dyndep file (pre-existing, or produced during the build by a clean or dirty scanner, "
         "shared by several statements, two levels deep) get implicit inputs (source and generated), implicit outputs and restat from "
         "it; the twin has the same information written directly in the manifest. Same histories (edits incl. directive changes that "
         "alter the dyndep content, touches, deletions, command changes), same targets/-j/-k, PRNG schedules. Oracle: same STARTed "
         "statements, same exit, START-time readiness of every dyndep-provided input (C04 monitor) in both, final contents equal and "
         "equal to the clean build. Invalid files: from each valid dyndep file every truncation offset, every single-line deletion and "
         "duplication, a missing file, an extra statement, an omitted statement, an output claimed twice, an output another statement "
         "produces, an input that closes a cycle; a reference grammar classifies each variant valid / invalid / ambiguous (only a "
         "missing final newline); invalid must make build, -t clean and a later build fail with a non-empty error, never succeed.",
    note="Trusted: the reference dyndep grammar in this file (from the manual), twin construction. Domain per the manual: dyndep bindings "
         "on build statements; discovered outputs feed only statements bound to the same dyndep file. The binding-on-rule family is "
         "generated separately and labelled.",
    ref="DESIGN.md §5 C11")


def setup():
    simlib.nsim_bin()


# ------------------------------------------------------------------------------------------ generator
def dyndep_scenario(rng, sid, static=False, on_rule=False, respell=True, second_static=False):
    g = gen.Gen(random.Random(rng.randint(0, 2 ** 60)), size=rng.randint(1, 4),
                feat=dict(deps=0.3, phony=0.1, restat=0.2, generator=0.0, vals=0.1, rsp=0.0, chain=0.7, pools=0.2, dyndep=0.0))
    sc = g.scenario(sid)
    sc = g.add_dyndep(sc, static=static, on_rule=on_rule, respell=respell)
    if static and second_static:
        # a second dyndep file of its own, for other statements: what one file says about the other's statements is an error
        sc = g.add_dyndep(sc, static=True, on_rule=False, tag="e", respell=False)
    if not static and rng.random() < 0.35:
        # a second dyndep file whose statements may take what the first one's statements produce (two levels)
        sc = g.add_dyndep(sc, static=False, on_rule=False, tag="e")
    return sc


def inlined_twin(sc):
    m = copy.deepcopy(sc)
    m["id"] = sc["id"] + "M"
    for st in m["stmts"]:
        if st.get("dd"):
            c = sc["sources"].get(st["ins"][0], "")
            st["iins"] = st["iins"] + [x for x in directives(c, "#include") if x not in st["iins"]]
            st["iouts"] = st["iouts"] + directives(c, "#provides")
            st["restat"] = st["restat"] or bool(directives(c, "#ddrestat"))
            st["dyndep"], st["dd"], st["force_follow"] = "", False, True
            st["dyndep_on_rule"] = False
    m.pop("static_dd", None)
    return m


def graph_for(sc, sources):
    """model.Graph with support for a pre-existing (static) dyndep file"""
    g = model.Graph(sc, sources)
    for ddp, serves in sc.get("static_dd", {}).items():
        by_out0 = {s["outs"][0]: s for s in sc["stmts"]}
        for out0, src in serves:
            t = by_out0.get(out0)
            if t is None:
                continue
            c = sources.get(src, "")
            g.dd_iins[t["id"]] = directives(c, "#include")
            g.dd_outs[t["id"]] = directives(c, "#provides")
            g.dd_restat[t["id"]] = bool(directives(c, "#ddrestat"))
            for o in g.dd_outs[t["id"]]:
                g.producer[o] = t
    return g


# ------------------------------------------------------------------------------------------ twins
def run_twins(ctx, rng, n):
    pairs, metas = [], {}
    for k in range(n):
        static = rng.random() < 0.3
        D = dyndep_scenario(rng, "C11-%d-%d" % (ctx.seed, k), static=static)
        M = inlined_twin(D)
        stepsD, stepsM, meta = [], [], []
        b = {"op": "build", "targets": [], "j": rng.choice((1, 2, 3, 8)), "k": 1, "sched": {"mode": "prng", "seed": rng.randint(1, 10 ** 6)}}
        stepsD.append(b); stepsM.append(b)
        curD, curM = copy.deepcopy(D), copy.deepcopy(M)
        meta.append({"kind": "build", "changes": ["first"], "scD": copy.deepcopy(curD), "scM": copy.deepcopy(curM)})
        for rnd in range(rng.randint(1, 4)):
            chg = []
            for _ in range(rng.choice((1, 1, 2))):
                x = rng.random()
                srcs = sorted(p for p in curD["sources"] if not p.endswith(".dd"))
                cmds = [s for s in curD["stmts"] if s["kind"] in ("cmd",)]
                dsrcs = [p for p in srcs if p.endswith(".src")]
                if x < 0.4:
                    p = rng.choice(srcs)
                    c = curD["sources"][p] + "// e%d\n" % rng.randint(0, 10 ** 6)
                    curD["sources"][p] = c; curM["sources"][p] = c
                    st = {"op": "write", "path": p, "content": c}
                    stepsD.append(st); stepsM.append(st); meta.append({"kind": "change"}); chg.append(("edit", p))
                elif x < 0.55 and dsrcs and not static:
                    # change the directives: the dyndep file's content changes; the twin's manifest is rewritten accordingly
                    p = rng.choice(dsrcs)
                    leafs = sorted(q for q in curD["sources"] if q.startswith("m") and q.endswith(".h"))
                    lines = curD["sources"][p].split("\n")
                    h = rng.choice(leafs)
                    if ("#include " + h) in lines:
                        lines.remove("#include " + h)
                    else:
                        lines.insert(0, "#include " + h)
                    if rng.random() < 0.3:
                        if "#ddrestat" in lines:
                            lines.remove("#ddrestat")
                        else:
                            lines.insert(0, "#ddrestat")
                    c = "\n".join(lines)
                    curD["sources"][p] = c; curM["sources"][p] = c
                    stepsD.append({"op": "write", "path": p, "content": c}); stepsM.append({"op": "write", "path": p, "content": c})
                    meta.append({"kind": "change"})
                    newM = inlined_twin(curD)
                    for t in newM["stmts"]:
                        old = next((u for u in curM["stmts"] if u["id"] == t["id"]), None)
                        if old is not None:
                            t["ver"] = old["ver"]
                    curM = newM
                    curM["sources"] = dict(curD["sources"])
                    # the twin needs one extra step (its manifest is rewritten); a no-op keeps the step lists aligned
                    stepsD.append({"op": "rm", "path": "__none__"}); stepsM.append(manifest_step(curM)); meta.append({"kind": "change"})
                    chg.append(("directives", p))
                elif x < 0.7:
                    p = rng.choice(srcs)
                    st = {"op": "touch", "path": p}
                    stepsD.append(st); stepsM.append(st); meta.append({"kind": "change"}); chg.append(("touch", p))
                elif x < 0.85:
                    s = rng.choice(cmds)
                    o = rng.choice(all_outs(s))
                    st = {"op": "rm", "path": o}
                    stepsD.append(st); stepsM.append(st); meta.append({"kind": "change"}); chg.append(("rm_out", o))
                elif not static or rng.random() < 0.5:
                    s = rng.choice(cmds)
                    for cur in (curD, curM):
                        for t in cur["stmts"]:
                            if t["id"] == s["id"]:
                                t["ver"] += 1
                    stepsD.append(manifest_step(curD)); stepsM.append(manifest_step(curM)); meta.append({"kind": "change"})
                    chg.append(("cmd", s["id"]))
            if not static and rng.random() < 0.2:
                # every dyndep file has to be regenerated (scanner configurations touched) while something that is known only
                # from a dyndep file changes: what the first scan believes about the served statements is all provisional
                for p in sorted(q for q in curD["sources"] if q.startswith("ddscan")):
                    st = {"op": "touch", "path": p}
                    stepsD.append(st); stepsM.append(st); meta.append({"kind": "change"}); chg.append(("touch", p))
                leafs = sorted(q for q in curD["sources"] if q.startswith("m") and q.endswith(".h"))
                if leafs:
                    p = rng.choice(leafs)
                    c = curD["sources"][p] + "// e%d\n" % rng.randint(0, 10 ** 6)
                    curD["sources"][p] = c; curM["sources"][p] = c
                    st = {"op": "write", "path": p, "content": c}
                    stepsD.append(st); stepsM.append(st); meta.append({"kind": "change"}); chg.append(("edit", p))
            outs = [s["outs"][0] for s in curD["stmts"]]
            tg = [] if rng.random() < 0.5 else rng.sample(outs, rng.randint(1, min(3, len(outs))))
            b = {"op": "build", "targets": tg, "j": rng.choice((1, 2, 3, 8)), "k": rng.choice((1, 2, 0)),
                 "sched": {"mode": "prng", "seed": rng.randint(1, 10 ** 6)}}
            stepsD.append(b); stepsM.append(b)
            meta.append({"kind": "build", "changes": chg, "scD": copy.deepcopy(curD), "scM": copy.deepcopy(curM)})
        sD = simlib.scenario_json(D, stepsD)
        sM = simlib.scenario_json(M, stepsM)
        pairs.append((sD, sM))
        metas[sD["id"]] = meta
    results = {}

    def handler(scn, res, err):
        results[scn["id"]] = res
    simlib.run_scenarios([s for p in pairs for s in p], handler)
    for sD, sM in pairs:
        rD, rM = results.get(sD["id"]), results.get(sM["id"])
        if rD is None or rM is None:
            ctx.inconclusive += 1
            continue
        try:
            judge_pair(ctx, sD, sM, rD, rM, metas[sD["id"]])
        except model.Invalid:
            ctx.inconclusive += 1
            ctx.count("invalid_scenarios")


def judge_pair(ctx, sD, sM, rD, rM, meta):
    worldD = None
    recsD = model.Records()
    for i, (a, b) in enumerate(zip(rD, rM)):
        m = meta[i]
        if a.get("skipped") or b.get("skipped"):
            return
        if a["op"] != "build":
            st = sD["steps"][i]
            if worldD is not None:
                for ev in a.get("events", []):
                    if ev["e"] == "W":
                        c = st.get("content") if st["op"] == "write" else (st["files"].get(ev["p"], "") if st["op"] == "manifest"
                                                                             else worldD.get(ev["p"], [0, ""])[1])
                        worldD[ev["p"]] = [ev["t"], c]
                    elif ev["e"] == "RM":
                        worldD.pop(ev["p"], None)
            continue
        ta, tb = a["trace"], b["trace"]
        rep = {"scenarioD": sD, "scenarioM": sM, "step": i}
        for t, which in ((ta, "dyndep"), (tb, "inlined")):
            if t.get("crash"):
                sig = util.san_signature(t.get("stderr", "")) or "crash"
                ctx.violation("C11/nsim-crash/%s/%s" % (which, sig), "scenario %s step %d: %s" % (sD["id"], i, t.get("stderr", "")[-1500:]), rep)
                return
        ctx.evaluations += 1
        ra, rb = ta["result"], tb["result"]
        sa = sorted(e["o"] for e in ta["events"] if e["e"] == "S")
        sb = sorted(e["o"] for e in tb["events"] if e["e"] == "S")
        scD = m["scD"]
        before = worldD
        worldD = ta["world"]["files"]
        if ra.get("exit") != rb.get("exit"):
            ctx.violation("C11/exit-differs", "scenario %s step %d changes=%s: dyndep variant exit %s (%s), inlined exit %s (%s)" %
                          (sD["id"], i, m["changes"], ra.get("exit"), ra.get("err"), rb.get("exit"), rb.get("err")), rep)
            return
        if sa != sb:
            only_a, only_b = sorted(set(sa) - set(sb)), sorted(set(sb) - set(sa))
            kind = "missed-in-dyndep" if only_b else "extra-in-dyndep"
            ctx.violation("C11/%s" % kind, "scenario %s step %d changes=%s targets=%s: dyndep variant ran %s, inlined variant ran %s" %
                          (sD["id"], i, m["changes"], sD["steps"][i]["targets"], sa, sb), rep)
            return
        srcs = {p: v[1] for p, v in worldD.items() if p in scD["sources"]}
        graph = graph_for(scD, srcs)
        clean, _ = graph.clean()
        # START-time readiness in the dyndep variant (C04 monitor with dyndep-provided inputs)
        if before is not None:
            tv = sched.TraceView.__new__(sched.TraceView)
            tv.sc, tv.step, tv.trace, tv.events, tv.result = scD, sD["steps"][i], ta, ta["events"], ra
            tv.world_before, tv.recs_before = before, recsD
            tv.graph, tv.clean = graph, clean
            tv.targets = sD["steps"][i]["targets"] or (scD["defaults"] or gen.Gen.roots(scD))
            tv.disc = {}
            tv.closure = graph.closure(tv.targets)
            tv.pairs = model.ordering_constraints(graph, tv.closure)
            tv.preds = {}
            for p, c in tv.pairs:
                tv.preds.setdefault(c, set()).add(p)
            tv.sid_of = {s["outs"][0]: s["id"] for s in scD["stmts"]}
            ta["_choices"] = None
            nv = len(ctx.violations)
            sched.monitor_c04(ctx, sD, tv)
            if len(ctx.violations) > nv:
                return
        recsD.observe_build(graph, ta["events"], worldD)
        if ra.get("exit") == 0:
            targets = sD["steps"][i]["targets"] or (scD["defaults"] or gen.Gen.roots(scD))
            wb = tb["world"]["files"]
            for sid in graph.closure(targets):
                s = graph.by_id[sid]
                if s["kind"] == "phony":
                    continue
                for o in graph.outs(s):
                    ca, cb = worldD.get(o, [0, None])[1], wb.get(o, [0, None])[1]
                    if ca != cb or ca != clean.get(o):
                        ctx.violation("C11/content-differs", "scenario %s step %d changes=%s: %s is %r (dyndep) / %r (inlined), clean build gives %r" %
                                      (sD["id"], i, m["changes"], o, ca, cb, clean.get(o)), rep)
                        return
        ctx.count("twin_steps_equal")
        if sa:
            ctx.nontrivial((sD["id"], i))
        if any(e["o"].endswith(".dd") for e in ta["events"] if e["e"] == "S"):
            ctx.count("steps_with_dyndep_file_produced_mid_build")
        if len(ctx.samples) < 2 and sa and m["changes"] != ["first"]:
            ctx.sample({"scenario": sD["id"], "step": i, "changes": m["changes"], "started_in_both": sa})


# ------------------------------------------------------------------------------------------ invalid files
def ref_parse(text):
    """Reference dyndep grammar (manual). -> (ok, [(out0, iouts, iins, restat)])."""
    lines = text.split("\n")
    if lines and lines[-1] == "":
        lines = lines[:-1]
    stm, have_ver, i = [], False, 0
    while i < len(lines):
        ln = lines[i]
        i += 1
        if ln.strip() == "" or ln.lstrip().startswith("#"):
            continue
        if ln.startswith(" "):
            return False, stm
        tok = ln.split()
        if tok[0] == "ninja_dyndep_version":
            if have_ver or len(tok) != 3 or tok[1] != "=" or tok[2] not in ("1", "1.0"):
                return False, stm
            have_ver = True
            continue
        if tok[0] != "build" or not have_ver:
            return False, stm
        rest = tok[1:]
        if ":" not in "".join(rest):
            return False, stm
        # split on the first token that ends with ':' (paths here never contain ':')
        left, right, seen = [], [], False
        for t in rest:
            if not seen and t.endswith(":"):
                if t[:-1]:
                    left.append(t[:-1])
                seen = True
            elif not seen:
                left.append(t)
            else:
                right.append(t)
        if not seen or not left or not right or right[0] != "dyndep":
            return False, stm
        out0, iouts = left[0], []
        if len(left) > 1:
            if left[1] != "|":
                return False, stm
            iouts = left[2:]
            if "|" in iouts or "||" in iouts:
                return False, stm
        iins = []
        if len(right) > 1:
            if right[1] != "|":
                return False, stm
            iins = right[2:]
            if "|" in iins or "||" in iins:
                return False, stm
        restat = False
        if i < len(lines) and lines[i].startswith(" ") and lines[i].strip():
            b = lines[i].split()
            i += 1
            if len(b) < 2 or b[0] != "restat" or b[1] != "=":
                return False, stm
            restat = len(b) > 2
        stm.append((out0, iouts, iins, restat))
    return have_ver, stm


def classify(sc, ddpath, text):
    """valid | invalid | ambiguous for this graph"""
    if text is None:
        return "invalid"
    ok, stm = ref_parse(text if text.endswith("\n") else text + "\n")
    if not ok:
        return "invalid"
    bound = {s["outs"][0]: s for s in sc["stmts"] if s["dyndep"] == ddpath}
    named = [x[0] for x in stm]
    if sorted(named) != sorted(bound) or len(set(named)) != len(named):
        return "invalid"
    produced = {o for s in sc["stmts"] for o in all_outs(s)}
    seen = set()
    for out0, iouts, iins, restat in stm:
        for o in iouts:
            if o in produced or o in seen:
                return "invalid"
            seen.add(o)
    # cycle check on the graph with these inputs/outputs
    sc2 = copy.deepcopy(sc)
    for out0, iouts, iins, restat in stm:
        if out0 in iins or set(iouts) & set(iins):
            return "invalid"            # a statement that needs its own output
        t = next(s for s in sc2["stmts"] if s["outs"][0] == out0)
        t["iins"] = t["iins"] + iins
        t["iouts"] = t["iouts"] + iouts
        t["dyndep"] = ""
    try:
        g = model.Graph(sc2, sc2["sources"])
        g.topo({s["id"] for s in sc2["stmts"]})
    except model.Invalid:
        return "invalid"
    if not text.endswith("\n"):
        return "ambiguous"
    return "valid"


def run_invalid(ctx, rng, n):
    items = []
    for k in range(n):
        sc = dyndep_scenario(rng, "C11i-%d-%d" % (ctx.seed, k), static=True, respell=False, second_static=rng.random() < 0.5)
        ddp = "dd/x.dd"
        good = sc["sources"][ddp]
        variants = []
        offs = list(range(len(good) + 1))
        if len(offs) > 60:
            offs = sorted(rng.sample(offs, 60))
        for c in offs:
            variants.append(("trunc@%d" % c, good[:c]))
        lines = good.split("\n")[:-1]
        for li in range(len(lines)):
            variants.append(("del-line-%d" % li, "\n".join(lines[:li] + lines[li + 1:]) + "\n"))
            variants.append(("dup-line-%d" % li, "\n".join(lines[:li + 1] + lines[li:]) + "\n"))
        variants.append(("missing-file", None))
        others = [s["outs"][0] for s in sc["stmts"] if s["dyndep"] != ddp and s["kind"] == "cmd"]
        served = [s for s in sc["stmts"] if s["dyndep"] == ddp]
        elsewhere = [s["outs"][0] for s in sc["stmts"] if s["dyndep"] and s["dyndep"] != ddp]
        if elsewhere:
            e_ = rng.choice(elsewhere)
            variants.append(("extra-statement-bound-elsewhere", good + "build %s: dyndep\n" % e_))
            variants.append(("extra-statement-bound-elsewhere-first", good.replace("\nbuild ", "\nbuild %s: dyndep | m0.h\nbuild " % e_, 1)))
            ctx.count("invalid_scenarios_with_two_dyndep_files")
        if others:
            variants.append(("extra-statement", good + "build %s: dyndep\n" % rng.choice(others)))
            variants.append(("others-output", good.replace(": dyndep", " | %s: dyndep" % rng.choice(others), 1)
                             if " | " not in good.split("\n")[1] else good.replace(": dyndep", " %s: dyndep" % rng.choice(others), 1)))
        if served:
            t = rng.choice(served)
            variants.append(("cycle-self", good.replace("build %s" % t["outs"][0], "build %s" % t["outs"][0], 1).replace(
                ": dyndep |", ": dyndep | %s" % t["outs"][0], 1) if ": dyndep |" in good else good.replace(": dyndep", ": dyndep | %s" % t["outs"][0], 1)))
            users = [s for s in sc["stmts"] if t["outs"][0] in s["ins"]]
            if users:
                u = users[0]["outs"][0]
                ln = [l for l in good.split("\n") if l.startswith("build %s" % t["outs"][0])]
                if ln:
                    new = ln[0] + (" " + u if ": dyndep |" in ln[0] else " | " + u)
                    variants.append(("cycle-downstream", good.replace(ln[0], new, 1)))
            # one new implicit output claimed twice: by one statement, and by two statements of the same file
            blines = [l for l in good.split("\n") if l.startswith("build ")]

            def claim(line, name):
                left, right = line.split(": dyndep", 1)
                return left + (" " if " | " in left else " | ") + name + ": dyndep" + right
            variants.append(("new-output-twice-one-statement", good.replace(blines[0], claim(claim(blines[0], "o/shared.mod"), "o/shared.mod"), 1)))
            if len(blines) >= 2:
                a, b = rng.sample(blines, 2)
                variants.append(("new-output-two-statements", good.replace(a, claim(a, "o/shared.mod"), 1).replace(b, claim(b, "o/shared.mod"), 1)))
            variants.append(("dup-output-claim", good + [l for l in good.split("\n") if l.startswith("build ")][0] + "\n"))
            variants.append(("garbage-binding", good.replace("\n", "\n  foo = bar\n", 2).replace("\n  foo = bar\n", "\n", 1)))
            variants.append(("explicit-input", good.replace(": dyndep", ": dyndep m0.h", 1)))
            variants.append(("order-only-input", good.rstrip("\n").split("\n")[0] + "\n" + "\n".join(good.rstrip("\n").split("\n")[1:2]) + " || m0.h\n" +
                             "\n".join(good.rstrip("\n").split("\n")[2:]) + ("\n" if len(good.rstrip("\n").split("\n")) > 2 else "")))
            variants.append(("version-2", good.replace("= 1", "= 2", 1)))
            variants.append(("no-version", "\n".join(good.split("\n")[1:])))
        for name, text in variants:
            cls = classify(sc, ddp, text)
            steps = []
            if text is None:
                steps.append({"op": "rm", "path": ddp})
            else:
                steps.append({"op": "write", "path": ddp, "content": text})
            steps.append({"op": "build", "targets": [s["outs"][0] for s in sc["stmts"] if s["dyndep"] == ddp], "j": 2, "k": 1,
                          "sched": {"mode": "prng", "seed": 3}})
            steps.append({"op": "clean", "mode": "all"})
            scn = simlib.scenario_json(sc, steps, sid="%s-%s" % (sc["id"], name))
            items.append((scn, cls, name, text, sc))
    results = {}

    def handler(scn, res, err):
        results[scn["id"]] = res
    simlib.run_scenarios([x[0] for x in items], handler)
    for scn, cls, name, text, sc in items:
        res = results.get(scn["id"])
        if not res:
            ctx.inconclusive += 1
            continue
        ctx.evaluations += 1
        ctx.count("dyndep_variants_" + cls)
        tb = res[1].get("trace", {})
        tc = res[2].get("trace", {}) if len(res) > 2 else {}
        rep = {"scenario": scn, "variant": name}
        for t, what in ((tb, "build"), (tc, "clean")):
            if t.get("crash"):
                ctx.violation("C11/nsim-crash/invalid-dyndep/" + (util.san_signature(t.get("stderr", "")) or "crash"),
                              "%s (%s): %s" % (scn["id"], what, t.get("stderr", "")[-1500:]), rep)
                break
        else:
            rb_ = tb.get("result", {})
            rc_ = tc.get("result", {})
            kind = name.split("@")[0].split("-line")[0]
            if cls == "invalid":
                ctx.nontrivial(scn["id"])
                if rb_.get("exit") == 0:
                    ctx.violation("C11/invalid-dyndep-accepted/build/%s" % kind,
                                  "%s: dyndep file %r is invalid for this graph but the build succeeded" % (scn["id"], text), rep)
                elif not (rb_.get("err") or ""):
                    ctx.violation("C11/invalid-dyndep-no-message/%s" % kind, "%s: build failed without an error message" % scn["id"], rep)
                # -t clean deliberately ignores dyndep load errors ("we clean as much of the graph as we know",
                # CleanTest.CleanDyndepMissing); only crashes are judged for it
            elif cls == "valid":
                if rb_.get("exit") != 0:
                    ctx.violation("C11/valid-dyndep-rejected/%s" % kind, "%s: valid dyndep file %r rejected: %s" % (scn["id"], text, rb_.get("err")), rep)
            if len(ctx.samples) < 4 and cls == "invalid" and kind not in ("trunc",):
                ctx.sample({"variant": name, "class": cls, "dyndep_file": text, "build_exit": rb_.get("exit"), "err": rb_.get("err")})


def run_invalid_clean_producer(ctx, rng, n):
    """'... produced by statements that are clean': the dyndep file on disk is invalid for the graph although its producer has
    nothing to do (the file was cut short, edited, left by another version of the scanner).  Ninja loads it either while
    scanning or - when the producer is clean but has to wait for an order-only input that is rebuilt - in the middle of the
    build, at the moment the producer is found to need no work.  Either way the build must stop with an error."""
    from ..simlib import St, dyndep_text
    items = []
    for k in range(n):
        sc = dyndep_scenario(rng, "C11c-%d-%d" % (ctx.seed, k), static=False, respell=False)
        scan = next((s_ for s_ in sc["stmts"] if s_["kind"] == "scan" and "dd/x.dd" in s_["outs"] + s_["iouts"]), None)
        if scan is None:
            continue
        ddp = "dd/x.dd"
        # a tool the scanner is ordered after, with further users declared before and after the scanner
        sc["sources"]["tool.in"] = "// tool\n"
        tool = St("tool", ["tool.bin"], ins=["tool.in"])
        waits = rng.random() < 0.7
        if waits:
            scan["oins"] = scan["oins"] + ["tool.bin"]
        users = [St("tu%d" % i, ["o/tu%d.ok" % i], ins=["tool.bin"]) for i in range(rng.randint(1, 2))]
        idx = sc["stmts"].index(scan)
        sc["stmts"].insert(rng.randint(0, idx), tool)
        for u in users:
            sc["stmts"].insert(rng.randint(0, len(sc["stmts"])), u)
        sc["defaults"] = []
        good = dyndep_text(scan, sc["sources"])
        lines = good.split("\n")[:-1]
        variants = [("trunc", good[:rng.randint(len(lines[0]) + 1, max(len(lines[0]) + 1, len(good) - 2))])]
        if len(lines) > 1:
            li = rng.randint(1, len(lines) - 1)
            variants.append(("del-line", "\n".join(lines[:li] + lines[li + 1:]) + "\n"))
            variants.append(("dup-line", "\n".join(lines[:li + 1] + lines[li:]) + "\n"))
        bl = [l for l in lines if l.startswith("build ")]
        if bl:
            left, right = bl[0].split(": dyndep", 1)
            variants.append(("new-output-twice", good.replace(bl[0], left + (" " if " | " in left else " | ") + "o/sh.mod o/sh.mod: dyndep" + right, 1)))
        name, text = rng.choice(variants)
        if classify(sc, ddp, text) != "invalid":
            continue
        steps = [{"op": "build", "targets": [], "j": 2, "k": 1, "sched": {"mode": "prng", "seed": 1}},
                 {"op": "write", "path": ddp, "content": text}]
        if rng.random() < 0.8:
            steps.append({"op": "touch", "path": "tool.in"})
        served = [s_["outs"][0] for s_ in sc["stmts"] if s_["dyndep"] == ddp]
        tg = rng.choice(([], served + [u["outs"][0] for u in users], served))
        steps.append({"op": "build", "targets": tg, "j": rng.choice((1, 2, 3)), "k": 1, "sched": {"mode": "prng", "seed": rng.randint(1, 10 ** 6)}})
        scn = simlib.scenario_json(sc, steps, sid="%s-%s" % (sc["id"], name))
        items.append((scn, name, text, waits))
    results = {}

    def handler(scn, res, err):
        results[scn["id"]] = res
    simlib.run_scenarios([x[0] for x in items], handler)
    for scn, name, text, waits in items:
        res = results.get(scn["id"])
        builds = [x for x in (res or []) if x.get("op") == "build"]
        if len(builds) < 2:
            ctx.inconclusive += 1
            continue
        t0, t1 = builds[0].get("trace", {}), builds[1].get("trace", {})
        rep = {"scenario": scn, "variant": name}
        ctx.evaluations += 1
        crashed = next((t for t in (t0, t1) if t.get("crash")), None)
        if crashed:
            ctx.violation("C11/nsim-crash/invalid-dyndep/" + (util.san_signature(crashed.get("stderr", "")) or "crash"),
                          "%s: %s" % (scn["id"], crashed.get("stderr", "")[-1500:]), rep)
            continue
        if t0.get("result", {}).get("exit") != 0:
            ctx.inconclusive += 1
            ctx.count("clean_producer_setup_failed")
            continue
        r1 = t1.get("result", {})
        started = [e["o"] for e in t1.get("events", []) if e["e"] == "S"]
        ctx.count("invalid_file_behind_clean_producer" + ("_loaded_mid_build" if waits and "tool.bin" in started else ""))
        ctx.nontrivial(scn["id"])
        if "dd/x.dd" in started:
            ctx.count("clean_producer_ran_anyway")      # (then the file was made anew: nothing to judge)
            continue
        if r1.get("exit") == 0:
            ctx.violation("C11/invalid-dyndep-accepted/build/clean-producer/%s" % name,
                          "%s: the dyndep file on disk is %r (invalid for this graph), its producer has nothing to do; the build ran %s and succeeded" %
                          (scn["id"], text, started), rep)
        elif not (r1.get("err") or ""):
            ctx.violation("C11/invalid-dyndep-no-message/clean-producer/%s" % name, "%s: build failed without an error message" % scn["id"], rep)


def run(ctx):
    quick = ctx.tier == "quick"
    rng = random.Random(ctx.seed * 7907 + 11)
    run_twins(ctx, rng, 2500 if quick else 20000)
    run_invalid(ctx, rng, 60 if quick else 400)
    run_invalid_clean_producer(ctx, rng, 250 if quick else 4000)
    ctx.rule = ("twin scenarios: 1..4 dyndep-served statements (+ base graph, scanner or pre-existing file) x 1..4 rounds; invalid "
                "family: every truncation offset (<=60 sampled per file), every line deletion/duplication, 12 structural variants per "
                "file; distinct_nontrivial = twin build steps in which commands ran + invalid variants")


def replay(ctx, path):
    run(ctx)
