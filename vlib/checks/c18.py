"""C18 - cleaning removes only what ninja built, and all of it.
nsim: the real Cleaner on the virtual disk for -t clean (all / -g / targets / -r rules / dry run) and -t cleandead over
generated graphs in never-built, built, half-built and changed-manifest states, with look-alike files around."""
import copy, json, random
from .. import simlib, gen, model, util, core
from ..simlib import St, all_outs, manifest_step
from ..logmodel import parse_build_log

MANIFEST = dict(
    engine="nsim+e2e", category="exploration",
    technique="runtime monitoring: real Cleaner on a virtual disk with every removal recorded; oracle = set model of the clean scope "
              "(allowed / required) computed from the scenario, followed by a rebuild compared with the clean build",
    text="Generated graphs (multi-output statements, depfiles and rspfiles, phony aliases whose names are also existing files, generator "
         "rules, dyndep-provided outputs) are brought into never-built / built / half-built states, decorated with look-alike files, "
         "then cleaned with a random scope: everything, -g, any target set, any rule set (including 'phony'), dry run; cleandead "
         "situations are produced by removing or renaming statements between builds. Oracle: removed is a subset of allowed(scope) and "
         "every existing file of required(scope) is removed (dry run: counted, nothing removed); never a source, a phony name, or - "
         "without -g - a generator output; a following build re-creates everything with clean contents.",
    note="Trusted: the scope model in this file. Known findings: -t clean <targets> and -r <rules> remove generator outputs without -g.",
    ref="DESIGN.md §5 C18")


def setup():
    simlib.nsim_bin()
    from .. import e2e
    e2e.ninja_bin()
    e2e.vtool_bin()


def dyndep_files_not_loadable(sc, world):
    """dyndep files the Cleaner cannot (fully) load: absent, or written for another set of statements than the
    manifest now has (ninja rejects a dyndep file that names an output without a build statement, or that does not
    mention a statement bound to it; it then cleans 'as much of the graph as it knows')"""
    bad = set()
    for s in sc["stmts"]:
        if s["kind"] != "scan":
            continue
        p = s["outs"][0]
        if p not in world:
            bad.add(p)
            continue
        mentioned = {l.split(":")[0].split()[1] for l in world[p][1].splitlines() if l.startswith("build ")}
        bound = {t["outs"][0] for t in sc["stmts"] if t.get("dyndep") == p}
        if mentioned != bound:
            bad.add(p)
    return bad


def scope1(sc, graph, mode, args, generator, log_paths=()):
    """paths in scope for one view of the graph"""
    def files_of(s):
        r = set(graph.outs(s))
        if s["depfile"] and s["deps"] != "msvc":
            r.add(s["depfile"])
        if s["rsp"]:
            r.add(s["rsp"])
        return r
    allowed = set()
    if mode == "all":
        for s in sc["stmts"]:
            if s["kind"] == "phony" or (s["generator"] and not generator):
                continue
            allowed |= files_of(s)
    elif mode == "targets":
        seen, work = set(), list(args)
        while work:
            f = work.pop()
            if f in seen:
                continue
            seen.add(f)
            s = graph.producer.get(f)
            if s is None:
                continue
            if s["kind"] != "phony":
                allowed |= files_of(s)
            work += graph.all_inputs(s)
    elif mode == "rules":
        for s in sc["stmts"]:
            if s["kind"] != "phony" and simlib.rule_name(s) in args:
                allowed |= files_of(s)
    elif mode == "dead":
        inputs = set()
        for s in sc["stmts"]:
            inputs |= set(graph.all_inputs(s))
        produced = set(graph.producer)
        for p in log_paths:
            if p not in produced and p not in inputs:
                allowed.add(p)
    return allowed


def scope(sc, sources, mode, args, generator, log_paths, unloaded):
    """-> (allowed set, required set) of paths.  What dyndep files that cannot be loaded would have said may or may
    not be known to the Cleaner (a rejected file is applied up to the statement it is rejected for): paths that are in
    scope only with / only without that information may be removed but need not be."""
    full = scope1(sc, model.Graph(sc, sources), mode, args, generator, log_paths)
    if not unloaded:
        return full, set(full)
    part = scope1(sc, model.Graph(sc, sources, unloaded=unloaded), mode, args, generator, log_paths)
    return full | part, full & part


def run(ctx):
    quick = ctx.tier == "quick"
    rng = random.Random(ctx.seed * 4099 + 18)
    jobs = []
    for k in range(6000 if quick else 60000):
        g = gen.Gen(random.Random(rng.randint(0, 2 ** 60)), size=rng.randint(2, 8),
                    feat=dict(deps=0.5, rsp=0.3, generator=0.2, phony=0.25, multi=0.4, restat=0.1))
        sc = g.scenario("C18-%d-%d" % (ctx.seed, k))
        # a phony statement naming an existing source file (the 'build gen.h: phony' idiom)
        if rng.random() < 0.4:
            sc["sources"]["gen.h"] = "// checked in\n"
            sc["stmts"].append(St("ph", ["gen.h"], kind="phony"))
            if rng.random() < 0.5:
                sc["sources"]["all"] = "a file that happens to be called like an alias\n"
                sc["stmts"].append(St("phall", ["all"], ins=[s["outs"][0] for s in sc["stmts"] if s["kind"] == "cmd"][:2], kind="phony"))
        # part of the project in a file of its own (subninja), which may declare a rule under a name the top-level file uses too:
        # "-r NAME" is about every statement whose rule is called NAME
        subfile = False
        cmds0 = [s for s in sc["stmts"] if s["kind"] == "cmd"]
        if len(cmds0) >= 2 and rng.random() < 0.3:
            subfile = True
            moved = rng.sample(cmds0, rng.randint(1, len(cmds0) - 1))
            for s in moved:
                s["file"] = "sub.ninja"
            if rng.random() < 0.7:
                a_ = rng.choice([s for s in cmds0 if not s.get("file")])
                b_ = rng.choice(moved)
                a_["rule_name"] = b_["rule_name"] = "r_shared"
            ctx.count("scenarios_with_subninja")
        steps, scs = [], []
        cur = copy.deepcopy(sc)
        state = rng.choice(("never", "built", "built", "half", "built-then-rm"))
        if state != "never":
            b = g.build_step(cur)
            b["targets"] = [] if state != "half" else g.pick_targets(cur)
            steps.append(b); scs.append(copy.deepcopy(cur))
        if state == "built-then-rm":
            outs = [o for s in cur["stmts"] if s["kind"] == "cmd" for o in all_outs(s)]
            for o in rng.sample(outs, min(len(outs), rng.randint(1, 2))):
                steps.append({"op": "rm", "path": o}); scs.append(copy.deepcopy(cur))
        # look-alike files
        for o in [o for s in cur["stmts"] if s["kind"] == "cmd" for o in all_outs(s)][:3]:
            if rng.random() < 0.5:
                steps.append({"op": "write", "path": o + ".bak", "content": "keep me\n"}); scs.append(copy.deepcopy(cur))
        steps.append({"op": "write", "path": "notes.txt", "content": "unrelated\n"}); scs.append(copy.deepcopy(cur))
        # depfiles of deps=gcc statements and response files that are still on disk (kept by -d keepdepfile / -d keeprsp,
        # left by a failed command, or from before `deps` was added to the rule): they belong to the statement's files
        for s in cur["stmts"]:
            if s["kind"] != "cmd":
                continue
            if s["depfile"] and s["deps"] == "gcc" and rng.random() < 0.35:
                steps.append({"op": "write", "path": s["depfile"], "content": "%s: kept.h\n" % s["outs"][0]}); scs.append(copy.deepcopy(cur))
            if s["rsp"] and rng.random() < 0.35:
                steps.append({"op": "write", "path": s["rsp"], "content": "kept response file\n"}); scs.append(copy.deepcopy(cur))
        mode = rng.choice(("all", "all", "targets", "targets", "rules", "dead"))
        cl = {"op": "clean", "mode": mode, "generator": rng.random() < 0.4, "dry": rng.random() < 0.25, "args": []}
        if mode == "targets":
            names = [o for s in cur["stmts"] for o in all_outs(s)] + sorted(cur["sources"])[:2]
            cl["args"] = rng.sample(names, rng.randint(1, min(3, len(names))))
        elif mode == "rules":
            # (a rule that is declared only inside a subninja file is not visible from the top level: `-r` answers "unknown rule",
            # an error and not a silent omission - such names are not asked for)
            rules = sorted({simlib.rule_name(s) for s in cur["stmts"] if s["kind"] != "phony" and not s.get("file")}) + ["phony"]
            cl["args"] = rng.sample(rules, rng.randint(1, min(3, len(rules))))
            if subfile and "r_shared" in rules and rng.random() < 0.7 and "r_shared" not in cl["args"]:
                cl["args"][0] = "r_shared"
        elif mode == "dead":
            # change the manifest: drop / rename statements so that logged outputs go dead
            cmds = [s for s in cur["stmts"] if s["kind"] == "cmd"]
            users = set()
            for s in cur["stmts"]:
                users |= set(s["ins"] + s["iins"] + s["oins"] + s["vals"])
            leafs = [s for s in cmds if not any(o in users for o in all_outs(s))]
            if leafs:
                victim = rng.choice(leafs)
                if rng.random() < 0.5:
                    cur["stmts"] = [s for s in cur["stmts"] if s is not victim]
                    cur["defaults"] = [d for d in cur["defaults"] if d not in all_outs(victim)]
                else:
                    ren = {o: o + ".new" for o in all_outs(victim)}
                    victim["outs"] = [ren[o] for o in victim["outs"]]
                    victim["iouts"] = [ren[o] for o in victim["iouts"]]
                    if victim["depfile"]:
                        victim["depfile"] = victim["outs"][0] + ".d"
                    cur["defaults"] = [ren.get(d, d) for d in cur["defaults"]]
                steps.append(manifest_step(cur)); scs.append(copy.deepcopy(cur))
        steps.append(cl); scs.append(copy.deepcopy(cur))
        rb = g.build_step(cur)
        rb["targets"] = []
        steps.append(rb); scs.append(copy.deepcopy(cur))
        jobs.append((simlib.scenario_json(sc, steps), scs, len(steps) - 2))
    res = {}

    def handler(scn, results, err):
        res[scn["id"]] = results
    simlib.run_scenarios([j[0] for j in jobs], handler)
    for scn, scs, ci in jobs:
        r = res.get(scn["id"])
        if not r:
            ctx.inconclusive += 1
            ctx.count("inconclusive_nsim_gave_no_result")
            continue
        try:
            judge(ctx, scn, scs, ci, r)
        except model.Invalid:
            ctx.inconclusive += 1
            ctx.count("inconclusive_scenario_rejected_by_model")
    # the real binary on a long build log (recompaction happens inside the cleandead invocation itself)
    from .. import e2e
    seeds = [rng.randint(1, 10 ** 9) for _ in range(16 if quick else 300)]
    e2e.parallel(lambda sd: e2e.c18_dead_case(ctx, sd), seeds)
    # outputs that are symbolic links (dangling, to a source, to another output): the link is what gets cleaned
    from .c07 import safe
    seeds = [rng.randint(1, 10 ** 9) for _ in range(40 if quick else 800)]
    e2e.parallel(lambda sd: safe(ctx, e2e.c18_links_case, ctx, sd), seeds)
    ctx.rule = ("graphs of 2..8 statements in never-built/built/half-built/partly-deleted states + look-alike files x clean scope (all, -g, "
                "1..3 targets, 1..3 rules incl. 'phony', cleandead after dropping/renaming a statement, 25%% dry run); distinct_nontrivial "
                "= distinct scenarios in which at least one existing file was in scope")


def judge(ctx, scn, scs, ci, results):
    # world before the clean: replay snapshots + edit events
    world, logs = {p: [1000 + n, c] for n, (p, c) in enumerate(scn["files"].items())}, {}
    for i, r in enumerate(results[:ci]):
        if r.get("skipped"):
            return
        if r["op"] == "build":
            t = r["trace"]
            if t.get("crash"):
                ctx.inconclusive += 1
                ctx.count("inconclusive_setup_build_crashed")
                ctx.note_crash = (t.get("stderr") or "")[-400:]
                return
            world = t["world"]["files"]
            logs = t["world"].get("logs", {})
        else:
            st = scn["steps"][i]
            for ev in r.get("events", []):
                if ev["e"] == "W":
                    c = st.get("content") if st["op"] == "write" else (st["files"].get(ev["p"], "") if st["op"] == "manifest" else world.get(ev["p"], [0, ""])[1])
                    world[ev["p"]] = [ev["t"], c]
                elif ev["e"] == "RM":
                    world.pop(ev["p"], None)
    sc = scs[ci]
    step = scn["steps"][ci]
    tr = results[ci].get("trace", {})
    ctx.evaluations += 1
    rep = {"scenario": scn}
    if tr.get("crash"):
        ctx.violation("C18/nsim-crash/" + (util.san_signature(tr.get("stderr", "")) or "crash"), "%s: %s" % (scn["id"], tr.get("stderr", "")[-1500:]), rep)
        return
    after = tr["world"]["files"]
    removed = {p for p in world if p not in after}
    srcs = {p: v[1] for p, v in world.items() if p in sc["sources"]}
    graph = model.Graph(sc, srcs)
    log_paths = []
    for lp, hx in logs.items():
        if lp.endswith(".ninja_log"):
            log_paths = [k.decode("latin-1") for k in parse_build_log(bytes.fromhex(hx))[1]]
    mode = step["mode"]
    unloaded = dyndep_files_not_loadable(sc, world)
    if unloaded:
        ctx.count("cleans_with_unloadable_dyndep_file")
    allowed, required = scope(sc, srcs, mode, step["args"], step["generator"], log_paths, unloaded)
    sources = set(sc["sources"]) | {"build.ninja"}
    phony_names = {o for s in sc["stmts"] if s["kind"] == "phony" for o in s["outs"]}
    gen_outs = {o for s in sc["stmts"] if s["generator"] for o in all_outs(s)}
    existing_in_scope = {p for p in required if p in world}
    if existing_in_scope:
        ctx.nontrivial(scn["id"])
    ctx.count("clean_%s%s" % (mode, "_dry" if step["dry"] else ""))
    desc = "scenario %s: -t %s %s%s%s" % (scn["id"], "cleandead" if mode == "dead" else "clean", "-g " if step["generator"] and mode == "all" else "",
                                         "-r " if mode == "rules" else "", " ".join(step["args"]))
    if step["dry"]:
        if removed:
            ctx.violation("C18/dry-run-removed", "%s (dry run) removed %s" % (desc, sorted(removed)), rep)
            return
        if not len(existing_in_scope) <= tr["result"].get("cleaned", -1) <= len({p for p in allowed if p in world}):
            extra = ""
            ctx.violation("C18/dry-run-count/%s" % mode, "%s (dry run) reported %s files, %d existing files are in scope (%s)" %
                          (desc, tr["result"].get("cleaned"), len(existing_in_scope), sorted(existing_in_scope)), rep)
        return
    for p in sorted(removed):
        if p in sources and p not in allowed:
            ctx.violation("C18/source-removed/%s" % mode, "%s removed the source file %s" % (desc, p), rep)
            return
        if p in phony_names:
            ctx.violation("C18/phony-name-removed/%s" % mode, "%s removed %s, which is only a phony name" % (desc, p), rep)
            return
        if p in gen_outs and not (mode == "all" and step["generator"]):
            ctx.violation("C18/generator-output-removed-without-g/%s" % mode, "%s removed the generator output %s" % (desc, p), rep)
            return
        if p not in allowed:
            ctx.violation("C18/out-of-scope-removed/%s" % mode, "%s removed %s (not an output/depfile/rspfile in scope)" % (desc, p), rep)
            return
    left = sorted(p for p in existing_in_scope if p in after)
    left = [p for p in left if not (p in gen_outs and mode in ("targets", "rules"))] if False else left
    if left:
        ctx.violation("C18/not-removed/%s" % mode, "%s left %s behind" % (desc, left), rep)
        return
    ctx.count("files_removed", len(removed))
    # the following build re-creates everything
    rb = results[ci + 1].get("trace", {}) if ci + 1 < len(results) else {}
    if rb and not rb.get("crash") and rb["result"].get("exit") == 0:
        clean, _ = graph.clean()
        w2 = rb["world"]["files"]
        targets = sc["defaults"] or gen.Gen.roots(sc)
        for sid in graph.closure(targets):
            s = graph.by_id[sid]
            if s["kind"] == "phony":
                continue
            for o in graph.outs(s):
                if w2.get(o, [0, None])[1] != clean.get(o):
                    prov = "generator-kept" if s["generator"] else ""
                    ctx.violation("C18/rebuild-after-clean-differs", "%s then build: %s is %r, clean build gives %r" %
                                  (desc, o, w2.get(o, [0, None])[1], clean.get(o)), rep)
                    return
        ctx.count("rebuilds_after_clean_ok")
    if len(ctx.samples) < 3 and removed:
        ctx.sample({"scenario": scn["id"], "command": desc.split(": ", 1)[1], "removed": sorted(removed)})


def replay(ctx, path):
    run(ctx)
