"""C14 - path canonicalisation identifies exactly the lexically equal paths.
Engine: nprobe canon (real CanonicalizePath, ASan+UBSan, exact-size heap buffers).
Oracle: ten-line reference normaliser compiled into the probe + idempotence, never longer,
leading '/' kept, slash_bits==0, std::string overload agrees."""

MANIFEST = {'engine': 'nprobe+e2e', 'category': 'exploration', 'technique': 'runtime monitoring: real CanonicalizePath under ASan/UBSan; bounded-exhaustive + random inputs; reference-normaliser oracle', 'text': 'Every string over {a,b,.,/} up to length 10 (quick) / 13 (thorough) and 0.2M / 5M random long paths and 32k shaped deep paths (descend D components, climb U, all D,U<=72) are pushed through the real function in exact-size heap buffers; each result is compared with a ten-line reference normaliser and checked for idempotence, non-growth, kept root. Exhaustive where the structure lives, sampled beyond; a sanitizer report is a violation. Entry points: a small project written once with canonical paths and once with every occurrence of every path (manifest, default and command-line targets, depfile targets and dependencies, deps=gcc) respelled independently is run through the real binary step by step; both must behave identically.', 'note': 'Trusted: the reference normaliser (harness/probe_canon.cc RefCanon), ASan red zones. Empty string excluded (callers reject it).', 'ref': 'DESIGN.md §5 C14'}

from .. import build, util, core
import json

PROBE_SRCS = ["nprobe.cc", "probe_canon.cc"]


def probe():
    return build.get_bin("nprobe-canon", PROBE_SRCS)


def setup():
    probe()
    from .. import e2e
    e2e.ninja_bin()


def run(ctx):
    b = probe()
    maxlen, nrandom = (10, 200000) if ctx.tier == "quick" else (13, 5000000)
    n = util.NCPU
    cmds = [[b, "canon", str(maxlen), str(nrandom // n), str(ctx.seed * 1000 + i), str(i), str(n)]
            for i in range(n)]
    res = util.run_many(cmds, timeout=3600)
    ctx.rule = ("every string over {a,b,.,/} of length 1..%d (exhaustive) plus random long paths "
                "(up to 400 components, arbitrary non-NUL bytes) plus shaped paths (descend D, climb U times with '..', "
                "descend again, all D, U <= 72); distinct_nontrivial = number of "
                "inputs of the exhaustive enumeration (all distinct by construction) that "
                "canonicalisation changes" % maxlen)
    ctx.exhaustive = False  # the alphabet-bounded part is exhaustive, the property's domain is not
    ctx.assumptions = ["empty string excluded (every caller rejects it before canonicalising)",
                       "reference normaliser in harness/probe_canon.cc is the specification"]
    for (rc, out, err, to), cmd in zip(res, cmds):
        err = err.decode("latin-1")
        if to:
            raise core.Inconclusive("probe timed out: %s" % " ".join(cmd))
        if rc != 0:
            sig = util.san_signature(err) or "crash:rc=%d" % rc
            ctx.violation("C14/sanitizer/" + sig, err[-3000:], {"cmd": cmd})
            continue
        j = json.loads(out)
        ctx.evaluations += j["evals"]
        ctx.distinct_extra += j["changed_exh"]
        ctx.count("distinct_canonical_outputs_per_shard_sum", j["distinct_out"])
        for k in ("exhaustive", "random", "shaped", "changed", "idem_checks", "string_overload", "mismatches"):
            ctx.count(k, j[k])
        for s in j["samples"]:
            ctx.sample(util.unhex(s).decode("latin-1"))
        for bad in j["bad"]:
            i, g, w, kind = bad.split("|")
            i, g, w = (util.show(util.unhex(x)) for x in (i, g, w))
            ctx.violation("C14/%s/%s" % (kind, i[:40]), "input %r: ninja gives %r, expected %r (%s)"
                          % (i, g, w, kind), {"input_hex": bad.split("|")[0]})
    ctx.counters["exhaustive_maxlen"] = maxlen
    # the same function behind every entry point: manifest, command line, depfile targets and dependencies
    from .. import e2e
    import random as _random
    rr = _random.Random(ctx.seed * 7 + 14)
    seeds = [rr.randint(1, 10 ** 9) for _ in range(60 if ctx.tier == "quick" else 1500)]
    e2e.parallel(lambda sd: e2e.c14_entry_case(ctx, sd), seeds)
    from .c07 import safe
    # ... the dyndep file: its statement, implicit outputs and implicit inputs
    seeds = [rr.randint(1, 10 ** 9) for _ in range(40 if ctx.tier == "quick" else 1000)]
    e2e.parallel(lambda sd: safe(ctx, e2e.c14_dyndep_case, ctx, sd), seeds)
    # ... and names that differ in any other way (letter case, dots inside a component) stay two files at those entry points
    seeds = [rr.randint(1, 10 ** 9) for _ in range(60 if ctx.tier == "quick" else 1500)]
    e2e.parallel(lambda sd: safe(ctx, e2e.c14_distinct_case, ctx, sd), seeds)


def replay(ctx, path):
    run(ctx)
