"""C07 - interrupting or killing ninja never poisons the next build.
e2e: (a) every reachable crash point (NINJA_VERIF hooks) of generated scenarios is crashed (_exit(77)) and recovered;
(b) real SIGINT/SIGTERM/SIGHUP/SIGKILL while slow commands provably run; (c) nsim: Interrupted{} at every wait index."""
import struct, copy, json, os, random, shutil, signal, subprocess, time
from .. import simlib, gen, model, util, core, e2e, sched
from ..simlib import St, all_outs
from ..logmodel import parse_build_log, parse_deps_log, deps_view

MANIFEST = dict(
    engine="e2e+nsim", category="fault_enumeration",
    technique="runtime monitoring + fault injection: enumerated crash points (guarded hooks) and real signals against the real binary "
              "with real processes; recovery compared with the clean build; nsim interrupts at every wait index",
    text="For each generated scenario a counting pass lists every (crash point, hit index) the victim build reaches - after the lock "
         "file, rspfile and spawn in StartEdge, after status / restat / plan / rspfile removal / build-log append / each deps-log append "
         "in FinishCommand, between outputs of a multi-output build-log record, before depfile removal, inside log recompaction between "
         "unlink and rename, in Cleanup - and EACH one is crashed with _exit(77); orphaned commands are left to finish (they write "
         "atomically). Recovery invocations must start normally and, once one succeeds, the tree equals the clean build and a further "
         "run has no work; a command that finished but left no new build-log record must run again. Signals: SIGINT/SIGTERM/SIGHUP are "
         "sent to ninja while slow commands (early in-place writers, with and without depfile) provably run: exit status 130, lock file "
         "gone, no command of the scenario alive, modified outputs of killed commands (always with a depfile) and their depfiles "
         "removed, then recovery == clean build. SIGKILL of ninja: recovery only. nsim: Interrupted{} at every wait index of sampled "
         "schedules checks Builder::Cleanup on the virtual disk. In 40 % of the signal runs the signal arrives while ninja is NOT waiting for its commands: it sits in write(2) on a stdout pipe nobody reads (seen in /proc/<pid>/syscall) printing the output of the first command that finished. Whatever the mode: when the last command had not started (its own CLOCK_MONOTONIC stamp) at the moment kill() returned, exit status 0 means the interrupt was ignored.",
    note="Trusted: crash == _exit at the hook (no torn write inside a single fwrite: C08/C09 cover torn bytes); commands write "
         "atomically when left running after a crash (the property's assumption).",
    ref="DESIGN.md §5 C07")


def setup():
    e2e.ninja_bin()
    e2e.vtool_bin()
    simlib.nsim_bin()


def wait_quiet(tree, timeout=20.0):
    """wait until every command that logged S has logged E (orphans of a crashed ninja finish on their own)"""
    t0 = time.time()
    while time.time() - t0 < timeout:
        ev = tree.events()
        started = {(e["id"], e["pid"]) for e in ev if e["e"] == "S"}
        ended = {(e["id"], e["pid"]) for e in ev if e["e"] == "E"}
        alive = [p for (_, p) in started - ended if pid_alive(p)]
        if not alive:
            return True
        time.sleep(0.01)
    return False


def pid_alive(pid):
    """a live (non-zombie) process; orphans of an exited ninja may linger as zombies until init reaps them"""
    try:
        with open("/proc/%d/stat" % pid) as f:
            st = f.read().rsplit(")", 1)[1].split()[0]
        return st not in ("Z", "X")
    except (OSError, IndexError):
        return False


def copy_tree(src, dst):
    subprocess.run(["cp", "-a", src + "/.", dst], check=True)


def recover(ctx, tree, sc, what, rep, targets=None):
    """recovery runs until success; then clean-build equality and convergence"""
    outs = []
    for k in range(3):
        rc, so, se = tree.run(["-j3"] + (targets or []))
        outs.append((rc, so.decode("latin-1")[-600:], se.decode("latin-1")[-600:]))
        if rc is None:
            ctx.inconclusive += 1
            return False
        txt = (so + se).decode("latin-1")
        sig = util.san_signature(txt)
        if sig:
            ctx.violation("C07/sanitizer-in-recovery/" + sig, "%s: %s" % (what, txt[-1500:]), rep)
            return False
        if "ninja: error:" in txt and ("loading" in txt or "opening" in txt):
            ctx.violation("C07/recovery-cannot-start", "%s: recovery run failed to start: %s" % (what, txt[-400:]), rep)
            return False
        if rc == 0:
            break
    else:
        ctx.violation("C07/recovery-does-not-succeed", "%s: three recovery runs: %s" % (what, outs), rep)
        return False
    bad = e2e.compare_with_clean(sc, tree, targets)
    if bad:
        o, got, want = bad[0]
        st = next(s for s in sc["stmts"] if o in all_outs(s))
        ctx.violation("C07/recovered-tree-differs/deps=%s%s" % (st["deps"], "/restat" if st["restat"] else ""),
                      "%s: after recovery %s is %r, clean build gives %r" % (what, o, got, want), rep)
        return False
    rc, so, se = tree.run(["-j3"] + (targets or []))
    if rc != 0 or b"no work to do" not in so:
        ctx.violation("C07/recovery-not-converged", "%s: run after recovery: rc=%s %s" % (what, rc, so.decode("latin-1")[-300:]), rep)
        return False
    # ... and no lock file: the dead ninja's .ninja_lock is removed by the next ninja that ends normally, also by one that finds
    # nothing to run (a death after the last record was written leaves exactly that situation)
    lock = (sc["builddir"] + "/" if sc.get("builddir") else "") + ".ninja_lock"
    ctx.count("lock_file_checks_after_recovery")
    if os.path.exists(tree.path(lock)):
        ctx.violation("C07/lock-file-left-after-recovery", "%s: %s still exists after a recovery build that succeeded and a further run that had "
                      "nothing to do (a clean build leaves none)" % (what, lock), rep)
        return False
    # "identical to a clean build" also means nothing more than a clean build leaves: a response file is gone once its command
    # has succeeded, the depfile of a deps=gcc statement once it has been read - also when ninja died in between and the
    # recovery build found nothing left to do for that statement
    if targets is None:
        for s_ in sc["stmts"]:
            if s_["kind"] == "phony":
                continue
            ctx.count("stray_file_checks_after_recovery")
            if s_["rsp"] and os.path.exists(tree.path(s_["rsp"])):
                ctx.violation("C07/response-file-left-after-recovery", "%s: %s still exists after the recovery build succeeded and found nothing more to do "
                              "(a clean build removes it)" % (what, s_["rsp"]), rep)
                return False
            if s_["deps"] == "gcc" and s_["depfile"] and os.path.exists(tree.path(s_["depfile"])):
                ctx.violation("C07/depfile-left-after-recovery", "%s: %s (deps = gcc) still exists after recovery" % (what, s_["depfile"]), rep)
                return False
    # whatever the dead ninja left lying around (temporary files of a recompaction it did not finish) must not come back
    # to life when the logs are compacted later
    rc, so, se = tree.run(["-t", "recompact"])
    rc2, so2, se2 = tree.run(["-j3"] + (targets or []))
    ctx.count("recompactions_after_recovery")
    txt = (so + se + so2 + se2).decode("latin-1")
    if rc != 0 or rc2 != 0 or b"no work to do" not in so2 or "premature end of file" in txt:
        ctx.violation("C07/recompaction-after-recovery-loses-records", "%s: -t recompact rc=%s, then ninja rc=%s: %s" % (what, rc, rc2, txt[-400:]), rep)
        return False
    # what the logs now say about discovered dependencies is what the last commands reported, not what an older record said:
    # every header is edited, the build that follows must bring the tree to the clean state again
    hdrs = sorted(p_ for p_ in sc["sources"] if p_.endswith(".h") and os.path.exists(tree.path(p_)))
    if hdrs:
        for h in hdrs:
            cur = tree.read(h).decode("latin-1")
            tree.write(h, cur + "// probe\n")
        rc3, so3, se3 = tree.run(["-j3"] + (targets or []))
        ctx.count("header_probes_after_recovery")
        if rc3 != 0:
            ctx.violation("C07/build-after-recovery-fails", "%s: after editing the headers: rc=%s %s" % (what, rc3, (so3 + se3).decode("latin-1")[-300:]), rep)
            return False
        bad = e2e.compare_with_clean(sc, tree, targets)
        if bad:
            o, got, want = bad[0]
            st = next(s_ for s_ in sc["stmts"] if o in all_outs(s_))
            ctx.violation("C07/stale-dependency-record-trusted-after-recovery/deps=%s%s" % (st["deps"], "/restat" if st["restat"] else ""),
                          "%s: after recovery every header was edited and ninja ran again: %s is %r, a clean build gives %r" % (what, o, got, want), rep)
            return False
    return True


# ----------------------------------------------------------------------------------------- crash points
def crash_scenario(ctx, seed, quick):
    rng = random.Random(seed)
    g = gen.Gen(random.Random(rng.randint(0, 2 ** 60)), size=rng.randint(2, 5),
                feat=dict(deps=0.7, rsp=0.4, multi=0.5, restat=0.3, phony=0.1, vals=0.1, generator=0.0, pools=0.2, chain=0.7))
    sc = g.scenario("C07-%d" % seed)
    for s in sc["stmts"]:
        s["atomic"] = True
    base = e2e.Tree(sc)
    local = {"pairs": 0, "points": set()}
    try:
        # history before the victim build
        pre = rng.choice(("none", "built", "built+changes"))
        if pre != "none":
            rc, so, se = base.run(["-j3"])
            if rc != 0:
                ctx.inconclusive += 1
                return local
        if pre == "built+changes":
            for _ in range(rng.randint(1, 3)):
                srcs = sorted(sc["sources"])
                p = rng.choice(srcs)
                if rng.random() < 0.6:
                    sc["sources"][p] += "// e%d\n" % rng.randint(0, 999999)
                    base.write(p, sc["sources"][p])
                else:
                    base.touch(p)
            if rng.random() < 0.5:
                # a source now includes another header than before: what the victim build records about it differs from
                # what the logs say so far
                cands = [s for s in sc["stmts"] if s["kind"] == "cmd" and s["deps"] != "none" and "#include h" in sc["sources"].get(s["ins"][0], "")]
                hdrs = sorted(p_ for p_ in sc["sources"] if p_.startswith("h") and p_.endswith(".h"))
                if cands and len(hdrs) >= 2:
                    s_ = rng.choice(cands)
                    src = s_["ins"][0]
                    lines = sc["sources"][src].split("\n")
                    have = [l[9:] for l in lines if l.startswith("#include h")]
                    other = [h for h in hdrs if h not in have]
                    if other:
                        old_h = rng.choice(have)
                        lines[lines.index("#include " + old_h)] = "#include " + rng.choice(other)
                        sc["sources"][src] = "\n".join(lines)
                        base.write(src, sc["sources"][src])
                        local["reincludes"] = local.get("reincludes", 0) + 1
            if rng.random() < 0.3:
                s = rng.choice([s for s in sc["stmts"] if s["kind"] == "cmd"])
                s["ver"] += 1
                base.install(sc)
        # grow the build log so that a recompaction happens in the victim run (sometimes)
        if rng.random() < 0.25 and pre != "none":
            lp = base.path(".ninja_log")
            data = open(lp, "rb").read()
            body = b"".join(data.split(b"\n", 1)[1:])
            with open(lp, "ab") as f:
                for _ in range(40):
                    f.write(body)
        # ... and the deps log (more than 1000 dependency records, three quarters of them superseded)
        if rng.random() < 0.25 and pre != "none" and os.path.exists(base.path(".ninja_deps")):
            dp = base.path(".ninja_deps")
            data = open(dp, "rb").read()
            off, recs = 16, []
            while off + 4 <= len(data):
                sz = struct.unpack("<I", data[off:off + 4])[0]
                n_ = sz & 0x7fffffff
                if sz & 0x80000000:
                    recs.append(data[off:off + 4 + n_])
                off += 4 + n_
            if recs and off == len(data):
                with open(dp, "ab") as f:
                    for _ in range(1100 // len(recs) + 4):
                        for rb in recs:
                            f.write(rb)
                local["deps_log_grown"] = local.get("deps_log_grown", 0) + 1
        j = rng.choice((1, 3))
        base.events(clear=True)
        snap = util.scratch("ne2e-base-")
        try:
            copy_tree(base.d, snap)
            # counting pass
            cnt = os.path.join(base.d, ".crashcount")
            rc, so, se = base.run(["-j%d" % j], env={"VERIF_CRASH_POINT": "count:" + cnt}, settle=True)
            hits = open(cnt).read().split() if os.path.exists(cnt) else []
            if rc != 0:
                ctx.inconclusive += 1
                return local
            counts = {}
            seq = []
            for h in hits:
                counts[h] = counts.get(h, 0) + 1
                seq.append((h, counts[h]))
            cap = 45 if quick else 150
            if len(seq) > cap:
                seq = rng.sample(seq, cap)
            for name, n in seq:
                t = e2e.Tree()
                try:
                    copy_tree(snap, t.d)
                    t.sc = sc
                    mf = open(t.path("build.ninja")).read()
                    log0 = parse_build_log(t.read(".ninja_log") or b"")[1]
                    rc, so, se = t.run(["-j%d" % j], env={"VERIF_CRASH_POINT": "%s:%d" % (name, n)}, settle=True)
                    ctx.evaluations += 1
                    rep = {"seed": seed, "point": name, "hit": n, "manifest": mf, "sources": sc["sources"]}
                    what = "scenario %d crash at %s#%d" % (seed, name, n)
                    if rc != 77:
                        if rc == 0:
                            ctx.count("crash_point_not_reached_on_rerun")   # schedule dependent (-j3)
                        else:
                            txt = (so + se).decode("latin-1")
                            sig = util.san_signature(txt)
                            ctx.violation("C07/victim-run-failed/" + (sig or "rc=%s" % rc), "%s: %s" % (what, txt[-800:]), rep)
                        continue
                    if not wait_quiet(t):
                        ctx.inconclusive += 1
                        continue
                    local["pairs"] += 1
                    local["points"].add(name)
                    ctx.count("crash_" + name)
                    ctx.nontrivial((seed, name, n))
                    # finished but not recorded => must run again
                    ev = t.events(clear=True)
                    finished = {e["id"] for e in ev if e["e"] == "E" and e["x"].startswith("0")}
                    log1 = parse_build_log(t.read(".ninja_log") or b"")[1]
                    unrecorded = {o for o in finished if log1.get(o.encode()) == log0.get(o.encode())}
                    ok = recover(ctx, t, sc, what, rep)
                    if ok:
                        ev2 = t.events()
                        started2 = {e["id"] for e in ev2 if e["e"] == "S"}
                        miss = unrecorded - started2
                        if miss:
                            ctx.violation("C07/unrecorded-work-trusted/%s" % name,
                                          "%s: %s finished before the crash without a new build-log record, and recovery did not run them again" %
                                          (what, sorted(miss)), rep)
                        else:
                            ctx.count("recoveries_ok")
                            ctx.count("unrecorded_commands_redone", len(unrecorded))
                finally:
                    t.close()
        finally:
            util.rmtree(snap)
    finally:
        base.close()
    return local


# ----------------------------------------------------------------------------------------- signals
def signal_scenario(ctx, seed):
    rng = random.Random(seed * 7 + 1)
    n = rng.randint(2, 4)
    sc = {"id": "C07s-%d" % seed, "sources": {"h.h": "// h\n"}, "stmts": [], "pools": {}, "defaults": []}
    for i in range(n):
        sc["sources"]["c%d.c" % i] = "#include h.h\n// c%d\n" % i
        deps = rng.choice(("none", "gcc", "depfile"))
        st = St("s%d" % i, ["o/x%d.o" % i], ins=["c%d.c" % i], deps=deps, depfile="o/x%d.o.d" % i if deps != "none" else "")
        st["early"] = rng.random() < 0.6
        st["vtool_args"] = ["--sleep-after", str(rng.choice((150, 300, 600))), "--announce", "run%d.flag" % i]
        if st["early"] and rng.random() < 0.35:
            # a tool that gives its outputs the time of what it read (cp -p, install -p, touch -r): what it has written is older
            # than the moment it was started - "modified" cannot be told by comparing with the start time
            st["vtool_args"] += ["--keep-times"]
            st["keep_times"] = True
        if rng.random() < 0.5:
            # the work is done by a child of the shell ninja spawned (a wrapper script, a compiler driver), not by a process
            # the shell exec()ed in its own place: stopping the command means stopping its whole process group
            st["shell_suffix"] = " && true"
        elif rng.random() < 0.3:
            # a tool that ignores the terminal's signals and finishes what it is doing (started with 'exec': it takes the place of the
            # shell ninja spawned and is the process ninja waits for): ninja cannot stop it, but it must not exit - and clean up - while it still runs
            st["vtool_args"] = ["--ignore-signals", "--sleep-after", str(rng.choice((900, 1400))), "--announce", "run%d.flag" % i]
            st["stubborn"] = True
            st["shell_prefix"] = "exec "
        sc["stmts"].append(st)
    sc["stmts"].append(St("link", ["prog"], ins=[s["outs"][0] for s in sc["stmts"]]))
    sig = rng.choice((signal.SIGINT, signal.SIGTERM, signal.SIGHUP, signal.SIGKILL, signal.SIGINT))
    if sig in (signal.SIGTERM, signal.SIGHUP) and rng.random() < 0.5:
        # the work is done by a background job of the command's shell ('tool & wait', 'a & b & wait'): a non-interactive shell
        # starts its background jobs with SIGINT ignored, so these are stopped by the SIGTERM / SIGHUP ninja got and passes on to
        # the command's process group - not by a SIGINT.  (Not used when ninja itself gets SIGINT: then nothing stops such a job.)
        for s_ in sc["stmts"]:
            if s_["id"] != "link" and not s_.get("stubborn") and rng.random() < 0.6:
                s_["shell_suffix"] = " & wait"
                s_.pop("shell_prefix", None)
                s_["background_job"] = True
    # Ctrl-C in a terminal: the signal goes to the whole foreground process group - ninja and the console-pool command, which
    # shares ninja's group, get it at the same instant, and ninja learns of the interrupt and of that command's death in one
    # wake-up (made certain here by stopping ninja while the signal is delivered)
    group = sig != signal.SIGKILL and rng.random() < 0.3
    cons = None
    if group:
        cons = rng.choice([s for s in sc["stmts"] if s["id"] != "link"])
        cons["pool"] = "console"
        cons["early"] = True
        cons.pop("shell_suffix", None)
        cons.pop("shell_prefix", None)
        cons.pop("stubborn", None)
        cons["vtool_args"] = ["--sleep-after", "1500", "--announce", "run%s.flag" % cons["id"][1:]]
    # the signal arrives while ninja is NOT waiting for its commands: the first command to finish has printed more than the pipe
    # behind ninja's stdout takes, nobody reads that pipe for the moment, so ninja sits in write() when the signal is sent
    # (a terminal that is slow or stopped with Ctrl-S, a pager, a CI log collector that is behind)
    busy = None
    quick_sibling = None
    if sig != signal.SIGKILL and not group and rng.random() < 0.4:
        cand = [s_ for s_ in sc["stmts"] if s_["id"] != "link" and not s_.get("stubborn")]
        if cand:
            busy = rng.choice(cand)
            busy["vtool_args"] = ["--sleep-after", "0", "--announce", "run%s.flag" % busy["id"][1:], "--say-big", "BUSY%d:%d" % (seed % 1000, rng.choice((6000, 14000)))]
            for s_ in sc["stmts"]:
                if s_ is not busy and s_["id"] != "link" and not s_.get("stubborn"):
                    s_["vtool_args"] = [("1500" if a_ in ("150", "300", "600") else a_) for a_ in s_["vtool_args"]]
            # ... and sometimes another command ends while ninja is stuck there: when ninja gets back to waiting, the signal is
            # pending AND a pipe is readable - the wait returns the pipe, the signal is only seen by asking for pending signals
            sib = [s_ for s_ in sc["stmts"] if s_ is not busy and s_["id"] != "link" and not s_.get("stubborn")]
            quick_sibling = rng.choice(sib) if sib and rng.random() < 0.6 else None
            if quick_sibling is not None:
                quick_sibling["vtool_args"] = [("60" if a_ == "1500" else a_) for a_ in quick_sibling["vtool_args"]]
    t = e2e.Tree(sc)
    if any("--keep-times" in s_.get("vtool_args", []) for s_ in sc["stmts"]):
        ctx.count("signal_runs_with_time_preserving_tools")
    rep = {"seed": seed, "signal": int(sig), "manifest": open(t.path("build.ninja")).read(), "busy": busy["id"] if busy else None}
    what = "signal scenario %d (%s)" % (seed, sig.name)
    try:
        if rng.random() < 0.5:
            rc, so, se = t.run(["-j4"])
            # make everything dirty again through the header known only from depfiles/deps
            t.write("h.h", "// h\n// edited\n")
            for i in range(n):
                t.rm("run%d.flag" % i)
                if rng.random() < 0.35:
                    t.rm("o/x%d.o" % i)         # an output that is missing when the interrupted build starts
                    ctx.count("signal_runs_output_deleted_before")
            t.events(clear=True)
        pre = t.snapshot()
        p = t.popen(["-j%d" % rng.choice((1, 2, 4))])
        # wait until at least one command provably runs
        victim = rng.randrange(n) if cons is None else int(cons["id"][1:])
        if busy is not None:
            victim = int(busy["id"][1:])
        t0 = time.time()
        while time.time() - t0 < 30 and not os.path.exists(t.path("run%d.flag" % victim)) and p.poll() is None:
            time.sleep(0.002)
        time.sleep(rng.random() * 0.1)
        in_write = False
        if busy is not None:
            # wait until ninja provably sits in write(2) on its stdout (it has reaped the talkative command and prints its output)
            t1 = time.time()
            while time.time() - t1 < 20 and p.poll() is None:
                try:
                    f_ = open("/proc/%d/syscall" % p.pid).read().split()
                    if f_ and f_[0] == "1" and f_[1] in ("0x1", "0x2"):
                        in_write = True
                        break
                except (OSError, IndexError):
                    pass
                time.sleep(0.005)
            ctx.count("signal_runs_ninja_blocked_in_write" if in_write else "signal_runs_ninja_never_blocked_in_write")
            if in_write and quick_sibling is not None:
                qo = quick_sibling["outs"][0]
                t1 = time.time()
                while time.time() - t1 < 3 and p.poll() is None:
                    evq = t.events()
                    if not any(e["e"] == "S" and e["id"] == qo for e in evq):
                        break                       # not started (-j1): nothing to wait for
                    if any(e["e"] == "E" and e["id"] == qo for e in evq):
                        ctx.count("signal_runs_a_command_ended_while_ninja_was_printing")
                        time.sleep(0.03)
                        break
                    time.sleep(0.01)
        t_sig = None
        try:
            if group and p.poll() is None:
                ctx.count("signal_runs_to_whole_group")
                os.kill(p.pid, signal.SIGSTOP)
                os.killpg(p.pid, sig)
                cpid = next((e["pid"] for e in t.events() if e["e"] == "S" and e["id"] == cons["outs"][0]), None)
                t1 = time.time()
                while cpid is not None and pid_alive(cpid) and time.time() - t1 < 10:
                    time.sleep(0.005)
                time.sleep(0.05)
                os.kill(p.pid, signal.SIGCONT)
            else:
                os.kill(p.pid, sig)
                t_sig = time.monotonic()
        except OSError:
            pass
        if busy is not None:
            time.sleep(0.02 + rng.random() * 0.1)       # the signal is there; only now does somebody read ninja's output again
        try:
            so, se = p.communicate(timeout=60)
        except subprocess.TimeoutExpired:
            os.killpg(p.pid, signal.SIGKILL)
            ctx.violation("C07/ninja-hangs-after-signal", what, rep)
            return
        rc = p.returncode
        ctx.evaluations += 1
        ev = t.events()
        started = {e["id"]: e["pid"] for e in ev if e["e"] == "S"}
        ended = {e["id"] for e in ev if e["e"] == "E"}
        killed = [o for o in started if o not in ended]
        if sig == signal.SIGKILL:
            ctx.count("sigkill_runs")
            wait_quiet(t)
            # children of a SIGKILLed ninja keep running in place (non-atomic): kill the stragglers, recovery only
            for o, pid in started.items():
                if pid_alive(pid):
                    try:
                        os.kill(pid, signal.SIGKILL)
                    except OSError:
                        pass
            # ... including commands the dead ninja had spawned that have not logged anything yet
            e2e.session_kill(p.pid)
            e2e.session_quiet(p.pid, 30.0)
            ctx.nontrivial((seed, "kill"))
            recover(ctx, t, sc, what, rep)
            return
        txt = (so + se).decode("latin-1")
        s2 = util.san_signature(txt)
        if s2:
            ctx.violation("C07/sanitizer-on-interrupt/" + s2, "%s: %s" % (what, txt[-1500:]), rep)
            return
        # Did the signal come too late to matter?  Decided on the commands' own clock stamps, not on the outcome: when the last
        # command (link) had not even begun at the moment kill() returned, ninja still had to wait for at least one command
        # after the signal was there - it cannot have finished the build without noticing the interrupt.
        link_started = min([e["t"] for e in ev if e["e"] == "S" and e["id"] == "prog"] or [None], key=lambda x: (x is None, x))
        if sig != signal.SIGKILL and t_sig is not None and rc == 0 and (link_started is None or link_started > t_sig):
            ctx.nontrivial((seed, int(sig), "ignored"))
            ctx.violation("C07/interrupt-ignored/%s%s" % (sig.name, "/ninja-busy-printing" if in_write else ""),
                          "%s: the signal was sent %.3f s before the last command even started, ninja carried on and exited 0 (%s)"
                          % (what, (link_started - t_sig) if link_started else -1, txt[-200:]), rep)
            return
        if rc == 0 and not killed:
            ctx.count("signal_lost_race_build_completed")
        else:
            if in_write:
                ctx.count("interrupted_runs_while_ninja_was_printing")
            ctx.nontrivial((seed, int(sig), tuple(sorted(killed))))
            ctx.count("interrupted_runs_" + sig.name)
            if rc != 130:
                ctx.violation("C07/interrupt-exit-status/%s" % sig.name, "%s: ninja exited %s instead of 130 (%s)" % (what, rc, txt[-300:]), rep)
                return
            if os.path.exists(t.path(".ninja_lock")):
                ctx.violation("C07/lock-file-left", what, rep)
                return
            time.sleep(0.02)
            alive = [o for o, pid in started.items() if o in killed and pid_alive(pid)]
            if alive:
                time.sleep(0.3)
                alive = [o for o, pid in started.items() if o in killed and pid_alive(pid)]
            if alive:
                ctx.violation("C07/commands-left-running", "%s: %s still alive after ninja exited" % (what, alive), rep)
                for o in alive:
                    try:
                        os.kill(started[o], signal.SIGKILL)
                    except OSError:
                        pass
                return
            for o in killed:
                st = next(s for s in sc["stmts"] if s["outs"][0] == o)
                modified = any(e["e"] == "P" and e["id"] == o for e in ev)
                exists = os.path.exists(t.path(o))
                ctx.count("killed_commands_checked")
                if st["depfile"] and exists:
                    ctx.violation("C07/output-of-interrupted-depfile-command-kept", "%s: %s (rule with depfile) still exists" % (what, o), rep)
                    return
                if st["depfile"] and os.path.exists(t.path(st["depfile"])):
                    ctx.violation("C07/depfile-of-interrupted-command-kept", "%s: %s still exists" % (what, st["depfile"]), rep)
                    return
                if modified and exists:
                    ctx.violation("C07/modified-output-of-interrupted-command-kept", "%s: %s was modified by the killed command and still exists" % (what, o), rep)
                    return
        if recover(ctx, t, sc, what, rep):
            ctx.count("signal_recoveries_ok")
            if len(ctx.samples) < 3 and killed:
                ctx.sample({"scenario": what, "killed_commands": killed, "exit": rc})
    finally:
        t.close()


# ----------------------------------------------------------------------------------------- nsim interrupts
def nsim_interrupts(ctx, rng, n):
    jobs = []
    for k in range(n):
        g = gen.Gen(random.Random(rng.randint(0, 2 ** 60)), size=rng.randint(2, 6),
                    feat=dict(deps=0.6, multi=0.4, restat=0.2, chain=0.5, phony=0.1))
        sc = g.scenario("C07n-%d-%d" % (ctx.seed, k))
        for s in sc["stmts"]:
            if s["kind"] == "cmd" and rng.random() < 0.5:
                s["early"] = True
        steps, scs = [], []
        if rng.random() < 0.5:
            b = g.build_step(sc); b["targets"] = []
            steps.append(b); scs.append(sc)
            for _ in range(rng.randint(1, 2)):
                st, desc = g.change(sc, set(), kinds=["edit", "edit_hdr", "touch"])
                for s_ in st:
                    steps.append(s_); scs.append(copy.deepcopy(sc))
        for w in range(0, 5):
            pass
        widx = rng.randint(0, 4)
        b = {"op": "build", "targets": [], "j": rng.choice((1, 2, 3, 8)), "k": 1, "sched": {"mode": "prng", "seed": rng.randint(1, 99999)},
             "interrupt_at": widx, "interrupt_via": rng.choice(("", "", "status"))}
        steps.append(b); scs.append(copy.deepcopy(sc))
        rb = {"op": "build", "targets": [], "j": 3, "k": 1, "sched": {"mode": "prng", "seed": 7}}
        steps.append(rb); scs.append(copy.deepcopy(sc))
        steps.append(dict(rb)); scs.append(copy.deepcopy(sc))
        jobs.append((simlib.scenario_json(sc, steps), scs))
    res = {}

    def handler(scn, results, err):
        res[scn["id"]] = results
    simlib.run_scenarios([j[0] for j in jobs], handler)
    for scn, scs in jobs:
        r = res.get(scn["id"])
        if not r or any(x.get("skipped") for x in r):
            ctx.inconclusive += 1
            continue
        ib, rb, cb = r[-3]["trace"], r[-2]["trace"], r[-1]["trace"]
        sc = scs[-1]
        rep = {"scenario": scn}
        if any(t.get("crash") for t in (ib, rb, cb)):
            t = next(t for t in (ib, rb, cb) if t.get("crash"))
            ctx.violation("C07/nsim-crash/" + (util.san_signature(t.get("stderr", "")) or "crash"), "%s: %s" % (scn["id"], t.get("stderr", "")[-1200:]), rep)
            continue
        ctx.evaluations += 1
        interrupted = any(e["e"] == "WAIT" and e.get("interrupt") for e in ib["events"])
        if not interrupted:
            ctx.count("nsim_interrupt_index_not_reached")
            continue
        ctx.nontrivial(scn["id"])
        if ib["result"].get("exit") != 130 and ib["result"].get("exit") != 2:
            pass
        if ib["result"].get("exit") != 130:
            ctx.violation("C07/nsim-interrupt-exit-status", "%s: Builder::Build returned %s (%s)" % (scn["id"], ib["result"].get("exit"), ib["result"].get("err")), rep)
            continue
        w = ib["world"]["files"]
        if ".ninja_lock" in w:
            ctx.violation("C07/nsim-lock-file-left", scn["id"], rep)
            continue
        killed = [x for e in ib["events"] if e["e"] == "ABORT" for x in e.get("killed", [])]
        via_status = scn["steps"][-3].get("interrupt_via") == "status"
        bad = False
        for o in killed:
            st = next(s for s in sc["stmts"] if s["outs"][0] == o)
            if st["early"] or st["depfile"]:
                for out in all_outs(st):
                    if out in w and (st["depfile"] or st["early"]):
                        ctx.violation("C07/nsim-output-of-interrupted-command-kept/%s" % ("depfile" if st["depfile"] else "modified"),
                                      "%s: %s survived the interrupt" % (scn["id"], out), rep)
                        bad = True
                        break
            if bad:
                break
            if st["depfile"] and st["depfile"] in w:
                ctx.violation("C07/nsim-depfile-of-interrupted-command-kept", "%s: %s" % (scn["id"], st["depfile"]), rep)
                bad = True
                break
        if bad:
            continue
        if rb["result"].get("exit") != 0:
            ctx.violation("C07/nsim-recovery-failed", "%s: %s" % (scn["id"], rb["result"]), rep)
            continue
        srcs = {p: v[1] for p, v in rb["world"]["files"].items() if p in sc["sources"]}
        graph = model.Graph(sc, srcs)
        clean, _ = graph.clean()
        w2 = rb["world"]["files"]
        diff = [(o, w2.get(o, [0, None])[1], clean.get(o)) for sid in graph.closure(sc["defaults"] or gen.Gen.roots(sc))
                for o in graph.outs(graph.by_id[sid]) if graph.by_id[sid]["kind"] != "phony" and w2.get(o, [0, None])[1] != clean.get(o)]
        if diff:
            ctx.violation("C07/nsim-recovered-tree-differs", "%s: %s" % (scn["id"], diff[0]), rep)
            continue
        if not cb["result"].get("uptodate"):
            ctx.violation("C07/nsim-recovery-not-converged", "%s: %s" % (scn["id"], [e["o"] for e in cb["events"] if e["e"] == "S"]), rep)
            continue
        ctx.count("nsim_interrupt_recoveries_ok")


def run(ctx):
    quick = ctx.tier == "quick"
    rng = random.Random(ctx.seed * 9973 + 7)
    nsim_interrupts(ctx, rng, 1500 if quick else 15000)
    seeds = [rng.randint(1, 10 ** 9) for _ in range(32 if quick else 150)]
    res = e2e.parallel(lambda s: safe(ctx, crash_scenario, ctx, s, quick), seeds)
    pts = set()
    for r in res:
        if r:
            pts |= r["points"]
    ctx.counters["distinct_crash_points_hit"] = len(pts)
    ctx.counters["crash_points_hit"] = sorted(pts)
    sseeds = [rng.randint(1, 10 ** 9) for _ in range(100 if quick else 1200)]
    e2e.parallel(lambda s: safe(ctx, signal_scenario, ctx, s), sseeds)
    ctx.rule = ("crash family: %d generated scenarios x every (crash point, hit index) reached by the victim build (cap %d per scenario); "
                "signal family: %d runs with SIGINT/SIGTERM/SIGHUP/SIGKILL sent once a chosen command provably runs; nsim: interrupt at "
                "wait index 0..4 of %d scenarios; distinct_nontrivial = distinct (scenario, crash point, hit) pairs that crashed + "
                "distinct interrupted runs" % (len(seeds), 45 if quick else 150, len(sseeds), 1500 if quick else 15000))


def safe(ctx, fn, *a):
    try:
        return fn(*a)
    except model.Invalid:
        ctx.inconclusive += 1
    except Exception:
        import traceback
        traceback.print_exc()
        ctx.inconclusive += 1
        ctx.count("harness_exceptions")
    return None


def replay(ctx, path):
    j = json.load(open(path))["replay"]
    if "point" in j:
        print("crash-point replay: seed %s point %s#%s" % (j["seed"], j["point"], j["hit"]))
        crash_scenario(ctx, j["seed"], ctx.tier == "quick")
    elif "signal" in j:
        signal_scenario(ctx, j["seed"])
    else:
        run(ctx)
    ctx.distinct_extra += 2
