"""C01 via the shared incremental-history engine (vlib/incr.py)."""
from .. import incr, simlib

MANIFEST = dict(engine="nsim", category="exploration", technique="runtime monitoring: nsim traces of generated histories; oracle = from-scratch evaluation of the same scenario (reference model + ninja's own clean build)",
                text='Generated graphs (explicit/implicit/order-only inputs, multiple and implicit outputs, phony aliases, restat, generator, depfile / deps=gcc / deps=msvc with source and generated headers, validations, pools, rspfiles, sub-directories) are put through generated histories (source/header edits, touches, output/depfile/log deletions, command, rspfile and manifest changes (including a manifest that ninja regenerates and reloads itself), failing, interrupted and partial builds, edits while a command runs) in nsim with PRNG completion orders and -j/-k values. After EVERY build that exits 0 without a concurrent edit, every output in the closure of the requested targets (through declared, dyndep and recorded discovered inputs and validations) is compared with the content a from-scratch evaluation of the current sources and manifest gives.',
                note="Trusted: the command function shared by harness/nsim.cc and vlib/simlib.py, the reference evaluator Graph.clean() (cross-checked against ninja's own from-scratch build in C04/C10), logical clock (all mtimes distinct). Generator rules: command line and rspfile content are not part of their output (documented exemption). Known finding: output re-created by a failed command.", ref="DESIGN.md §5 C01")


def setup():
    simlib.nsim_bin()


def run(ctx):
    quick = ctx.tier == "quick"
    n = 3000 if quick else 30000
    incr.run_incremental(ctx, "C01", n, size_range=(3, 9) if quick else (3, 14))
    # restat / order-only focused family
    incr.run_incremental(ctx, "C01", n // 3, salt=1, size_range=(3, 7),
                         feat=dict(restat=0.55, order_only=0.7, deps=0.6, generator=0.1, phony=0.35),
                         change_kinds=["touch", "touch", "edit", "edit_hdr", "rm_out", "cmd", "rm_depfile"])
    # alias-heavy family: restat outputs and edited headers grouped behind phony aliases, several changes per round
    # (restat pruning has to look through an alias at something that changed in the same increment)
    incr.run_incremental(ctx, "C01", n // 3, salt=2, size_range=(3, 6),
                         feat=dict(restat=0.7, phony=0.5, deps=0.3, generator=0.0, chain=1.0, dyndep=0.0, vals=0.05),
                         change_kinds=["touch", "touch", "edit", "edit_hdr", "edit_hdr"], nchg_choices=(2, 2, 3, 4),
                         allow_faults=False, allow_interrupt=False, allow_edit_running=False)
    # dyndep-heavy family: every graph has a dyndep file that is regenerated whenever its sources are touched, restat flags that
    # come from it, aliases behind the served statements, several changes per round
    incr.run_incremental(ctx, "C01", n // 6, salt=3, size_range=(2, 5),
                         feat=dict(dyndep=1.0, restat=0.3, phony=0.2, deps=0.3, generator=0.0, chain=0.8),
                         change_kinds=["touch", "touch", "touch", "edit", "edit_hdr"], nchg_choices=(1, 2, 2, 3),
                         allow_faults=False, allow_interrupt=False, allow_edit_running=False)
    incr.run_dd_restat(ctx, "C01", n // 10)
    incr.run_dd_deps(ctx, "C01", n // 8)
    incr.run_dd_behind_clean(ctx, "C01", n // 12)
    incr.run_rsp_kept(ctx, "C01", n // 10)
    incr.run_late_deps(ctx, "C01", n // 6)
    # self-regenerating manifests: build.ninja is a generator output selected by a config file
    incr.run_regen(ctx, "C01", n // 10, size_range=(2, 6))
    ctx.rule = ("seeded random graphs of 3..%d statements x histories of 2..5 change+build rounds (plus immediate re-runs), plus histories in which ninja regenerates and reloads its own manifest; "
                "distinct_nontrivial = distinct (scenario, build step) pairs judged by this property's monitor that follow at "
                "least one change" % (9 if quick else 14))
    ctx.assumptions = ["commands are deterministic functions of what they read at START and write only declared outputs",
                       "every undeclared read is reported through depfile/deps", "mtimes never go backwards (logical clock)"]


def replay(ctx, path):
    incr.replay(ctx, "C01", path)
