"""C10 - discovered dependencies count exactly like declared implicit inputs.
Metamorphic twins in nsim: the same scenario once with dependencies reported through depfile / deps=gcc / deps=msvc and
once with the very same names written as '| implicit' inputs; same first build, same change sets, same targets."""
import copy, json, random
from .. import simlib, gen, model, util, core
from ..simlib import all_outs, directives, hhex, manifest_step

MANIFEST = dict(
    engine="nsim", category="exploration",
    technique="runtime monitoring, metamorphic: twin scenarios (discovered vs declared dependencies) through nsim; oracle = equality of the "
              "sets of started statements, of ordering and of final contents between the twins, and equality with the clean build",
    text="Every generated scenario exists in a 'discovered' variant (depfile, deps=gcc, deps=msvc report the includes) and a 'declared' "
         "variant (the same transitive include set written as implicit inputs, no deps mechanism). Both get the same first build(s), the "
         "same change sets (any combination of edits/touches of sources, source headers and sources of generated headers, output "
         "deletions, command changes), the same targets and -j/-k, with and without a manifest path from the consumer to the generator "
         "of a discovered header. Model-free oracle: per build step the same statements START, a generated header's producer FINISHes "
         "before its consumer STARTs in both, the final contents are equal and equal to the clean build. Only allowed difference: a "
         "discovered dependency that disappeared -> rebuild, declared -> 'missing and no known rule'.",
    note="Trusted: nothing but the twin construction (same command function in both variants). Deletion of the deps log / depfile is a "
         "C03/C09 matter and not part of these histories. Known finding: consumer's output deleted AND generated header dirty with no "
         "manifest path.",
    ref="DESIGN.md §5 C10")


def setup():
    simlib.nsim_bin()


def includes_closure(sc, st):
    """transitive include set of the statement's direct reads (over source contents; generated files have none)"""
    out, seen = [], set()

    def rd(p):
        if p in seen:
            return
        seen.add(p)
        for inc in directives(sc["sources"].get(p, ""), "#include"):
            if inc not in out:
                out.append(inc)
            rd(inc)
    for p in simlib.direct_reads(sc, st):
        rd(p)
    return out


def declared_twin(sc):
    m = copy.deepcopy(sc)
    m["id"] = sc["id"] + "M"
    for st in m["stmts"]:
        if st["kind"] == "cmd" and st["deps"] != "none":
            inc = includes_closure(sc, st)
            st["iins"] = st["iins"] + [i for i in inc if i not in st["iins"] and i not in st["ins"]]
            st["oins"] = [o for o in st["oins"] if o not in st["iins"]]
            st["deps"], st["depfile"], st["force_follow"] = "none", "", True
    return m


def run(ctx):
    quick = ctx.tier == "quick"
    rng = random.Random(ctx.seed * 104729 + 10)
    n = 1200 if quick else 12000
    pairs, metas = [], {}
    for k in range(n):
        g = gen.Gen(random.Random(rng.randint(0, 2 ** 60)), size=rng.randint(3, 8),
                    feat=dict(deps=0.85, no_manifest_path=0.35, restat=0.25, phony=0.15, generator=0.0, rsp=0.05, vals=0.1,
                              chain=0.7, dyndep=0.0))
        D = g.scenario("C10-%d-%d" % (ctx.seed, k))
        if not any(s["deps"] != "none" for s in D["stmts"]):
            continue
        M = declared_twin(D)
        # first builds: producers first (a dependency must have been reported before it counts), then everything
        order = [s["outs"][0] for s in D["stmts"]]
        stepsD, stepsM, meta = [], [], []
        for o in order:
            b = {"op": "build", "targets": [o], "j": 1, "k": 1, "sched": {"mode": "prng", "seed": 1}}
            stepsD.append(b); stepsM.append(b); meta.append({"kind": "setup"})
        b = {"op": "build", "targets": [], "j": 2, "k": 1, "sched": {"mode": "prng", "seed": 2}}
        stepsD.append(b); stepsM.append(b); meta.append({"kind": "setup-all"})
        curD, curM = copy.deepcopy(D), copy.deepcopy(M)
        for rnd in range(rng.randint(1, 4)):
            chg = []
            for _ in range(rng.choice((1, 1, 2, 3))):
                x = rng.random()
                srcs = sorted(curD["sources"])
                cmds = [s for s in curD["stmts"] if s["kind"] == "cmd"]
                if x < 0.55:
                    p = rng.choice(srcs)
                    c = curD["sources"][p] + "// e%d\n" % rng.randint(0, 10 ** 6)
                    curD["sources"][p] = c; curM["sources"][p] = c
                    st = {"op": "write", "path": p, "content": c}
                    stepsD.append(st); stepsM.append(st); meta.append({"kind": "change"}); chg.append(("edit", p))
                elif x < 0.7:
                    p = rng.choice(srcs)
                    st = {"op": "touch", "path": p}
                    stepsD.append(st); stepsM.append(st); meta.append({"kind": "change"}); chg.append(("touch", p))
                elif x < 0.85:
                    s = rng.choice(cmds)
                    o = rng.choice(all_outs(s))
                    st = {"op": "rm", "path": o}
                    stepsD.append(st); stepsM.append(st); meta.append({"kind": "change"}); chg.append(("rm_out", o))
                else:
                    s = rng.choice(cmds)
                    for cur in (curD, curM):
                        for t in cur["stmts"]:
                            if t["id"] == s["id"]:
                                t["ver"] += 1
                    stepsD.append(manifest_step(curD)); stepsM.append(manifest_step(curM)); meta.append({"kind": "change"})
                    chg.append(("cmd", s["id"]))
            b = {"op": "build", "targets": g.pick_targets(curD), "j": rng.choice((1, 2, 3, 8)), "k": rng.choice((1, 2, 0)),
                 "sched": {"mode": "prng", "seed": rng.randint(1, 10 ** 6)}}
            stepsD.append(b); stepsM.append(b)
            meta.append({"kind": "build", "changes": chg, "scD": copy.deepcopy(curD), "scM": copy.deepcopy(curM)})
        sD = simlib.scenario_json(D, stepsD)
        sM = simlib.scenario_json(M, stepsM)
        pairs.append((sD, sM))
        metas[sD["id"]] = meta
    results = {}

    def handler(scn, res, err):
        results[scn["id"]] = res
    simlib.run_scenarios([s for p in pairs for s in p], handler)
    for sD, sM in pairs:
        rD, rM = results.get(sD["id"]), results.get(sM["id"])
        if rD is None or rM is None:
            ctx.inconclusive += 1
            continue
        try:
            judge_pair(ctx, sD, sM, rD, rM, metas[sD["id"]])
        except model.Invalid:
            ctx.inconclusive += 1
            ctx.count("invalid_scenarios")
    disappeared_family(ctx, rng, 250 if quick else 2500)
    appearing_family(ctx, rng, 250 if quick else 2500)
    partial_writer_family(ctx, rng, 120 if quick else 1500)
    ctx.rule = ("twin scenarios of 3..8 statements (85%% with discovered deps, 35%% of generated headers without manifest path) x 1..4 "
                "rounds of change sets + build; distinct_nontrivial = distinct (scenario, build step) twin comparisons in which at least "
                "one statement with discovered dependencies was in the closure")
    ctx.assumptions = ["include sets are fixed during a history (the declared twin lists exactly the discovered names)"]


def disappeared_family(ctx, rng, n):
    """'A discovered dependency that has disappeared causes a rebuild instead of an error' - whatever else is out of date at
    the same time.  A consumer reads an optional header (`#maybe`: read and reported only while it exists, as with
    __has_include or a wildcard); after a complete build the header is deleted, alone or together with a touch of another
    input's producer (restat producers leave their output alone, which makes ninja re-evaluate the consumer mid-build).
    The build must succeed, re-run the consumer and leave the tree as a clean build would."""
    jobs = []
    for k in range(n):
        g = gen.Gen(random.Random(rng.randint(0, 2 ** 60)), size=rng.randint(2, 6),
                    feat=dict(deps=0.9, restat=0.5, phony=0.15, generator=0.0, rsp=0.05, vals=0.05, chain=0.9, dyndep=0.0, early=0.0))
        sc = g.scenario("C10-%d-gone-%d" % (ctx.seed, k))
        cons = [s for s in sc["stmts"] if s["kind"] == "cmd" and s["deps"] != "none"]
        if not cons:
            continue
        c = rng.choice(cons)
        opt = "opt_%s.h" % c["id"]
        sc["sources"][opt] = "// optional header\n"
        sc["sources"][c["ins"][0]] = "#maybe %s\n" % opt + sc["sources"][c["ins"][0]]
        # the same optional header read by further consumers; some consumers' own outputs are gone at the same time (what
        # the scan finds out about the vanished header while it looks at one of them must not be lost for the others)
        sharers = [c]
        for s_ in cons:
            if s_ is not c and s_["ins"][0] != c["ins"][0] and rng.random() < 0.5:
                sc["sources"][s_["ins"][0]] = "#maybe %s\n" % opt + sc["sources"][s_["ins"][0]]
                sharers.append(s_)
        sc["defaults"] = []
        steps = [{"op": "build", "targets": [], "j": 2, "k": 1, "sched": {"mode": "prng", "seed": 1}},
                 {"op": "build", "targets": [], "j": 2, "k": 1, "sched": {"mode": "prng", "seed": 2}},
                 {"op": "rm", "path": opt}]
        gone_outs = []
        if len(sharers) > 1 and rng.random() < 0.7:
            for s_ in rng.sample(sharers, rng.randint(1, len(sharers) - 1)):
                gone_outs.append(s_["outs"][0])
                steps.append({"op": "rm", "path": s_["outs"][0]})
        cur = copy.deepcopy(sc)
        del cur["sources"][opt]
        # something else at the same time: touch the source of a producer of one of the consumer's other inputs
        others = [s for s in sc["stmts"] if s["kind"] == "cmd" and s is not c and any(o in c["ins"] + c["iins"] + c["oins"] for o in all_outs(s))]
        touched = None
        if others and rng.random() < 0.7:
            p_ = rng.choice(others)
            touched = p_["ins"][0]
            steps.append({"op": "touch", "path": touched})
        tg = rng.choice(([], [c["outs"][0]]))
        if len(sharers) > 1 and rng.random() < 0.6:
            tg = [s_["outs"][0] for s_ in rng.sample(sharers, len(sharers))]       # named one by one, in any order
        steps.append({"op": "build", "targets": tg, "j": rng.choice((1, 2, 3)), "k": 1,
                      "sched": {"mode": "prng", "seed": rng.randint(1, 10 ** 6)}})
        steps.append(dict(steps[-1], sched={"mode": "prng", "seed": 7}))
        jobs.append((simlib.scenario_json(sc, steps), sc, cur, (c, sharers, gone_outs), opt, touched))
    res = {}

    def handler(scn, results, err):
        res[scn["id"]] = results
    simlib.run_scenarios([j[0] for j in jobs], handler)
    for scn, sc, cur, (c, sharers, gone_outs), opt, touched in jobs:
        r = res.get(scn["id"])
        if not r:
            ctx.inconclusive += 1
            continue
        builds = [x for x in r if x.get("op") == "build"]
        if len(builds) < 4 or any(b.get("trace", {}).get("crash") for b in builds):
            crash = next((b["trace"] for b in builds if b.get("trace", {}).get("crash")), None)
            if crash:
                ctx.violation("C10/nsim-crash/" + (util.san_signature(crash.get("stderr", "")) or "crash"), "%s: %s" % (scn["id"], crash.get("stderr", "")[-1200:]), {"scenario": scn})
            else:
                ctx.inconclusive += 1
            continue
        if builds[0]["trace"]["result"].get("exit") != 0 or builds[1]["trace"]["result"].get("exit") != 0:
            ctx.inconclusive += 1
            ctx.count("setup_failed")
            continue
        recorded = c["deps"] == "depfile" or True
        t3, t4 = builds[2]["trace"], builds[3]["trace"]
        ctx.evaluations += 1
        ctx.count("disappeared_dependency_scenarios")
        ctx.nontrivial(("gone", scn["id"]))
        rep = {"scenario": scn, "consumer": c["id"], "deleted": opt, "also_touched": touched}
        what = "scenario %s: %s (deps=%s%s)%s had recorded %s, which was then deleted%s%s" % (
            scn["id"], c["outs"][0], c["deps"], ", restat" if c["restat"] else "",
            " and %s" % [s_["outs"][0] for s_ in sharers[1:]] if len(sharers) > 1 else "", opt, " while %s was touched" % touched if touched else "",
            " and %s were deleted as well" % gone_outs if gone_outs else "")
        if len(sharers) > 1:
            ctx.count("disappeared_dependency_shared_by_several")
        if t3["result"].get("exit") != 0:
            ctx.violation("C10/disappeared-dependency/error", "%s: the build fails: %s" % (what, t3["result"].get("err")), rep)
            continue
        started = [e["o"] for e in t3["events"] if e["e"] == "S"]
        graph = model.Graph(cur, {p_: v[1] for p_, v in t3["world"]["files"].items() if p_ in cur["sources"]})
        clean, _ = graph.clean()
        tg3 = scn["steps"][-2]["targets"] or gen.Gen.roots(cur)
        inclosure = graph.closure(tg3)
        notrun = [s_["outs"][0] for s_ in sharers if s_["id"] in inclosure and s_["outs"][0] not in started]
        if notrun:
            ctx.violation("C10/disappeared-dependency/consumer-not-rerun%s%s" % ("/with-other-change" if touched else "", "/shared" if c["outs"][0] in started else ""),
                          "%s: the build ran %s and exits 0; not run again: %s" % (what, started, notrun), rep)
            continue
        bad = [o for s_ in cur["stmts"] if s_["kind"] == "cmd" and s_["id"] in inclosure for o in all_outs(s_)
               if t3["world"]["files"].get(o, [0, None])[1] != clean.get(o)]
        if bad:
            ctx.violation("C10/disappeared-dependency/tree-differs", "%s: %s differs from a clean build afterwards" % (what, bad[:3]), rep)
            continue
        if t4["result"].get("exit") != 0 or [e for e in t4["events"] if e["e"] == "S"]:
            ctx.violation("C10/disappeared-dependency/not-converged", "%s: the next build runs %s" % (what, [e["o"] for e in t4["events"] if e["e"] == "S"]), rep)
            continue
        ctx.count("disappeared_dependency_ok")


def partial_writer_family(ctx, rng, n):
    """A command with several outputs that rewrites the first one on every run and the others only when their content changes
    (a linker that keeps an unchanged .map, a generator with write-if-changed side files) - without `restat`.  A header that
    such a command reads changes in a way that does not reach the outputs: the first output is rewritten, the second keeps its
    time and is now older than the header.  Declared as an implicit input, that header makes the statement out of date again in
    the next run, and in every run after it; reported through the depfile / deps log it has to do exactly the same."""
    from ..simlib import St
    jobs = []
    for k in range(n):
        deps = rng.choice(("gcc", "depfile", "msvc", "gcc"))
        nsec = rng.randint(1, 2)
        srcs = {"c.c": "#include hol.h\n// consumer\n", "hol.h": simlib.HOLLOW, "other.c": "// other\n"}
        outs = ["o/c.o"] + ["o/c.map%d" % q for q in range(nsec)]
        iouts = []
        if rng.random() < 0.4:
            iouts, outs = [outs[-1]], outs[:-1]
        D = St("cons", outs, iouts=iouts, ins=["c.c"], deps=deps, depfile="o/c.o.d" if deps != "msvc" else "", keep2=True)
        M = St("cons", outs, iouts=iouts, ins=["c.c"], iins=["hol.h"], keep2=True)
        oth = St("oth", ["o/other.o"], ins=["other.c"])
        lnk = St("lnk", ["prog"], ins=["o/c.o", "o/other.o"])
        b = lambda sd, tg=(): {"op": "build", "targets": list(tg), "j": rng.choice((1, 2)), "k": 1, "sched": {"mode": "prng", "seed": sd}}
        tg = rng.choice(((), (), ("o/c.o",), ("prog",)))
        steps = [b(1), b(2), {"op": "touch", "path": "hol.h"}, b(3, tg), b(4, tg), b(5, tg)]
        pair = []
        for tag, st in (("disc", D), ("decl", M)):
            sc = {"id": "C10-%d-pw-%d-%s" % (ctx.seed, k, tag), "sources": dict(srcs), "stmts": [st, copy.deepcopy(oth), copy.deepcopy(lnk)], "pools": {}, "defaults": []}
            pair.append(simlib.scenario_json(sc, steps))
        jobs.append((pair, deps))
    res = {}

    def handler(scn, results, err):
        res[scn["id"]] = results
    simlib.run_scenarios([p_ for pair, _ in jobs for p_ in pair], handler)
    for (sd, sm), deps in jobs:
        rd, rm = res.get(sd["id"]), res.get(sm["id"])
        if not rd or not rm:
            ctx.inconclusive += 1
            continue
        bd = [x for x in rd if x.get("op") == "build"]
        bm = [x for x in rm if x.get("op") == "build"]
        if len(bd) < 5 or len(bm) < 5 or any(x["trace"].get("crash") for x in bd + bm):
            crash = next((x["trace"] for x in bd + bm if x.get("trace", {}).get("crash")), None)
            if crash:
                ctx.violation("C10/nsim-crash/" + (util.san_signature(crash.get("stderr", "")) or "crash"), "%s: %s" % (sd["id"], crash.get("stderr", "")[-1200:]), {"scenario": sd})
            else:
                ctx.inconclusive += 1
            continue
        ctx.evaluations += 1
        ctx.count("partial_writer_twins")
        ctx.nontrivial(("pw", sd["id"]))
        for i, (x, y) in enumerate(zip(bd, bm)):
            sx = sorted(e["o"] for e in x["trace"]["events"] if e["e"] == "S")
            sy = sorted(e["o"] for e in y["trace"]["events"] if e["e"] == "S")
            if sx != sy or x["trace"]["result"].get("exit") != y["trace"]["result"].get("exit"):
                ctx.violation("C10/partial-writer/twins-differ/deps=%s" % deps,
                              "scenario %s build %d: with the header reported through %s the build ran %s (exit %s), with the header declared as an implicit input %s (exit %s)" %
                              (sd["id"], i + 1, deps, sx, x["trace"]["result"].get("exit"), sy, y["trace"]["result"].get("exit")), {"scenario": sd, "twin": sm})
                break
            if i >= 3 and "o/c.o" in sy:
                ctx.count("partial_writer_runs_again_in_both")


def appearing_family(ctx, rng, n):
    """'Once a command has reported a dependency ... changing it re-runs the command' - also when the run that reported it left
    the command's output as it was.  A consumer reads an optional header that does not exist at first; the header appears with
    content that does not reach the output (simlib.HOLLOW) and the consumer runs again for another reason (its source is
    touched): a restat consumer keeps its output, a plain one rewrites the same bytes - either way the dependency list it reports
    has grown.  When the header then gets real content the consumer has to run again and the tree has to equal a clean build."""
    jobs = []
    for k in range(n):
        g = gen.Gen(random.Random(rng.randint(0, 2 ** 60)), size=rng.randint(2, 6),
                    feat=dict(deps=0.9, restat=0.6, phony=0.15, generator=0.0, rsp=0.05, vals=0.05, chain=0.9, dyndep=0.0, early=0.0))
        sc = g.scenario("C10-%d-new-%d" % (ctx.seed, k))
        cons = [s for s in sc["stmts"] if s["kind"] == "cmd" and s["deps"] != "none" and s["ins"] and s["ins"][0] in sc["sources"]]
        if not cons:
            continue
        c = rng.choice(cons)
        if rng.random() < 0.6:
            c["restat"] = True
        opt = "new_%s.h" % c["id"]
        src = c["ins"][0]
        sc["sources"][src] = "#maybe %s\n" % opt + sc["sources"][src]
        sc["defaults"] = []
        b = lambda sd: {"op": "build", "targets": [], "j": rng.choice((1, 2, 3)), "k": 1, "sched": {"mode": "prng", "seed": sd}}
        steps = [b(1), b(2), {"op": "write", "path": opt, "content": simlib.HOLLOW}, {"op": "touch", "path": src}, b(3), b(4),
                 {"op": "write", "path": opt, "content": "// now with content %d\n" % k}, b(5), b(6)]
        cur = copy.deepcopy(sc)
        cur["sources"][opt] = "// now with content %d\n" % k
        jobs.append((simlib.scenario_json(sc, steps), sc, cur, c, opt))
    res = {}

    def handler(scn, results, err):
        res[scn["id"]] = results
    simlib.run_scenarios([j[0] for j in jobs], handler)
    for scn, sc, cur, c, opt in jobs:
        r = res.get(scn["id"])
        if not r:
            ctx.inconclusive += 1
            continue
        builds = [x for x in r if x.get("op") == "build"]
        crash = next((b_["trace"] for b_ in builds if b_.get("trace", {}).get("crash")), None)
        if crash:
            ctx.violation("C10/nsim-crash/" + (util.san_signature(crash.get("stderr", "")) or "crash"), "%s: %s" % (scn["id"], crash.get("stderr", "")[-1200:]), {"scenario": scn})
            continue
        if len(builds) < 6 or any(b_["trace"]["result"].get("exit") != 0 for b_ in builds[:2]):
            ctx.inconclusive += 1
            ctx.count("setup_failed")
            continue
        t3, t4, t5, t6 = (b_["trace"] for b_ in builds[2:6])
        ctx.evaluations += 1
        ctx.count("appearing_dependency_scenarios")
        ctx.count("appearing_dependency_consumer_%s" % ("restat" if c["restat"] else "plain"))
        ctx.nontrivial(("new", scn["id"]))
        rep = {"scenario": scn, "consumer": c["id"], "appeared": opt}
        what = "scenario %s: %s (deps=%s%s) reads %s once it exists" % (scn["id"], c["outs"][0], c["deps"], ", restat" if c["restat"] else "", opt)
        st3 = [e["o"] for e in t3["events"] if e["e"] == "S"]
        if t3["result"].get("exit") != 0 or c["outs"][0] not in st3:
            ctx.violation("C10/appearing-dependency/consumer-not-rerun-after-touch", "%s: after its source was touched the build ran %s (exit %s)" %
                          (what, st3, t3["result"].get("exit")), rep)
            continue
        if c["restat"] and c["outs"][0] in [o for e in t3["events"] if e["e"] == "F" for o in e.get("wrote", [])]:
            ctx.count("appearing_dependency_output_rewritten_all_the_same")      # (an `early` writer: not the case this family is after)
        if t4["result"].get("exit") != 0 or [e for e in t4["events"] if e["e"] == "S"]:
            ctx.violation("C10/appearing-dependency/not-converged", "%s: the build after the header appeared is followed by one that runs %s" %
                          (what, [e["o"] for e in t4["events"] if e["e"] == "S"]), rep)
            continue
        st5 = [e["o"] for e in t5["events"] if e["e"] == "S"]
        if t5["result"].get("exit") != 0:
            ctx.violation("C10/appearing-dependency/error", "%s: the build after the header got content fails: %s" % (what, t5["result"].get("err")), rep)
            continue
        if c["outs"][0] not in st5:
            ctx.violation("C10/appearing-dependency/consumer-not-rerun/%s%s" % (c["deps"], "/restat" if c["restat"] else ""),
                          "%s, which it reported in a run that left its output unchanged; the header then got real content and the build ran %s, exit 0" % (what, st5), rep)
            continue
        graph = model.Graph(cur, {p_: v[1] for p_, v in t5["world"]["files"].items() if p_ in cur["sources"]})
        clean, _ = graph.clean()
        bad = [o for s_ in cur["stmts"] if s_["kind"] == "cmd" for o in all_outs(s_) if t5["world"]["files"].get(o, [0, None])[1] != clean.get(o)]
        if bad:
            ctx.violation("C10/appearing-dependency/tree-differs", "%s: %s differs from a clean build afterwards" % (what, bad[:3]), rep)
            continue
        if t6["result"].get("exit") != 0 or [e for e in t6["events"] if e["e"] == "S"]:
            ctx.violation("C10/appearing-dependency/not-converged", "%s: the last build is followed by one that runs %s" %
                          (what, [e["o"] for e in t6["events"] if e["e"] == "S"]), rep)
            continue
        ctx.count("appearing_dependency_ok")


def judge_pair(ctx, sD, sM, rD, rM, meta):
    for i, (a, b) in enumerate(zip(rD, rM)):
        m = meta[i]
        if a.get("skipped") or b.get("skipped"):
            return
        if a["op"] != "build":
            continue
        ta, tb = a["trace"], b["trace"]
        for t, which in ((ta, "discovered"), (tb, "declared")):
            if t.get("crash"):
                sig = util.san_signature(t.get("stderr", "")) or "crash"
                ctx.violation("C10/nsim-crash/" + sig, "scenario %s (%s variant) step %d: %s" % (sD["id"], which, i, t.get("stderr", "")[-1500:]),
                              {"scenarioD": sD, "scenarioM": sM})
                return
        ctx.evaluations += 1
        ra, rb = ta["result"], tb["result"]
        sa = [e["o"] for e in ta["events"] if e["e"] == "S"]
        sb = [e["o"] for e in tb["events"] if e["e"] == "S"]
        if m["kind"] != "build":
            if ra.get("exit") != 0 or rb.get("exit") != 0:
                ctx.inconclusive += 1     # setup build failed (e.g. include of a not yet generated header): not judged
                ctx.count("setup_failed")
                return
            continue
        scD = m["scD"]
        wa, wb = ta["world"]["files"], tb["world"]["files"]
        rep = {"scenarioD": sD, "scenarioM": sM, "step": i}
        diskD = disk_image(rD, i)

        def residue(st):
            """the recorded-but-unloaded case: a consumer whose own output is missing, reading a generated header to
            whose producer the manifest gives it no path"""
            return (st["deps"] != "none" and any(o not in diskD for o in all_outs(st)) and bool(st.get("nmp")))
        # allowed difference: a discovered dependency that has disappeared
        if rb.get("exit") != 0 and "missing and no known rule" in (rb.get("err") or "") and ra.get("exit") == 0:
            ctx.count("allowed_missing_dep_difference")
            return
        if ra.get("exit") != rb.get("exit"):
            failedD = [e["o"] for e in ta["events"] if e["e"] == "F" and e["status"] != 0 and e.get("missing_input")]
            fst = [s for s in scD["stmts"] if s["outs"][0] in failedD]
            sig = "C10/exit-differs"
            if fst and all(residue(s) for s in fst):
                sig = "C10/exit-differs/consumer-output-missing/no-manifest-path"
            ctx.violation(sig, "scenario %s step %d changes=%s: discovered variant exit %s (%s), declared variant exit %s (%s)" %
                          (sD["id"], i, m["changes"], ra.get("exit"), ra.get("err"), rb.get("exit"), rb.get("err")), rep)
            return
        has_deps = any(s["deps"] != "none" for s in scD["stmts"])
        if set(sa) != set(sb):
            only_a, only_b = sorted(set(sa) - set(sb)), sorted(set(sb) - set(sa))
            kind = "missed-in-discovered" if only_b else "extra-in-discovered"
            o = (only_b or only_a)[0]
            st = next(s for s in scD["stmts"] if s["outs"][0] == o)
            sig = "C10/%s/deps=%s" % (kind, st["deps"])
            if kind == "missed-in-discovered":
                # who needed the missed statement? consumers that ran in the discovered variant and read its outputs
                # every missed statement must be a (transitive) prerequisite of a header that a consumer with a
                # missing output reads without a manifest path
                gM = model.Graph(m["scM"], {p: c for p, c in m["scM"]["sources"].items()})
                explained = set()
                for c in scD["stmts"]:
                    if c["kind"] == "cmd" and c["outs"][0] in sa and residue(c):
                        for h in c.get("nmp", []):
                            p = gM.producer.get(h)
                            if p is not None:
                                explained |= gM.closure([h])
                        # ... and whatever is downstream of such a consumer is affected by its wrong result
                        for t2 in m["scM"]["stmts"]:
                            if c["id"] in gM.closure(t2["outs"][:1]):
                                explained.add(t2["id"])
                missed_ids = {gM.producer[x]["id"] for x in only_b if x in gM.producer}
                if missed_ids and missed_ids <= explained:
                    sig = "C10/missed-in-discovered/consumer-output-missing/no-manifest-path"
            ctx.violation(sig,
                          "scenario %s step %d changes=%s targets=%s: discovered variant ran %s, declared variant ran %s" %
                          (sD["id"], i, m["changes"], sD["steps"][i]["targets"], sorted(sa), sorted(sb)), rep)
            return
        # ordering: a generated header must be final before its consumer starts (both variants)
        srcs = {p: v[1] for p, v in wa.items() if p in scD["sources"]}
        graph = model.Graph(scD, srcs)
        clean, _ = graph.clean()
        for t, which in ((ta, "discovered"), (tb, "declared")):
            disk = disk_image(rD if which == "discovered" else rM, i)
            disk_before = dict(disk)
            for ev in t["events"]:
                if ev["e"] == "W":
                    disk[ev["p"]] = ev["h"]
                elif ev["e"] == "RM":
                    disk.pop(ev["p"], None)
                elif ev["e"] == "S":
                    st = next(s for s in scD["stmts"] if s["outs"][0] == ev["o"])
                    if st["deps"] == "none":
                        continue
                    for inc in includes_closure(scD, st):
                        if inc in graph.producer and graph.producer[inc]["kind"] != "phony":
                            ctx.count("generated_header_checks")
                            po = graph.producer[inc]["outs"][0]
                            evs = t["events"]
                            idx = evs.index(ev)
                            p_start = next((k for k, e2 in enumerate(evs) if e2["e"] == "S" and e2["o"] == po), None)
                            p_fin = next((k for k, e2 in enumerate(evs) if e2["e"] == "F" and e2["o"] == po), None)
                            late = p_start is not None and (p_fin is None or p_fin > idx)
                            if late or disk.get(inc) != hhex(clean[inc]):
                                out_missing = any(o not in disk_before for o in all_outs(st))
                                nmp = inc in st.get("nmp", [])
                                sig = "C10/stale-header-at-start/%s/deps=%s%s%s" % (which, st["deps"], "/output-missing" if out_missing else "",
                                                                                     "/no-manifest-path" if nmp else "")
                                if which == "discovered" and out_missing and nmp:
                                    sig = "C10/stale-header-at-start/consumer-output-missing/no-manifest-path"
                                ctx.violation(sig,
                                              "scenario %s step %d changes=%s (%s variant): %s started while the generated header %s it reads "
                                              "was not up to date" % (sD["id"], i, m["changes"], which, st["id"], inc), rep)
                                return
        # final contents equal between the twins and equal to the clean build (over what was requested)
        targets = sD["steps"][i]["targets"] or (scD["defaults"] or gen.Gen.roots(scD))
        if ra.get("exit") == 0:
            C = graph.closure(targets, {s["id"]: includes_closure(scD, s) for s in scD["stmts"] if s["kind"] == "cmd" and s["deps"] != "none"})
            for sid in C:
                s = graph.by_id[sid]
                if s["kind"] == "phony":
                    continue
                for o in all_outs(s):
                    ca, cb = wa.get(o, [0, None])[1], wb.get(o, [0, None])[1]
                    if ca != cb or ca != clean.get(o):
                        ctx.violation("C10/content-differs/deps=%s" % s["deps"],
                                      "scenario %s step %d changes=%s: %s is %r (discovered) / %r (declared), clean build gives %r" %
                                      (sD["id"], i, m["changes"], o, ca, cb, clean.get(o)), rep)
                        return
        ctx.count("twin_steps_equal")
        if has_deps and sa:
            ctx.nontrivial((sD["id"], i))
        if len(ctx.samples) < 3 and sa and m["changes"]:
            ctx.sample({"scenario": sD["id"], "step": i, "changes": m["changes"], "started_in_both": sorted(sa)})


def disk_image(results, i):
    """{path: content-hash} as it was just before step i"""
    disk = {}
    for jx in range(i - 1, -1, -1):
        rr = results[jx]
        if rr.get("trace") and rr["trace"].get("world"):
            disk = dict((p, hhex(v[1])) for p, v in rr["trace"]["world"]["files"].items())
            for kx in range(jx + 1, i):
                for ev in results[kx].get("events", []):
                    if ev["e"] == "W":
                        disk[ev["p"]] = ev["h"]
                    elif ev["e"] == "RM":
                        disk.pop(ev["p"], None)
            break
    return disk


def replay(ctx, path):
    j = json.load(open(path))["replay"]
    print("replay: re-running the whole check is the supported way (scenario pair stored in %s)" % path)
    run(ctx)
