"""C09 - the deps log survives torn writes, restarts and compaction.
Engine: nprobe depslog (real DepsLog + State under ASan/UBSan).
Oracle: independent parser/fold of the binary format (vlib/logmodel.py)."""

MANIFEST = dict(
    engine="nprobe", category="fault_enumeration",
    technique="runtime monitoring + fault injection: real DepsLog driven through sessions; file cut at every byte offset, "
              "random and structured damage after a valid prefix, two further append/reload sessions; oracle = independent "
              "binary parser/fold",
    text="Sessions of Load/OpenForWrite/RecordDeps/Close/Recompact over path sets covering every padding case run through the "
         "real DepsLog. The file is cut at EVERY byte offset and damaged with random and structured tails (perturbed size "
         "words, ids, checksums); each variant is loaded, then appended to and reloaded in two more sessions because the "
         "damage the property worries about shows one session later. After every load GetDeps of every node must equal the "
         "model's latest record, the file must have been cut to the last complete record, every dependency list recorded in "
         "a session must be returned by the next load, and recompaction must keep exactly the entries of outputs that still "
         "have a deps-using build statement.",
    note="Trusted: vlib/logmodel.py parse_deps_log. A record is malformed when its size, ids, checksum or padding cannot "
         "have been written by ninja.",
    ref="DESIGN.md §5 C09")

import random, struct
from .. import build, util, core, probe as P
from ..logmodel import parse_deps_log, deps_view, DEPS_MAGIC

SRCS = ["nprobe.cc", "probe_depslog.cc"]
HDR = DEPS_MAGIC + struct.pack("<i", 4)


def probe_bin():
    return build.get_bin("nprobe-depslog", SRCS)


def setup():
    probe_bin()


def hx(b):
    return b.hex() if b else "-"


def parse_out(lines):
    ev, dump = [], {}
    for ln in lines:
        f = ln.split(" ")
        if f[0] == "D":
            deps = [] if f[3] == "-" else [bytes.fromhex(x) if x != "NULL" else None for x in f[3].split(",")]
            dump[bytes.fromhex(f[1])] = (int(f[2]), deps)
        elif f[0] == "NODES":
            nodes = int(f[1])
        elif f[0] == "ENDDUMP":
            ev.append(("DUMP", dump, nodes))
            dump = {}
        elif f[0] == "FILE":
            ev.append(("FILE", None if f[1] == "MISSING" else (b"" if f[1] == "-" else bytes.fromhex(f[1]))))
        elif f[0] == "SIZE":
            ev.append(("SIZE", int(f[1])))
        elif f[0] == "LOAD":
            ev.append(("LOAD", f[1], "" if f[2] == "-" else bytes.fromhex(f[2]).decode("latin-1")))
        elif f[0] in ("REC", "OPEN", "RECOMPACT"):
            ev.append((f[0], f[1] == "1"))
        elif f[0] == "IDMISMATCH":
            ev.append(("IDMISMATCH", f[1]))
    return ev


def gen_paths(rng, n):
    ps = []
    for i in range(n):
        L = rng.choice((1, 2, 3, 4, 5, 6, 7, 8, 9, 15, 16, 17, 40, 255))
        p = bytes(rng.choice(b"abcdefgh/._-0123456789 ") for _ in range(L))
        p = (b"%d" % i)[:max(0, L - 1)] + p[len(b"%d" % i):] if L > 2 else p
        ps.append(p or b"x")
    return list(dict.fromkeys(ps))


def gen_session(rng, paths, n):
    recs = []
    for _ in range(n):
        out = rng.choice(paths[:max(2, len(paths) // 2)])
        k = rng.choice((0, 1, 1, 2, 3, 5, 9))
        deps = [rng.choice(paths) for _ in range(k)]
        mt = rng.choice((1, 7, rng.randint(1, 2 ** 31), rng.randint(2 ** 32, 2 ** 40), 2 ** 62 + 9, 0xFFFFFFFF, 2 ** 32))
        recs.append((out, mt, deps))
    return recs


def sess_script(recs, live=None, fresh=True):
    """fresh=False: the session goes on in the DepsLog object that has just loaded (and recovered) the file, as one ninja
    process does - load, then append; whatever the recovery left in memory is what the appended records are numbered by"""
    s = "new\n" if fresh else ""
    if live is not None:
        s += "live %s\n" % (",".join(hx(x) for x in live) or "-")
    s += ("load f\n" if fresh else "") + "open f\n"
    for out, mt, deps in recs:
        s += "rec %s %d %s\n" % (hx(out), mt, ",".join(hx(d) for d in deps) or "-")
    return s + "close\n"


CHECK = "read f\nnew\nload f\ndump\nsize f\n"


def run(ctx):
    b = probe_bin()
    rng = random.Random(ctx.seed)
    quick = ctx.tier == "quick"
    cases, meta = [], {}
    nh = 60 if quick else 200
    for h in range(nh):
        paths = gen_paths(rng, rng.randint(3, 12))
        sessions = [gen_session(rng, paths, rng.randint(1, 5 if quick else 10)) for _ in range(rng.randint(1, 3))]
        sc = "rm f\n"
        for s in sessions:
            sc += sess_script(s) + CHECK
        cases.append(("H%d" % h, sc))
        meta["H%d" % h] = (paths, sessions)
    # recompaction (explicit) with a subset of live outputs
    for h in range(30 if quick else 120):
        paths = gen_paths(rng, rng.randint(3, 10))
        sessions = [gen_session(rng, paths, rng.randint(3, 20))]
        outs = list(dict.fromkeys(r[0] for r in sessions[0]))
        live = rng.sample(outs, rng.randint(0, len(outs)))
        live_plus = live + rng.sample(paths, 1)    # a live statement without deps record
        # sometimes an earlier recompaction died before it could replace the log: its temporary file (complete, or torn)
        # is still there, holding an older state; the next recompaction must not build on it
        leftover = ""
        first = sess_script(sessions[0])
        if rng.random() < 0.6 and len(sessions[0]) >= 2:
            k = rng.randint(1, len(sessions[0]) - 1)
            cut = rng.choice(("", "", " %d" % rng.randint(13, 200)))
            first = sess_script(sessions[0][:k]) + ("cptrunc f f.recompact%s\n" % cut if cut else "cp f f.recompact\n") + sess_script(sessions[0][k:])
            leftover = "rm f.recompact\n"
            ctx.count("recompactions_with_leftover_temp_file")
        sc = "rm f\nrm f.recompact\n" + first + "read f\nnew\nlive %s\nload f\ndump\nrecompact f\ndump\n" % (
            ",".join(hx(x) for x in live_plus) or "-") + CHECK
        extra = gen_session(rng, paths, 2)
        sc += sess_script(extra) + CHECK
        cases.append(("R%d" % h, sc))
        meta["R%d" % h] = (paths, sessions, set(live_plus), extra)
    # automatic recompaction: > 1000 dep records, > 3x unique
    for h in range(2 if quick else 6):
        paths = gen_paths(rng, 6)
        outs = paths[:3]
        recs = [(rng.choice(outs), rng.randint(1, 10 ** 6), [rng.choice(paths) for _ in range(rng.randint(0, 3))]) for _ in range(1100)]
        live = outs[:2]
        sc = "rm f\n" + sess_script(recs) + "read f\nnew\nlive %s\nload f\ndump\nopen f\nclose\n" % ",".join(hx(x) for x in live) + CHECK
        cases.append(("A%d" % h, sc))
        meta["A%d" % h] = (paths, [recs], set(live), None)
    # size limits
    big_ok, big_bad = b"p" * 524280, b"q" * 524281
    cases.append(("Z0", "rm f\nnew\nload f\nopen f\nrec %s 5 %s\nrec %s 6 -\nrec %s 7 -\nclose\n" % (hx(b"o"), hx(big_ok), hx(big_bad), hx(b"o2")) + CHECK))
    # record-size boundary: the writer and the reader must agree on the largest record (a record the writer accepts
    # and the reader rejects is cut off at the next load together with everything written after it)
    bcases = []
    for N in list(range(131064, 131076)) + ([] if quick else list(range(131000, 131064, 7)) + [262144, 200000]):
        bcases.append(("B%d" % N, "rm f\nnew\nload f\nopen f\nrecmany %s 5 %d %s\nrec %s 6 %s\nclose\nnew\nload f\ndumpcounts\nrm f\n" %
                       (hx(b"big.o"), N, hx(b"d/dep"), hx(b"after.o"), ",".join(hx(x) for x in (b"x.h", b"y.h")))))
    outs, crashes, tos = P.run_cases(b, "depslog", cases + bcases, timeout=1200)
    report_crashes(ctx, crashes, tos)
    for cid, _ in bcases:
        if cid not in outs:
            continue
        N = int(cid[1:])
        lines = outs[cid]
        recs = [l.split()[1] == "1" for l in lines if l.startswith("REC ")]
        loads = [l.split() for l in lines if l.startswith("LOAD ")]
        dc = {bytes.fromhex(l.split()[1]): int(l.split()[3]) for l in lines if l.startswith("DC ")}
        ctx.evaluations += 1
        ctx.count("record_size_boundary_cases")
        if len(recs) != 2 or len(loads) != 2:
            ctx.inconclusive += 1
            continue
        ctx.count("record_size_boundary_%s" % ("accepted" if recs[0] else "refused"))
        warn = "" if loads[1][2] == "-" else bytes.fromhex(loads[1][2]).decode("latin-1")
        bad = None
        if recs[0] and dc.get(b"big.o") != N:
            bad = "the record of %d dependencies that RecordDeps accepted is gone after reload (%s)" % (N, dc.get(b"big.o"))
        elif recs[1] and dc.get(b"after.o") != 2:
            bad = "the record written after a %d-dependency record (%s) is gone after reload" % (N, "accepted" if recs[0] else "refused")
        elif loads[1][1] != "ok" or warn:
            bad = "load after a cleanly closed session says %s %r" % (loads[1][1], warn)
        if bad:
            ctx.violation("C09/record-size-boundary/%s" % ("writer-accepts-what-reader-rejects" if recs[0] else "after-refused-record"),
                          "%d dependencies: %s" % (N, bad), {"script": dict(bcases)[cid]})
    bases = {}
    for cid, _ in cases:
        if cid not in outs:
            continue
        ev = parse_out(outs[cid])
        ctx.evaluations += 1
        judge_sequence(ctx, cid, ev, meta.get(cid))
        files = [e[1] for e in ev if e[0] == "FILE" and e[1]]
        if cid[0] == "H" and files:
            bases[cid] = files[-1]
    # ---------------------------------------------------------------- tears and damage
    tcases, tmeta = [], {}
    for cid, B in sorted(bases.items()):
        paths = meta[cid][0]
        limit = 700 if quick else 2500
        offs = list(range(len(B) + 1)) if len(B) <= limit else sorted(set(rng.sample(range(len(B) + 1), limit)) | {0, 16, len(B)})
        if len(B) <= limit:
            ctx.count("files_cut_at_every_offset")
        for c in offs:
            tid = "T%s_%d" % (cid, c)
            s2, s3 = gen_session(rng, paths + [b"newdep.h", b"zz"], rng.randint(1, 3)), gen_session(rng, paths, rng.randint(1, 2))
            sc = "write f %s\nnew\nload f\ndump\nsize f\n" % hx(B[:c])
            sc += sess_script(s2, fresh=rng.random() < 0.5) + CHECK + sess_script(s3) + CHECK
            tcases.append((tid, sc))
            tmeta[tid] = (B[:c], [s2, s3], "cut")
        # damage after a valid prefix (prefix ends at a record boundary)
        pm = parse_deps_log(B)
        bounds = record_bounds(B)
        for k in range(120 if quick else 600):
            cut = rng.choice(bounds)
            tail = damage_tail(rng, B, cut, len(parse_deps_log(B[:cut])["paths"]))
            data = B[:cut] + tail
            tid = "D%s_%d" % (cid, k)
            s2 = gen_session(rng, paths + [b"newdep.h"], rng.randint(1, 3))
            s3 = gen_session(rng, paths, 1)
            sc = "write f %s\nnew\nload f\ndump\nsize f\n" % hx(data) + sess_script(s2, fresh=rng.random() < 0.4) + CHECK + sess_script(s3) + CHECK
            tcases.append((tid, sc))
            tmeta[tid] = (data, [s2, s3], "damage")
    outs2, crashes2, tos2 = P.run_cases(b, "depslog", tcases, timeout=1200)
    report_crashes(ctx, crashes2, tos2, tmeta)
    for tid, _ in tcases:
        if tid not in outs2:
            continue
        ctx.evaluations += 1
        judge_tear(ctx, tid, parse_out(outs2[tid]), *tmeta[tid])
    ctx.rule = ("histories of RecordDeps sessions over paths of every length mod 4; every truncation offset of files <= %d "
                "bytes; random/structured damage after a record boundary; each followed by two append+reload sessions; "
                "explicit and automatic recompaction; record-size limits. distinct_nontrivial = distinct (file, offset) "
                "cuts that fall strictly inside a record + distinct damaged files" % (700 if quick else 2500))
    ctx.assumptions = ["paths are non-empty and NUL-free", "one writer at a time (ninja's own assumption)"]
    ctx.canary(canary_model(), "deps model")


def record_bounds(B):
    b, off = [16], 16
    while off + 4 <= len(B):
        (sz,) = struct.unpack_from("<I", B, off)
        off += 4 + (sz & 0x7FFFFFFF)
        if off <= len(B):
            b.append(off)
    return b


def damage_tail(rng, B, cut, npaths):
    k = rng.randrange(9)
    rb = lambda n: bytes(rng.randrange(256) for _ in range(n))
    if k == 0:
        return rb(rng.randint(1, 40))
    if k == 1:   # path record with wrong checksum
        p = b"dmg" + rb(1).hex().encode()
        pad = (4 - len(p) % 4) % 4
        return struct.pack("<I", len(p) + pad + 4) + p + b"\0" * pad + struct.pack("<I", (~(npaths + rng.choice((1, -1, 7)))) & 0xFFFFFFFF) + rb(rng.randint(0, 8))
    if k == 2:   # deps record with out-of-range dependency id
        ids = [rng.choice((npaths, npaths + 5, 2 ** 31 - 1, -1, -2, -2 ** 31))]
        return struct.pack("<Iiii", 0x80000000 | 16, 0, 5, 0) + struct.pack("<i", ids[0]) + rb(rng.randint(0, 6))
    if k == 3:   # deps record shorter than its fixed part
        sz = rng.choice((0, 4, 8))
        return struct.pack("<I", 0x80000000 | sz) + rb(sz) + rb(rng.randint(0, 6))
    if k == 4:   # deps record with out-of-range output id
        return struct.pack("<Iiii", 0x80000000 | 12, rng.choice((npaths, npaths + 3, -1, -5, 2 ** 31 - 1)), 5, 0) + rb(rng.randint(0, 6))
    if k == 5:   # size not multiple of 4 / huge
        return struct.pack("<I", rng.choice((0x80000000 | 13, 0x80000000 | 0x7FFFFFFF, 0x7FFFFFFF, 1 << 19, 0x80000000 | (1 << 19)))) + rb(20)
    if k == 6:   # path record of NUL bytes only / too short
        sz = rng.choice((0, 1, 2, 3, 4, 5, 6, 7, 8))
        return struct.pack("<I", sz) + b"\0" * sz
    if k == 7:   # a valid record followed by garbage
        p = b"ok%d" % rng.randint(0, 99)
        pad = (4 - len(p) % 4) % 4
        good = struct.pack("<I", len(p) + pad + 4) + p + b"\0" * pad + struct.pack("<I", (~npaths) & 0xFFFFFFFF)
        return good + rb(rng.randint(1, 12))
    # bit flip somewhere in the remaining original bytes
    rest = bytearray(B[cut:cut + 64])
    if not rest:
        return rb(3)
    i = rng.randrange(len(rest))
    rest[i] ^= 1 << rng.randrange(8)
    return bytes(rest)


def report_crashes(ctx, crashes, tos, tmeta=None):
    for cid, se in crashes.items():
        data = tmeta[cid][0].hex() if tmeta and cid in tmeta else None
        ctx.violation("C09/sanitizer/" + (util.san_signature(se) or "crash"), "case %s: %s" % (cid, se[-2000:]),
                      {"case": cid, "data_hex": data})
    for cid in tos:
        ctx.violation("C09/hang", "case %s timed out" % cid, {"case": cid})


def judge_load(ctx, cid, data, load_ev, dump, size_after):
    """One load of `data` -> compares with the model. Returns model view."""
    if data is None:
        return {}
    if load_ev[1] == "error":
        ctx.violation("C09/load-error", "%s: %r" % (cid, load_ev), {"data_hex": data.hex()[:6000]})
        return None
    m = parse_deps_log(data)
    if not m["valid_header"]:
        ctx.count("discarded_logs")
        if dump[0]:
            ctx.violation("C09/bad-header-entries", "%s: entries from a log without valid header" % cid)
        if size_after not in (-1, None):
            ctx.violation("C09/bad-header-kept", "%s: file with bad header kept (size %s)" % (cid, size_after), {"data_hex": data.hex()[:200]})
        if len(data) > 0 and not load_ev[2]:
            ctx.violation("C09/bad-header-silent", "%s: no warning" % cid)
        return {}
    want = deps_view(m)
    got = dump[0]
    if got != want:
        ks = [k for k in set(got) | set(want) if got.get(k) != want.get(k)]
        k = ks[0]
        kind = "lost" if k not in got else "phantom" if k not in want else ("mtime" if got[k][1] == want[k][1] else "deps")
        ctx.violation("C09/load-mismatch/%s/%s" % (kind, m["problem"] or "clean"),
                      "%s: GetDeps(%r)=%r, model says %r (model stopped at %d: %s)" %
                      (cid, util.show(k), got.get(k), want.get(k), m["good_len"], m["problem"]), {"data_hex": data.hex()[:8000]})
    else:
        ctx.count("loads_equal_model")
    if size_after is not None and size_after != m["good_len"]:
        ctx.violation("C09/not-truncated/%s" % (m["problem"] or "clean").replace(" ", "-"),
                      "%s: file is %d bytes after load, last complete record ends at %d (%s)" %
                      (cid, size_after, m["good_len"], m["problem"]), {"data_hex": data.hex()[:8000]})
    return want


def judge_sequence(ctx, cid, ev, meta):
    last_file = None
    seen_file = False
    for i, e in enumerate(ev):
        if e[0] in ("REC", "OPEN", "RECOMPACT") and not e[1] and cid != "Z0":
            ctx.violation("C09/op-failed/" + e[0], "%s: %s failed" % (cid, e[0]))
        if e[0] == "IDMISMATCH":
            ctx.violation("C09/id-mismatch", "%s: node id differs from its index" % cid)
        if e[0] == "FILE":
            last_file, seen_file = e[1], True
        if e[0] == "LOAD" and seen_file and i + 1 < len(ev) and ev[i + 1][0] == "DUMP":
            size = ev[i + 2][1] if i + 2 < len(ev) and ev[i + 2][0] == "SIZE" else None
            judge_load(ctx, cid, last_file, e, ev[i + 1][1:], size)
            seen_file = False
    files = [e[1] for e in ev if e[0] == "FILE"]
    dumps = [e[1] for e in ev if e[0] == "DUMP"]
    if cid[0] == "H":
        # every session's records must be what the next load returns (model-free, straight from the script)
        paths, sessions = meta
        cur, di = {}, 0
        for s in sessions:
            for out, mt, deps in s:
                cur[out] = (mt, deps)
            if di < len(dumps):
                if dumps[di] != cur:
                    k = [k for k in set(cur) | set(dumps[di]) if cur.get(k) != dumps[di].get(k)][0]
                    ctx.violation("C09/history-mismatch", "%s: after session %d GetDeps(%r)=%r expected %r" %
                                  (cid, di, util.show(k), dumps[di].get(k), cur.get(k)))
                else:
                    ctx.count("history_folds_equal")
            di += 1
    if cid[0] in "RA":
        paths, sessions, live, extra = meta
        before = {}
        for out, mt, deps in sessions[0]:
            before[out] = (mt, deps)
        want = {k: v for k, v in before.items() if k in live}
        idx = 1 if cid[0] == "R" else 1
        after = dumps[idx] if len(dumps) > idx else None
        if cid[0] == "A":
            # automatic: recompaction happens in open; judged on the reload
            after = dumps[-1]
            if files and files[-1] is not None and len(files[-1]) >= len(files[0] or b""):
                ctx.violation("C09/auto-recompaction-missing", "%s: 1100 records over 3 outputs not compacted" % cid)
            else:
                ctx.count("auto_recompactions_observed")
        if after is not None:
            if after != want:
                k = [k for k in set(after) | set(want) if after.get(k) != want.get(k)][0]
                kind = "dropped-live" if k in want and k not in after else "kept-dead" if k not in want else "changed"
                ctx.violation("C09/recompaction/" + kind, "%s: after recompaction GetDeps(%r)=%r expected %r (live=%s)" %
                              (cid, util.show(k), after.get(k), want.get(k), k in live))
            else:
                ctx.count("recompactions_ok")
                ctx.nontrivial(("recompact", cid))
        if cid[0] == "R" and len(dumps) >= 3 and after is not None and after == want and dumps[2] != want:
            k = [k for k in set(dumps[2]) | set(want) if dumps[2].get(k) != want.get(k)][0]
            ctx.violation("C09/recompaction/differs-after-reload", "%s: the recompacting process had GetDeps(%r)=%r, a new process loading the "
                          "recompacted log gets %r" % (cid, util.show(k), want.get(k), dumps[2].get(k)))
        if cid[0] == "R" and len(dumps) >= 4:
            cur = dict(want)
            for out, mt, deps in extra:
                cur[out] = (mt, deps)
            # session after recompaction ran without `live`, plain fold
            if dumps[3] != cur:
                ctx.violation("C09/append-after-recompaction", "%s: %r vs %r" % (cid, dumps[3], cur))
    if cid == "Z0":
        recs = [e[1] for e in ev if e[0] == "REC"]
        if recs != [True, False, True]:
            ctx.violation("C09/size-limit", "record-size limit handling: %r" % recs)
        else:
            ctx.count("size_limit_ok")


def judge_tear(ctx, tid, ev, data, sessions, kind):
    loads = [i for i, e in enumerate(ev) if e[0] == "LOAD"]
    if len(loads) < 1:
        ctx.inconclusive += 1
        return
    for e in ev:
        if e[0] in ("REC", "OPEN") and not e[1]:
            ctx.violation("C09/op-failed/" + e[0], "%s: %s failed" % (tid, e[0]))
    m = parse_deps_log(data)
    if kind == "cut" and m["problem"] and "torn" in m["problem"]:
        ctx.nontrivial(tid)
    if kind == "damage":
        ctx.nontrivial(data)
        ctx.count("damage_" + (m["problem"] or "none").replace(" ", "_"))
    # first load: of `data`
    i = loads[0]
    size = ev[i + 2][1] if i + 2 < len(ev) and ev[i + 2][0] == "SIZE" else None
    cur = judge_load(ctx, tid, data, ev[i], ev[i + 1][1:], size)
    if cur is None:
        return
    cur = dict(cur)
    # then per session: FILE (bytes after close), LOAD, DUMP, SIZE
    files = [(j, e[1]) for j, e in enumerate(ev) if e[0] == "FILE"]
    for k, s in enumerate(sessions):
        for out, mt, deps in s:
            cur[out] = (mt, deps)
        if k >= len(files):
            break
        j, F = files[k]
        if F is None:
            ctx.violation("C09/no-file-after-session", "%s: deps log missing after a write session" % tid)
            return
        # after the session's Close: the load (j+2 is LOAD since 'new' prints nothing)
        li = next((x for x in loads if x > j), None)
        if li is None:
            break
        dump = ev[li + 1][1]
        fm = parse_deps_log(F)
        if fm["problem"]:
            ctx.violation("C09/inconsistent-after-append/%s" % fm["problem"].replace(" ", "-"),
                          "%s (%s at %d bytes): the file written by session %d does not parse: %s at offset %d" %
                          (tid, kind, len(data), k + 2, fm["problem"], fm["good_len"]), {"data_hex": data.hex()[:8000]})
        if dump != cur:
            ks = [x for x in set(dump) | set(cur) if dump.get(x) != cur.get(x)]
            x = ks[0]
            lost = x in cur and x not in dump
            ctx.violation("C09/session-lost/%s" % ("lost" if lost else "differs"),
                          "%s (%s, first model problem: %s): after session %d GetDeps(%r)=%r, recorded %r" %
                          (tid, kind, m["problem"], k + 2, util.show(x), dump.get(x), cur.get(x)), {"data_hex": data.hex()[:8000]})
            return
        ctx.count("sessions_after_damage_consistent")
    if len(ctx.samples) < 3 and m["problem"]:
        ctx.sample({"case": tid, "kind": kind, "bytes": len(data), "model_problem": m["problem"], "good_len": m["good_len"]})


def canary_model():
    d = HDR + struct.pack("<I", 8) + b"a\0\0\0" + struct.pack("<I", 0xFFFFFFFF) + struct.pack("<Iiii", 0x80000000 | 12, 0, 5, 0) + b"\x01\x02"
    m = parse_deps_log(d)
    return m["paths"] == [b"a"] and m["deps"] == {0: (5, [])} and m["problem"] == "torn size word" and m["good_len"] == len(d) - 2


def replay(ctx, path):
    run(ctx)
