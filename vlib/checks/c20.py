"""C20 - progress and command output are reported once, whole and consistent.
e2e: real ninja writing to a pipe and to a pty; commands print uniquely tagged chunks (NUL bytes, ANSI escapes, with and
without final newline) in several writes over time on stdout and stderr; failing, restat-pruned and console-pool
statements; -j 1..8; default / NINJA_STATUS / --status formats.  nsim: the real StatusPrinter behind a tap that samples
its counters after every Status call, under controlled schedules (totals shrink with restat, grow with dyndep)."""
import copy, json, os, pty, random, re, select, subprocess, time
from .. import simlib, gen, model, util, core, e2e, build
from ..simlib import St, all_outs

MANIFEST = dict(
    engine="e2e+nsim", category="exploration",
    technique="runtime monitoring: parser of the real binary's stdout bytes (pipe and pty) over uniquely tagged command output; counter "
              "monitor at the Status boundary (nsim tap on the real StatusPrinter)",
    text="(Round 10: rules with a 'description' - one text for every statement, or one each - and status formats without a counter that moves between two completions, so that consecutive status lines are the same bytes; the block of a described command must follow its own formatted status line.) Commands write uniquely tagged chunks (including NUL bytes and ANSI colour sequences, with and without a final newline) in "
         "several write()s over time on stdout and stderr while -j 1..8 other commands run; some fail, some are restat-pruned, some "
         "run in the console pool. Oracle on ninja's stdout bytes: for every command the concatenation of its chunks occurs exactly "
         "once, contiguously, directly after that command's own status line (after 'FAILED: [code=N] outputs' and the full command "
         "line for a failed one), ANSI sequences stripped exactly when stdout is not a terminal; between a console command's begin and "
         "end markers only its own bytes appear and everything held back shows up afterwards once. Counters are judged at the Status "
         "boundary: after every Status call the real StatusPrinter's %s/%f/%t/%r/%u are sampled - f <= s <= t, r == s - f, every "
         "started edge is finished, final f == t on success, also when the total shrinks (restat) or grows (dyndep); printed [f/t] "
         "prefixes must satisfy f <= t and end at f == t.",
    note="Trusted: vtool's chunk writer; the reference ANSI stripper (well-formed CSI sequences only are generated). Status lines of "
         "silent commands may be coalesced while the console is locked (allowed by the property).",
    ref="DESIGN.md §5 C20")

CSI = re.compile(rb"\x1b\[[0-9;]*[A-Za-z]")


def setup():
    e2e.ninja_bin()
    e2e.vtool_bin()
    simlib.nsim_bin()


def shq(s):
    """quote for /bin/sh inside a ninja command; NUL/ESC/newline travel as \\0 \\e \\n (vtool unescapes them)"""
    s = s.replace("\0", "\\0").replace("\x1b", "\\e").replace("\n", "\\n")
    return "'" + s + "'"


def hx(s):
    return s.encode("latin-1").hex() or "-"


def strip_err(args):
    out, skip = [], False
    for a in args:
        if skip:
            skip = False
            continue
        if a == "--say-err-hex":
            skip = True
            continue
        out.append(a)
    return out


def chunk(rng, tag, k, stream):
    body = "<<%s:%s%d:%06d>>" % (tag, stream, k, rng.randint(0, 999999))
    x = rng.random()
    if x < 0.25:
        body = "\x1b[31m" + body + "\x1b[0m"
    elif x < 0.35:
        body = body + "\x1b[K"
    if rng.random() < 0.15:
        body = body[:5] + "\0" + body[5:]
    if rng.random() < 0.6:
        body += "\n"
    return body


def make_scenario(rng, seed):
    n = rng.randint(2, 7)
    sc = {"id": "C20-%d" % seed, "sources": {}, "stmts": [], "pools": {}, "defaults": []}
    expect = {}
    outs = []
    for i in range(n):
        sc["sources"]["c%d.c" % i] = "// c%d\n" % i
        st = St("s%d" % i, ["o%d.o" % i], ins=["c%d.c" % i] + ([rng.choice(outs)] if outs and rng.random() < 0.4 else []))
        if rng.random() < 0.3:
            st["outs"].append("o%d.map" % i)           # the FAILED header names every output, explicit and implicit
        if rng.random() < 0.3:
            st["iouts"] = ["o%d.lst" % i] + (["gen dir/o%d,x=y.h" % i] if False else [])
        args, text, otext = [], "", ""
        nch = rng.choice((0, 0, 1, 2, 3, 5))
        for k in range(nch):
            a = chunk(rng, "s%d" % i, k, "o")
            b = chunk(rng, "s%d" % i, k, "e") if rng.random() < 0.6 else None
            args += ["--say-hex", hx(a)]
            text += a
            otext += a
            args += ["--say-err-hex", hx(b or "")]
            text += b or ""
        console = rng.random() < 0.2
        if not console and rng.random() < 0.25:
            # a burst of 5..60 KiB in one write() just before the command ends: more than one pipe read is pending at exit
            nl = rng.randint(300, 3500)
            args += ["--say-big", "s%d:%d" % (i, nl)]
            burst = "".join("<<s%d:B%06d>>\n" % (i, q) for q in range(nl))
            text += burst
            otext += burst
        if nch:
            args += ["--chunk-delay", str(rng.choice((0, 1, 5, 20)))]
        args += ["--sleep-before", str(rng.choice((0, 0, 10, 40)))]
        fail = rng.random() < 0.15
        if fail and not console and rng.random() < 0.35:
            # ... or the command's process is ended by a signal (a crashing tool, the OOM killer): an ordinary failure with code
            # 128+N for ninja, reported like any other, and nothing that concerns the rest of the build.  The tool takes the
            # place of the shell ninja spawned ('exec'), so that it is that process which dies by the signal.
            args += ["--kill-self", str(rng.choice((9, 11, 6, 13, 7, 10)))]
            st["shell_prefix"] = "exec "
        elif fail:
            args += ["--exit", str(rng.choice((1, 2, 3, 42)))]
        if rng.random() < 0.2:
            st["restat"] = True
        if not fail and not console and rng.random() < 0.1:
            # the command itself succeeds, but what it leaves as its depfile cannot be read (deps = gcc): ninja fails the statement
            # when it extracts the dependencies - what the command printed is still shown, under the FAILED header
            st["deps"], st["depfile"] = "gcc", "o%d.o.d" % i
            st["shell_suffix"] = " && echo no-colon-in-here > $depfile"
            fail = True
            st["bad_depfile"] = True
        if console:
            st["pool"] = "console"
            # a console command writes to ninja's own stdout/stderr: only its stdout chunks show up in stdout
            args = [a_ for k_, a_ in enumerate(args)]
            args = ["--say-hex", hx("<<CB:s%d>>\n" % i)] + [x for x in strip_err(args)] + ["--say-hex", hx("<<CE:s%d>>\n" % i)]
            text = "<<CB:s%d>>\n" % i + otext + "<<CE:s%d>>\n" % i
        st["vtool_args"] = args
        sc["stmts"].append(st)
        outs.append(st["outs"][0])
        expect[st["outs"][0]] = {"text": text.encode("latin-1"), "fail": fail, "console": console, "sid": st["id"],
                                 "all_outs": st["outs"] + st["iouts"]}
    # rules with a 'description': the status line shows it instead of the command line - the same text for every statement (a
    # project whose rules say "CC", "LINK"), or one per statement.  With a format that has no counter that moves between two
    # completions, consecutive status lines are then byte for byte the same text.
    described = rng.random() < 0.4
    if described:
        same = rng.random() < 0.6
        for st in sc["stmts"]:
            st["description"] = "STEP" if same else "STEP %s" % st["id"]
            expect[st["outs"][0]]["desc"] = st["description"]
    return sc, expect


def run_pty(tree, args, env):
    m, s = pty.openpty()
    e = build.san_env()
    e.update(env)
    p = subprocess.Popen([tree.ninja] + args, cwd=tree.d, env=e, stdin=subprocess.DEVNULL, stdout=s, stderr=subprocess.PIPE, close_fds=True)
    os.close(s)
    out = b""
    t0 = time.time()
    while True:
        r, _, _ = select.select([m], [], [], 0.2)
        if r:
            try:
                d = os.read(m, 65536)
            except OSError:
                break
            if not d:
                break
            out += d
        elif p.poll() is not None:
            # drain
            try:
                while True:
                    r, _, _ = select.select([m], [], [], 0.05)
                    if not r:
                        break
                    d = os.read(m, 65536)
                    if not d:
                        break
                    out += d
            except OSError:
                pass
            break
        if time.time() - t0 > e2e.WATCHDOG:
            p.kill()
            os.close(m)
            return None, out, b""
    os.close(m)
    err = p.stderr.read()
    p.wait()
    return p.returncode, out.replace(b"\r\n", b"\n"), err


# (how it is given, format).  Every format ends where the description goes, so that "the output block follows the
# command's own status line" reads the same for all of them.
STATUS_FORMATS = [
    (None, None), (None, None),
    ("env", "[%s/%f/%t/%r/%u] "),
    ("env", "%p %e "),
    ("env", "100%% <%f of %t|%p|%u left|%r busy|%s> "),
    ("flag", "[$started/$finished/$total/$running/$remaining] $description"),
    ("flag", "${finished}of$total $$ ${progress} $description"),
    ("flag-over-env", "<$remaining.$running.$started.$total.$finished> $description"),
    # no counter that changes when a command finishes
    ("env", "[%s/%t] "),
    ("env", "ninja> "),
    ("flag", "[$started/$total] $description"),
    ("flag", "$description"),
]
_ENV_PH = {"s": rb"(\d+)", "f": rb"(\d+)", "t": rb"(\d+)", "r": rb"(\d+)", "u": rb"(-?\d+)", "p": rb"( *\d+%)", "e": rb"[0-9.]+"}
_FLAG_PH = {"started": "s", "finished": "f", "total": "t", "running": "r", "remaining": "u", "progress": "p"}


def status_regex(fmt, how):
    """-> (regex bytes matching the formatted status up to where the description starts, [placeholder letters])"""
    rx, names = b"", []
    i = 0
    if how == "env":
        while i < len(fmt):
            c = fmt[i]
            if c == "%":
                k = fmt[i + 1]
                i += 2
                if k == "%":
                    rx += re.escape(b"%")
                else:
                    rx += _ENV_PH[k]
                    if k in "sftrup":
                        names.append(k)
            else:
                rx += re.escape(c.encode())
                i += 1
        return rx, names
    while i < len(fmt):
        c = fmt[i]
        if c == "$":
            if fmt[i + 1] == "$":
                rx += re.escape(b"$")
                i += 2
                continue
            mm = re.match(r"\$\{(\w+)\}|\$(\w+)", fmt[i:])
            name = mm.group(1) or mm.group(2)
            i += mm.end()
            if name == "description":
                break
            k = _FLAG_PH[name]
            rx += _ENV_PH[k]
            names.append(k)
        else:
            rx += re.escape(c.encode())
            i += 1
    return rx, names


def e2e_case(ctx, seed):
    rng = random.Random(seed)
    sc, expect = make_scenario(rng, seed)
    regen = rng.random() < 0.15
    if regen:
        # the manifest is itself an output and out of date: ninja regenerates it in a build of its own and reports the real build
        # through the same status object - whose counters start over
        sc["regen_manifest"] = True
        sc["sources"]["build.ninja.in"] = "# what the manifest is generated from\n"
    t = e2e.Tree(sc)
    try:
        if regen:
            t.write("build.ninja.in", "# what the manifest is generated from\n# changed\n")
            ctx.count("scenarios_with_stale_self_regenerating_manifest")
        mode = rng.choice(("pipe", "pipe", "pty"))
        how, fmt = rng.choice(STATUS_FORMATS)
        env = {"TERM": "xterm" if mode == "pty" else "dumb"}
        args = ["-j%d" % rng.choice((1, 2, 3, 8)), "-k", "0"]
        if how == "env":
            env["NINJA_STATUS"] = fmt
        elif how == "flag":
            args += ["--status", fmt]
        elif how == "flag-over-env":
            env["NINJA_STATUS"] = "IGNORED %u "
            args += ["--status", fmt]
        ctx.count("status_format_%s" % (how or "default"))
        if mode == "pipe":
            rc, so, se = t.run(args, env=env)
        else:
            rc, so, se = run_pty(t, args, env)
        ctx.evaluations += 1
        rep = {"seed": seed, "mode": mode, "status_format": fmt, "status_format_given_by": how}
        what = "scenario %d (%s, status format %r by %s, %s)" % (seed, mode, fmt, how or "default", " ".join(args))
        if rc is None:
            ctx.inconclusive += 1
            return
        sig = util.san_signature((so + se).decode("latin-1"))
        if sig:
            ctx.violation("C20/sanitizer/" + sig, "%s: %s" % (what, (so + se).decode("latin-1")[-1500:]), rep)
            return
        rep["stdout_hex"] = so.hex()[:20000]
        ev = t.events()
        ran = {e["id"] for e in ev if e["e"] == "S"}
        cmdline = {}
        for ln in open(t.path("build.ninja")).read().split("\n"):
            mm = re.match(r"  command = (.*--id (\S+) .*)$", ln)
            if mm:
                cmdline[mm.group(2)] = mm.group(1)
        for o, ex in expect.items():
            if o not in ran:
                continue
            text = ex["text"]
            if mode == "pipe":
                text = CSI.sub(b"", text)
            if not text:
                continue
            ctx.count("blocks_checked_" + mode)
            if ex["console"]:
                # a console command writes to the terminal itself: its bytes appear between its markers, nothing else in between
                raw = ex["text"]
                if so.count(raw) != 1:
                    # the terminal driver may translate \n -> \r\n (undone above); NUL/ESC pass through
                    ctx.violation("C20/console-output-not-contiguous/%s" % mode,
                                  "%s: the console command %s's own bytes are interrupted or repeated (%d occurrences)" % (what, o, so.count(raw)), rep)
                    return
                ctx.count("console_blocks_ok")
                continue
            cnt = so.count(text)
            if cnt != 1:
                kind = "lost-or-split" if cnt == 0 else "repeated"
                ctx.violation("C20/output-%s/%s%s" % (kind, mode, "/failed" if ex["fail"] else ""),
                              "%s: output of %s appears %d times as one contiguous block (expected once): %r" % (what, o, cnt, text[:120]), rep)
                return
            pos = so.find(text)
            before = so[:pos]
            cl = cmdline.get(o, "").replace("$$", "$").replace("$in", " ".join(next(s for s in sc["stmts"] if s["outs"][0] == o)["ins"])).replace("$out", " ".join(next(s for s in sc["stmts"] if s["outs"][0] == o)["outs"])).replace("$depfile", next(s for s in sc["stmts"] if s["outs"][0] == o)["depfile"])
            # the status line (or, for a failure, the FAILED header + full command line) directly precedes the block
            tail = before[-(len(cl) + 400):]
            # what the status line of a successful command shows: the description if the rule has one, else the command line;
            # for a described rule the formatted counters in front of it are matched too (the whole line is the command's own)
            shown = re.escape(cl.encode("latin-1"))
            if ex.get("desc"):
                head = rb"\[\d+/\d+\] " if fmt is None else status_regex(fmt, how)[0]
                shown = head + re.escape(ex["desc"].encode())      # (no line-start anchor: output that does not end in a newline is followed by the next status line on the same line)
                ctx.count("blocks_checked_described_" + mode)
            if mode == "pipe":
                if ex["fail"]:
                    allo = " ".join(ex["all_outs"]).encode()
                    okp = re.search(rb"FAILED: \[code=\d+\] " + re.escape(allo) + rb" \n" + re.escape(cl.encode("latin-1")) + rb"\n+$", tail)
                else:
                    okp = re.search(shown + rb"\n+$", tail)
            else:
                if ex["fail"]:
                    allo = " ".join(ex["all_outs"]).encode()
                    okp = re.search(rb"FAILED: .*?" + re.escape(allo) + rb" \n" + re.escape(cl.encode("latin-1")) + rb"\n+$", tail, re.S)
                else:
                    okp = re.search(shown + rb"(\x1b\[K)?\n+$", tail)
            if not okp:
                ctx.violation("C20/output-not-after-own-status-line/%s%s" % (mode, "/failed" if ex["fail"] else ""),
                              "%s: the block of %s is preceded by %r" % (what, o, before[-200:]), rep)
                return
            ctx.nontrivial((seed, o))
        # printed counters, whatever the format: every status line is matched against the format and the numbers in
        # it must be consistent with each other (running = started - finished, remaining = total - started,
        # percentage = 100 * finished / total rounded down) and monotonic
        if fmt is not None and mode == "pipe":
            rx, names = status_regex(fmt, how)
            if "IGNORED".encode() in so:
                ctx.violation("C20/status-flag-does-not-override-env", "%s: NINJA_STATUS text printed although --status was given" % what, rep)
                return
            last_f = -1
            nlines = 0
            restarted = False
            follows_status = rb"(?:" + rb"|".join([rb"(?:exec )?" + re.escape(t.vtool.encode())] + sorted({re.escape(ex_["desc"].encode()) for ex_ in expect.values() if ex_.get("desc")})) + rb")"
            for mm in re.finditer(rx + follows_status, so):
                v = dict(zip(names, mm.groups()))
                nlines += 1
                ctx.count("formatted_status_lines_checked")
                num = {k: int(x.strip().rstrip(b"%")) for k, x in v.items() if k in "sftrup"}
                bad = None
                # (the line printed when a command finishes still counts that command as running: upstream order of
                # PrintStatus and --running_edges_ in BuildEdgeFinished; a console command's line is printed at its start)
                if "s" in num and "f" in num and "r" in num and num["r"] not in (num["s"] - num["f"], num["s"] - num["f"] + 1):
                    bad = "running != started - finished (+1)"
                elif "t" in num and "s" in num and "u" in num and num["u"] != num["t"] - num["s"]:
                    bad = "remaining != total - started"
                elif "f" in num and "t" in num and num["f"] > num["t"]:
                    bad = "finished > total"
                elif "s" in num and "t" in num and num["s"] > num["t"]:
                    bad = "started > total"
                elif "s" in num and "f" in num and num["f"] > num["s"]:
                    bad = "finished > started"
                elif "p" in num and "f" in num and "t" in num and num["t"] and num["p"] != (100 * num["f"]) // num["t"]:
                    bad = "percentage != 100*finished/total"
                elif "f" in num and num["f"] < last_f and regen and not restarted:
                    restarted = True        # the build that regenerated the manifest is over, the real one starts counting again
                elif "f" in num and num["f"] < last_f:
                    bad = "finished went backwards"
                if bad:
                    ctx.violation("C20/formatted-status-inconsistent/%s" % re.sub(r"[^a-z]+", "-", bad).strip("-"),
                                  "%s: status line %r: %s" % (what, mm.group(0)[:80], bad), rep)
                    return
                last_f = num.get("f", last_f)
            nfin = len([e for e in ev if e["e"] == "S"])
            if nfin and not nlines:
                ctx.violation("C20/formatted-status-line-missing", "%s: %d commands ran but no status line matches the format" % (what, nfin), rep)
                return
        if fmt is None and mode == "pipe":
            follows_status = rb"(?:" + rb"|".join([rb"(?:exec )?" + re.escape(t.vtool.encode())] + sorted({re.escape(ex_["desc"].encode()) for ex_ in expect.values() if ex_.get("desc")})) + rb")"
            pairs = [(int(a), int(b)) for a, b in re.findall(rb"\[(\d+)/(\d+)\] " + follows_status, so)]
            ctx.count("status_lines_seen", len(pairs))
            for f, tt in pairs:
                if f > tt:
                    ctx.violation("C20/printed-counter-exceeds-total", "%s: [%d/%d]" % (what, f, tt), rep)
                    return
            # (a restat command that prunes shrinks the total after its own status line was printed; a console command's
            # finish prints no status line at all - both allowed, the counters themselves are judged in nsim)
            if rc == 0 and pairs and pairs[-1][0] != pairs[-1][1] and not any(s["restat"] or s["pool"] == "console" for s in sc["stmts"]):
                ctx.violation("C20/final-counter-not-total", "%s: last status line [%d/%d] after a successful build" % (what, pairs[-1][0], pairs[-1][1]), rep)
                return
        if len(ctx.samples) < 2 and mode == "pty":
            ctx.sample({"scenario": seed, "mode": mode, "stdout_excerpt": util.show(so[:400])})
    finally:
        t.close()


def abort_case(ctx, seed):
    """A build that is abandoned while a console-pool command owns the terminal: a command that itself succeeds makes ninja stop
    (the dyndep file it has written cannot be loaded).  What silent commands printed before that - and the output of the
    command whose completion stopped the build - was held back; "shown afterwards with none of it lost" holds on this way out
    too.  Judged only for commands that provably ended before the one that stops the build."""
    rng = random.Random(seed)
    sc = {"id": "C20a-%d" % seed, "sources": {"a.c": "// a\n", "e.src": "// served\n", "b.in": "// scan input\n"}, "stmts": [], "pools": {}, "defaults": []}
    expect = {}
    cons = St("a", ["a.out"], ins=["a.c"], pool="console")
    cons["vtool_args"] = ["--say-hex", hx("<<CB:a>>\n"), "--sleep-after", str(rng.choice((1200, 1600))), "--say-hex", hx("<<CE:a>>\n")]
    sc["stmts"].append(cons)
    nquiet = rng.randint(1, 3)
    for i in range(nquiet):
        sc["sources"]["d%d.c" % i] = "// d%d\n" % i
        st = St("d%d" % i, ["d%d.o" % i], ins=["d%d.c" % i])
        args, text = [], ""
        for k in range(rng.randint(1, 3)):
            a = chunk(rng, "d%d" % i, k, "o")
            args += ["--say-hex", hx(a)]
            text += a
        st["vtool_args"] = args + ["--sleep-before", str(rng.choice((0, 20, 60)))]
        sc["stmts"].append(st)
        expect[st["outs"][0]] = text.encode("latin-1")
    # the command whose completion stops the build: a scanner that writes a dyndep file for a statement that does not exist
    b = St("b", ["bad.dd"], ins=["b.in"], kind="scan", serves=[["nosuch.o", "e.src"]])
    btext = chunk(rng, "b", 0, "o")
    b["vtool_args"] = ["--say-hex", hx(btext), "--sleep-before", str(rng.choice((350, 500)))]
    sc["stmts"].append(b)
    expect["bad.dd"] = btext.encode("latin-1")
    e_ = St("e", ["e.o"], ins=["e.src"], oins=["bad.dd"], dyndep="bad.dd", dd=True)
    sc["stmts"].append(e_)
    t = e2e.Tree(sc)
    try:
        mode = rng.choice(("pipe", "pipe", "pty"))
        env = {"TERM": "xterm" if mode == "pty" else "dumb"}
        args = ["-j8"]
        rc, so, se = t.run(args, env=env) if mode == "pipe" else run_pty(t, args, env)
        ctx.evaluations += 1
        rep = {"seed": seed, "mode": mode, "family": "abort-under-console-lock"}
        what = "abort scenario %d (%s)" % (seed, mode)
        if rc is None:
            ctx.inconclusive += 1
            return
        sig = util.san_signature((so + se).decode("latin-1"))
        if sig:
            ctx.violation("C20/sanitizer/" + sig, "%s: %s" % (what, (so + se).decode("latin-1")[-1500:]), rep)
            return
        rep["stdout_hex"] = so.hex()[:20000]
        ev = t.events()
        ended = {e["id"]: e["t"] for e in ev if e["e"] == "E"}
        started = {e["id"]: e["t"] for e in ev if e["e"] == "S"}
        if rc == 0 or "bad.dd" not in ended or "a.out" not in started or started["a.out"] > ended["bad.dd"]:
            ctx.count("abort_scenarios_not_as_planned")        # (the console command had not started yet, or the build went through)
            return
        if b"<<CB:a>>" not in so:
            ctx.count("abort_scenarios_not_as_planned")
            return
        ctx.count("abort_scenarios_" + mode)
        for o, text in expect.items():
            if o not in ended or ended[o] > ended["bad.dd"]:
                continue
            if mode == "pipe":
                text = CSI.sub(b"", text)
            if not text:
                continue
            ctx.count("blocks_checked_abort")
            cnt = so.count(text)
            if cnt != 1:
                ctx.violation("C20/output-%s/%s/build-abandoned-under-console-lock" % ("lost-or-split" if cnt == 0 else "repeated", mode),
                              "%s: output of %s (ended before the command that stopped the build) appears %d times (expected once): %r; ninja said %r" %
                              (what, o, cnt, text[:100], (so + se)[-200:]), rep)
                return
            if so.find(b"<<CB:a>>") < so.find(text) < so.find(b"<<CE:a>>") and b"<<CE:a>>" in so:
                ctx.violation("C20/console-output-not-contiguous/%s/build-abandoned" % mode, "%s: output of %s inside the console command's block" % (what, o), rep)
                return
            ctx.nontrivial((seed, o, "abort"))
    finally:
        t.close()


# ------------------------------------------------------------------------------------------ counters (nsim)
def nsim_counters(ctx, rng, n):
    from .c11 import dyndep_scenario
    jobs = []
    for k in range(n):
        if rng.random() < 0.35:
            sc = dyndep_scenario(rng, "C20n-%d-%d" % (ctx.seed, k))
        else:
            g = gen.Gen(random.Random(rng.randint(0, 2 ** 60)), size=rng.randint(2, 8), feat=dict(restat=0.4, chain=0.7, pools=0.3, console=0.15, vals=0.2))
            sc = g.scenario("C20n-%d-%d" % (ctx.seed, k))
        steps = []
        b = {"op": "build", "targets": [], "j": rng.choice((1, 2, 3, 8)), "k": rng.choice((1, 0)), "status_tap": True,
             "sched": {"mode": "prng", "seed": rng.randint(1, 99999)}, "snap": False}
        steps.append(b)
        srcs = sorted(sc["sources"])
        for _ in range(rng.randint(1, 3)):
            steps.append({"op": "touch", "path": rng.choice(srcs)})
        b2 = dict(b, sched={"mode": "prng", "seed": rng.randint(1, 99999)})
        if rng.random() < 0.3:
            cmds = [s for s in sc["stmts"] if s["kind"] != "phony"]
            b2["faults"] = {rng.choice(cmds)["outs"][0]: {"exit": 2, "touch": False}}
        steps.append(b2)
        jobs.append(simlib.scenario_json(sc, steps))
    res = {}

    def handler(scn, results, err):
        res[scn["id"]] = results
    simlib.run_scenarios(jobs, handler)
    for scn in jobs:
        for r in res.get(scn["id"]) or []:
            if r.get("op") != "build" or "trace" not in r:
                continue
            t = r["trace"]
            if t.get("crash"):
                sig = util.san_signature(t.get("stderr", "")) or "crash"
                ctx.violation("C20/nsim-crash/" + sig, "%s: %s" % (scn["id"], t.get("stderr", "")[-1200:]), {"scenario": scn})
                break
            ctx.evaluations += 1
            started, finished = [], []
            last = None
            tots = set()
            ok = True
            for ev in t["events"]:
                if ev["e"] != "ST":
                    continue
                s, f, tt, rr, u = (int(x) for x in ev["prog"].split("/"))
                if ev["call"] == "bfinish":
                    # the build is over and nothing is reported any more: the object is at rest (since 8488d8b it forgets the
                    # finished plan's total here); "finished equals total" is judged on the last sample of the build itself
                    ctx.count("status_samples_after_build_finished")
                    continue
                tots.add(tt)
                ctx.count("status_samples")
                if not (f <= s <= tt) or rr != s - f or u != tt - s:
                    ctx.violation("C20/counter-inconsistent", "%s after %s(%s): started/finished/total/running/unstarted = %s" %
                                  (scn["id"], ev["call"], ev.get("o"), ev["prog"]), {"scenario": scn})
                    ok = False
                    break
                if ev["call"] == "started":
                    started.append(ev.get("o"))
                if ev["call"] == "finished":
                    finished.append(ev.get("o"))
                last = (s, f, tt)
            if not ok:
                break
            res_ = t["result"]
            interrupted = res_.get("exit") == 130
            if sorted(started) != sorted(finished) and not interrupted:
                ctx.violation("C20/started-without-finished", "%s: started %s finished %s" % (scn["id"], started, finished), {"scenario": scn})
                break
            if res_.get("exit") == 0 and res_.get("stage") == "build" and last and last[1] != last[2]:
                ctx.violation("C20/final-finished-not-total", "%s: after a successful build finished=%d total=%d" % (scn["id"], last[1], last[2]),
                              {"scenario": scn})
                break
            if len(tots) > 1:
                ctx.count("builds_with_changing_total")
                ctx.nontrivial((scn["id"], r["step"]))
            ctx.count("counter_traces_ok")


def run(ctx):
    quick = ctx.tier == "quick"
    rng = random.Random(ctx.seed * 2477 + 20)
    nsim_counters(ctx, rng, 1500 if quick else 30000)
    seeds = [rng.randint(1, 10 ** 9) for _ in range(250 if quick else 6000)]
    from .c07 import safe
    e2e.parallel(lambda s: safe(ctx, e2e_case, ctx, s), seeds)
    aseeds = [rng.randint(1, 10 ** 9) for _ in range(24 if quick else 400)]
    e2e.parallel(lambda s: safe(ctx, abort_case, ctx, s), aseeds)
    ctx.rule = ("%d e2e scenarios of 2..7 commands with 0..5 tagged stdout/stderr chunks each (pipe or pty; default, NINJA_STATUS and --status formats with every printed counter parsed back; "
                "-j 1..8, failures, restat, console pool) + %d nsim builds with the status tap; distinct_nontrivial = distinct (scenario, "
                "command) output blocks located and verified + builds whose total changed mid-build" % (len(seeds), 1500 if quick else 30000))


def replay(ctx, path):
    j = json.load(open(path))["replay"]
    if "seed" in j and "mode" in j:
        e2e_case(ctx, j["seed"])
    else:
        run(ctx)
    ctx.distinct_extra += 2
