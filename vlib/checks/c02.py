"""C02 via the shared incremental-history engine (vlib/incr.py)."""
from .. import incr, simlib

MANIFEST = dict(engine="nsim+e2e", category="exploration", technique='runtime monitoring: nsim traces; oracle = zero START events on immediate re-run',
                text='(Round 12: real-binary runs with a manifest-regenerating statement that has sibling outputs - configure writes build.ninja and config.h, write-if-changed - whose input changes so that only the sibling changes.) Plus real-binary runs (ASan+UBSan ninja, vtool commands) of projects with dyndep-provided outputs whose build log is due for recompaction: an unchanged tree stays "no work to do". Same workload as C01; after every successful build the same targets are built again once or twice in fresh invocations. Oracle: no START event and AlreadyUpToDate() (the documented always-dirty phony case is judged separately).',
                note="Trusted: nsim mirrors real_main's rebuild loop; the literal 'ninja: no work to do.' line of the real binary is checked in the e2e runs of C19.", ref="DESIGN.md §5 C02, §10.5 round 6")


def setup():
    simlib.nsim_bin()
    from .. import e2e
    e2e.ninja_bin()
    e2e.vtool_bin()


def run(ctx):
    quick = ctx.tier == "quick"
    n = 3000 if quick else 30000
    incr.run_incremental(ctx, "C02", n, size_range=(3, 9) if quick else (3, 14))
    # restat / order-only focused family
    incr.run_incremental(ctx, "C02", n // 3, salt=1, size_range=(3, 7),
                         feat=dict(restat=0.55, order_only=0.7, deps=0.6, generator=0.1, phony=0.35),
                         change_kinds=["touch", "touch", "edit", "edit_hdr", "rm_out", "cmd", "rm_depfile"])
    # dyndep-heavy family: every graph has a dyndep file that is regenerated whenever its sources are touched, restat flags that
    # come from it, aliases behind the served statements, several changes per round
    incr.run_incremental(ctx, "C02", n // 6, salt=3, size_range=(2, 5),
                         feat=dict(dyndep=1.0, restat=0.3, phony=0.2, deps=0.3, generator=0.0, chain=0.8),
                         change_kinds=["touch", "touch", "touch", "edit", "edit_hdr"], nchg_choices=(1, 2, 2, 3),
                         allow_faults=False, allow_interrupt=False, allow_edit_running=False)
    incr.run_dd_restat(ctx, "C02", n // 10)
    incr.run_dd_deps(ctx, "C02", n // 8)
    incr.run_dd_behind_clean(ctx, "C02", n // 12)
    incr.run_late_deps(ctx, "C02", n // 6)
    # self-regenerating manifests: build.ninja is a generator output selected by a config file
    incr.run_regen(ctx, "C02", n // 10, size_range=(2, 6))
    # the real binary: build-log recompaction at start-up (NinjaMain::IsPathDead is not part of the simulator) over projects with
    # dyndep-provided outputs; an unchanged tree stays "no work to do" whatever the logs' length
    from .. import e2e
    e2e.recompaction_scenarios(ctx, "C02", 40 if quick else 800)
    # the real manifest-regeneration loop (ninja.cc) with a regenerating statement that has sibling outputs
    e2e.regen_sibling_scenarios(ctx, "C02", 24 if quick else 400)
    ctx.rule = ("seeded random graphs of 3..%d statements x histories of 2..5 change+build rounds (plus immediate re-runs), plus histories in which ninja regenerates and reloads its own manifest; "
                "distinct_nontrivial = distinct (scenario, build step) pairs judged by this property's monitor that follow at "
                "least one change" % (9 if quick else 14))
    ctx.assumptions = ["commands are deterministic functions of what they read at START and write only declared outputs",
                       "every undeclared read is reported through depfile/deps", "mtimes never go backwards (logical clock)"]


def replay(ctx, path):
    incr.replay(ctx, "C02", path)
