"""The make-semantics reference model (DESIGN Appendix B).  Independent of ninja's State/Plan: it is
computed from the scenario description, the files on the (virtual) disk and the START/FINISH events
that were observed.  Used for clean(f), closure(T), R(T) and the ordering constraints."""
from .simlib import (directives, cmd_string, rsp_string, follows, all_outs, output_content, dyndep_text, direct_reads)


class Invalid(Exception):
    """scenario outside the stated assumptions (cycle, unproducible include...) -> skipped, counted"""


class Graph:
    """Effective graph of a scenario for given source contents (dyndep information taken from the
    *clean* dyndep files, i.e. from the sources they are derived from)."""

    def __init__(self, sc, sources, unloaded=()):
        """unloaded: dyndep files whose information is to be left out of this view of the graph"""
        self.sc = sc
        self.sources = sources
        self.by_id = {s["id"]: s for s in sc["stmts"]}
        self.producer = {}
        self.dd_iins, self.dd_outs, self.dd_restat = {}, {}, {}
        for s in sc["stmts"]:
            for o in all_outs(s):
                self.producer[o] = s
        # dyndep information: what the (clean) dyndep file says about each statement it serves
        by_out0 = {s["outs"][0]: s for s in sc["stmts"]}
        for s in sc["stmts"]:
            if s["kind"] != "scan" or (set(all_outs(s)) & set(unloaded)):
                continue
            for out0, src in s["serves"]:
                t = by_out0.get(out0)
                if t is None or t["dyndep"] not in all_outs(s):      # (the dyndep file may be a further output of its producer)
                    continue
                c = sources.get(src, "")
                self.dd_iins[t["id"]] = directives(c, "#include")
                self.dd_outs[t["id"]] = directives(c, "#provides")
                self.dd_restat[t["id"]] = bool(directives(c, "#ddrestat"))
                for o in self.dd_outs[t["id"]]:
                    self.producer[o] = t

    def outs(self, s):
        return all_outs(s) + self.dd_outs.get(s["id"], [])

    def restat(self, s):
        return s["restat"] or self.dd_restat.get(s["id"], False)

    def decl_inputs(self, s):
        """non-order-only inputs known from manifest + dyndep"""
        return s["ins"] + s["iins"] + self.dd_iins.get(s["id"], [])

    def all_inputs(self, s):
        return self.decl_inputs(s) + s["oins"]

    # ---- clean evaluation
    def clean(self):
        """-> (files {path: content} of a from-scratch build of everything, reads {sid: [paths]})"""
        files = dict(self.sources)
        reads_of = {}
        state = {}

        def need(f, stack):
            if f in files:
                return True
            p = self.producer.get(f)
            if p is None:
                return False
            run(p, stack)
            return f in files

        def run(s, stack):
            sid = s["id"]
            if state.get(sid) == 2:
                return
            if state.get(sid) == 1:
                raise Invalid("cycle through " + sid)
            state[sid] = 1
            stack = stack + [sid]
            for f in self.all_inputs(s):
                if not need(f, stack) and self.producer.get(f) is None and s["kind"] != "phony":
                    if f in s["oins"]:
                        continue
                    raise Invalid("missing source %s for %s" % (f, sid))
            if s["kind"] == "phony":
                state[sid] = 2
                return
            reads, seen = [], set()
            fol = follows(s) and s["kind"] != "scan"

            def rd(p):
                if p in seen:
                    return
                seen.add(p)
                if not need(p, stack):
                    raise Invalid("unreadable %s for %s" % (p, sid))
                reads.append((p, files[p]))
                if fol:
                    for inc in directives(files[p], "#include"):
                        rd(inc)
                    for inc in directives(files[p], "#maybe"):      # read only if it exists (sources only)
                        if inc in files:
                            rd(inc)
            for p in direct_reads(self.sc, s):
                rd(p)
            reads_of[sid] = [p for p, _ in reads]
            for o in self.outs(s):
                if s["kind"] == "scan":
                    files[o] = dyndep_text(s, files)
                elif s["kind"] == "regen":
                    cfg = files.get(s["regen_from"], "")
                    files[o] = s["regen"].get(cfg, files.get(o, self.sources.get(o, "")))
                else:
                    files[o] = output_content(s, o, reads)
            state[sid] = 2

        for s in self.sc["stmts"]:
            run(s, [])
        return files, reads_of

    # ---- closure
    def closure(self, targets, extra_inputs=None, unloaded=()):
        """statement ids reachable from the target paths through inputs of every kind, validations of
        reached statements and (extra_inputs: sid -> [paths]) recorded discoveries.  `unloaded`: dyndep
        files whose information never becomes available (their producer failed): what they would have
        said about the statements they serve is not followed."""
        extra_inputs = extra_inputs or {}
        seen, order = set(), []
        work = list(targets)
        donef = set()
        while work:
            f = work.pop()
            if f in donef:
                continue
            donef.add(f)
            s = self.producer.get(f)
            if s is None or s["id"] in seen:
                continue
            seen.add(s["id"])
            order.append(s["id"])
            if s["dyndep"] and s["dyndep"] in unloaded:
                work += s["ins"] + s["iins"] + s["oins"] + s["vals"] + list(extra_inputs.get(s["id"], []))
            else:
                work += self.all_inputs(s) + s["vals"] + list(extra_inputs.get(s["id"], []))
            if s["dyndep"]:
                work.append(s["dyndep"])
        return seen

    def topo(self, sids, extra_inputs=None):
        extra_inputs = extra_inputs or {}
        order, state = [], {}

        def visit(sid):
            if state.get(sid) == 2:
                return
            if state.get(sid) == 1:
                raise Invalid("cycle")
            state[sid] = 1
            s = self.by_id[sid]
            for f in self.all_inputs(s) + list(extra_inputs.get(sid, [])):
                p = self.producer.get(f)
                if p is not None and p["id"] in sids and p["id"] != sid:
                    visit(p["id"])
            state[sid] = 2
            order.append(sid)
        for sid in sorted(sids):
            visit(sid)
        return order

    def expand_phony(self, f, seen=None):
        """files behind a path, looking through phony statements (non-order-only inputs only)"""
        seen = seen if seen is not None else set()
        if f in seen:
            return []
        seen.add(f)
        p = self.producer.get(f)
        if p is None or p["kind"] != "phony":
            return [f]
        r = [f]  # the alias itself may exist as a file
        for g in p["ins"] + p["iins"]:
            r += self.expand_phony(g, seen)
        return r


class Records:
    """What the model believes is durably recorded, keyed by output path (like ninja's logs)."""

    def __init__(self):
        self.log = {}    # out path -> dict(built_at, cmd, rsp)
        self.deps = {}   # out path -> [discovered paths]

    def copy(self):
        r = Records()
        r.log = {k: dict(v) for k, v in self.log.items()}
        r.deps = {k: (v[0], list(v[1])) for k, v in self.deps.items()}
        return r

    def observe_build(self, graph, events, world_after=None):
        """update from one invocation's START/FINISH events"""
        starts = {}
        last_lock = None
        for ev in events:
            if ev.get("e") == "W" and ev["p"].endswith(".ninja_lock"):
                last_lock = ev["t"]
            if ev.get("e") == "S":
                ev = dict(ev)
                if last_lock is not None:
                    ev["t"] = last_lock       # the recorded start time is the lock file's mtime
                starts[ev["o"]] = ev
            elif ev.get("e") == "F" and ev.get("status") == 0:
                st = graph.producer.get(ev["o"])
                s_ev = starts.get(ev["o"])
                if st is None or s_ev is None:
                    continue
                for o in graph.outs(st):
                    self.log[o] = {"built_at": s_ev["t"], "cmd": s_ev["cmd"], "rsp": s_ev.get("rsp") or ""}
                if st["deps"] in ("gcc", "msvc"):
                    direct = set(st["ins"] + st["iins"]) if st["deps"] == "msvc" else set()
                    disc = [p for p, _ in s_ev["reads"] if p not in direct]
                    for o in graph.outs(st):
                        mt = world_after[o][0] if world_after and o in world_after else None
                        self.deps[o] = (mt, disc)

    def drop_log(self):
        self.log = {}

    def drop_deps(self):
        self.deps = {}


def depfile_deps(c):
    """dependency names of a one-rule depfile as the simulated commands write them (GCC/Clang spelling: backslash-space,
    backslash-#, $$; backslash-newline continues the line)"""
    toks, cur, i, n = [], "", 0, len(c)
    while i < n:
        ch = c[i]
        if ch == "\\" and i + 1 < n and c[i + 1] == "\n":
            if cur:
                toks.append(cur)
            cur = ""
            i += 2
        elif ch == "\\" and i + 1 < n and c[i + 1] in " #":
            cur += c[i + 1]
            i += 2
        elif ch == "$" and i + 1 < n and c[i + 1] == "$":
            cur += "$"
            i += 2
        elif ch in " \t\r\n":
            if cur:
                toks.append(cur)
            cur = ""
            i += 1
        else:
            cur += ch
            i += 1
    if cur:
        toks.append(cur)
    for k, t in enumerate(toks):
        if t.endswith(":"):
            return [lexical_norm(x) for x in toks[k + 1:] if x != "\\"]
    return []


def lexical_norm(p):
    """the name a path spelling stands for ('.', empty and resolvable '..' components removed) - commands may report what they
    read under any spelling"""
    out = []
    for c in p.split("/"):
        if c in ("", "."):
            continue
        if c == ".." and out and out[-1] != "..":
            out.pop()
        else:
            out.append(c)
    return ("/" if p.startswith("/") else "") + "/".join(out) or "."


def discovered(graph, st, recs, world_files, world_mtimes=None):
    """recorded discoveries that currently count for statement st (or None if the record is missing)"""
    if st["deps"] in ("gcc", "msvc"):
        d = recs.deps.get(st["outs"][0])
        if d is None:
            return None
        # a deps record is only valid while the output is not newer than it
        cur = world_mtimes.get(st["outs"][0]) if world_mtimes is not None else None
        if d[0] is not None and cur is not None and cur > d[0]:
            return None
        return d[1]
    if st["deps"] == "depfile":
        c = world_files.get(st["depfile"])
        if c is None:
            return None
        return depfile_deps(c)
    return []


def expected_runs(graph, targets, world, recs, clean_files):
    """R(T): ids of the statements a fault-free build of `targets` must run, with reasons.
    world: {path: (mtime, content)}"""
    wfiles = {p: v[1] for p, v in world.items()}
    disc_of = {}
    for s in graph.sc["stmts"]:
        if s["kind"] == "phony":
            continue
        d = discovered(graph, s, recs, wfiles, {p: v[0] for p, v in world.items()})
        disc_of[s["id"]] = d
    extra = {sid: d for sid, d in disc_of.items() if d}
    C = graph.closure(targets, extra)
    order = graph.topo(C, extra)
    runs, rewritten, reasons = {}, {}, {}
    sim = dict(wfiles)
    for sid in order:
        s = graph.by_id[sid]
        if s["kind"] == "phony":
            # documented always-dirty case: phony without inputs whose file is missing
            if not s["ins"] and not s["iins"] and not s["oins"] and not s["vals"]:
                for o in s["outs"]:
                    if o not in world:
                        rewritten[o] = True
            continue
        why = []
        outs = graph.outs(s)
        if any(o not in world for o in outs):
            why.append("output-missing")
        rec = [recs.log.get(o) for o in outs]
        if not s["generator"]:
            if any(r is None for r in rec):
                why.append("no-log-record")
            elif any(r["cmd"] != cmd_string(s) or r["rsp"] != rsp_string(s) for r in rec):
                why.append("command-changed")
        disc = disc_of.get(sid)
        if disc is None:
            why.append("discovery-record-missing")
            disc = []
        # the time an input must be newer than to make s out of date: the recorded start time, or (no
        # record: generators only get here clean) the oldest output itself
        out_mt = min([world[o][0] for o in outs if o in world] or [None])
        if all(r is not None for r in rec):
            built_at = min(r["built_at"] for r in rec)
            if not graph.restat(s) and out_mt is not None:
                built_at = min(built_at, out_mt)
        else:
            built_at = out_mt
        inputs = []
        for f in graph.decl_inputs(s) + list(disc):
            inputs += graph.expand_phony(f)
        for f in dict.fromkeys(inputs):
            p = graph.producer.get(f)
            if p is not None and p["kind"] == "phony":
                if rewritten.get(f):
                    why.append("phony-always-dirty:" + f)
                if f not in world:
                    continue
                p = None
            if p is not None and runs.get(p["id"]) and rewritten.get(f, True):
                why.append("input-rewritten:" + f)
            else:
                # untouched by this build (its producer does not run, or is a restat command that
                # leaves it alone): its own age decides
                if f not in world:
                    if p is None and f in graph.decl_inputs(s):
                        raise Invalid("declared source %s missing" % f)
                    why.append("input-missing:" + f)
                elif built_at is not None and world[f][0] > built_at:
                    why.append("input-newer:" + f)
        runs[sid] = bool(why)
        reasons[sid] = why
        if why:
            # forward simulation of the command on the files as they are at this point of the build
            # (not assuming they are clean: a known finding may have left foreign content behind)
            newc = _simulate(graph, s, sim)
            for o in outs:
                c = newc.get(o, clean_files.get(o))
                if not graph.restat(s) or s.get("early"):
                    rewritten[o] = True       # (a command that starts writing in place right away rewrites whatever it ends up with)
                else:
                    rewritten[o] = (o not in world) or (sim.get(o) != c)
                if c is not None:
                    sim[o] = c
    return {sid for sid, r in runs.items() if r}, reasons


def _simulate(graph, s, files):
    """contents the command of s would write given `files` ({} if it cannot read its inputs)"""
    reads, seen = [], set()
    fol = follows(s) and s["kind"] != "scan"

    def rd(p):
        if p in seen:
            return True
        seen.add(p)
        if p not in files:
            return False
        reads.append((p, files[p]))
        if fol:
            for inc in directives(files[p], "#include"):
                if not rd(inc):
                    return False
            for inc in directives(files[p], "#maybe"):
                if inc in files and not rd(inc):
                    return False
        return True
    for p in direct_reads(graph.sc, s):
        if not rd(p):
            return {}
    out = {}
    for o in graph.outs(s):
        if s["kind"] == "scan":
            out[o] = dyndep_text(s, files)
        elif s["kind"] == "regen":
            out[o] = s["regen"].get(files.get(s["regen_from"], ""), files.get(o, ""))
        else:
            out[o] = output_content(s, o, reads)
    return out


def ordering_constraints(graph, sids, extra_inputs=None):
    """pairs (producer_sid, consumer_sid): the consumer may only START after the producer FINISHed
    (if the producer runs at all). Looks through phony statements."""
    extra_inputs = extra_inputs or {}
    pairs = set()

    def prods(f, seen):
        p = graph.producer.get(f)
        if p is None or f in seen:
            return []
        seen.add(f)
        if p["kind"] == "phony":
            r = []
            for g in graph.all_inputs(p):
                r += prods(g, seen)
            return r
        return [p["id"]]
    for sid in sids:
        s = graph.by_id[sid]
        if s["kind"] == "phony":
            continue
        for f in graph.all_inputs(s) + list(extra_inputs.get(sid, [])):
            for p in prods(f, set()):
                if p != sid:
                    pairs.add((p, sid))
    return pairs
