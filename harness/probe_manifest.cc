// nprobe manifest-dump: C12.  stdin: one program per line "namehex:contenthex,namehex:contenthex,..."
// (first file is the main manifest).  stdout: one JSON object per line with the graph ninja built.
#include <stdio.h>
#include <iostream>
#include <map>
#include <sstream>
#include <string>
#include "disk_interface.h"
#include "graph.h"
#include "manifest_parser.h"
#include "state.h"
#include "nprobe.h"
#include "vjson.h"

struct ProbeExit { int code; };
static bool g_in_eval = false;
extern "C" void __real_exit(int);
extern "C" void __wrap_exit(int code) {
  if (g_in_eval) throw ProbeExit{code};
  __real_exit(code);
}

namespace {
std::string Unhex(const std::string& h) {
  std::string r;
  auto v = [](char c) { return c <= '9' ? c - '0' : c - 'a' + 10; };
  for (size_t i = 0; i + 1 < h.size(); i += 2) r += (char)(v(h[i]) * 16 + v(h[i + 1]));
  return r;
}
struct MemReader : public FileReader {
  std::map<std::string, std::string> files;
  Status ReadFile(const std::string& path, std::string* contents, std::string* err) override {
    auto i = files.find(path);
    if (i == files.end()) { *err = "No such file or directory"; return NotFound; }
    *contents = i->second;
    return Okay;
  }
};
JV Paths(std::vector<Node*>::const_iterator b, std::vector<Node*>::const_iterator e) {
  JV a = JV::Arr();
  for (; b != e; ++b) a.push((*b)->path());
  return a;
}
}  // namespace

static int probe_manifest(int, char**) {
  std::string line;
  std::ios::sync_with_stdio(false);
  while (std::getline(std::cin, line)) {
    MemReader r;
    std::string main;
    std::stringstream ss(line);
    std::string item;
    while (std::getline(ss, item, ',')) {
      size_t c = item.find(':');
      std::string name = Unhex(item.substr(0, c));
      if (main.empty()) main = name;
      r.files[name] = Unhex(item.substr(c + 1));
    }
    State state;
    ManifestParserOptions opts;
    ManifestParser parser(&state, &r, opts);
    std::string err;
    JV out = JV::Obj();
    g_in_eval = true;
    try {
    if (!parser.Load(main, &err)) {
      out.set("ok", false);
      out.set("err", err);
      puts(out.Dump().c_str());
      g_in_eval = false;
      continue;
    }
    out.set("ok", true);
    JV edges = JV::Arr();
    for (Edge* e : state.edges_) {
      JV j = JV::Obj();
      size_t no = e->outputs_.size() - e->implicit_outs_;
      j.set("outs", Paths(e->outputs_.begin(), e->outputs_.begin() + no));
      j.set("iouts", Paths(e->outputs_.begin() + no, e->outputs_.end()));
      size_t ni = e->inputs_.size() - e->implicit_deps_ - e->order_only_deps_;
      bool sane = e->implicit_deps_ >= 0 && e->order_only_deps_ >= 0 && (size_t)(e->implicit_deps_ + e->order_only_deps_) <= e->inputs_.size();
      j.set("counts_sane", sane);
      if (sane) {
        j.set("ins", Paths(e->inputs_.begin(), e->inputs_.begin() + ni));
        j.set("iins", Paths(e->inputs_.begin() + ni, e->inputs_.end() - e->order_only_deps_));
        j.set("oins", Paths(e->inputs_.end() - e->order_only_deps_, e->inputs_.end()));
      } else {
        j.set("all_inputs", Paths(e->inputs_.begin(), e->inputs_.end()));
        j.set("implicit_deps", e->implicit_deps_); j.set("order_only_deps", e->order_only_deps_);
      }
      j.set("vals", Paths(e->validations_.begin(), e->validations_.end()));
      j.set("rule", e->rule().name());
      j.set("pool", e->pool() ? e->pool()->name() : "");
      if (sane) {
        j.set("command", e->EvaluateCommand());
        j.set("description", e->GetBinding("description"));
      }
      j.set("depfile", e->GetUnescapedDepfile());
      j.set("rspfile", e->GetUnescapedRspfile());
      j.set("rspfile_content", e->GetBinding("rspfile_content"));
      j.set("deps", e->GetBinding("deps"));
      j.set("dyndep", e->dyndep_ ? e->dyndep_->path() : "");
      j.set("restat", e->GetBindingBool("restat"));
      j.set("generator", e->GetBindingBool("generator"));
      edges.push(std::move(j));
    }
    out.set("edges", std::move(edges));
    JV pools = JV::Obj();
    for (auto& kv : state.pools_)
      if (!kv.first.empty() && kv.first != "console") pools.set(kv.first, kv.second->depth());
    out.set("pools", std::move(pools));
    JV defs = JV::Arr();
    for (Node* n : state.defaults_) defs.push(n->path());
    out.set("defaults", std::move(defs));
    puts(out.Dump().c_str());
    } catch (const ProbeExit& pe) {
      JV o2 = JV::Obj();
      o2.set("ok", false); o2.set("err", "fatal: ninja called exit(" + std::to_string(pe.code) + ")"); o2.set("fatal", true);
      puts(o2.Dump().c_str());
    }
    g_in_eval = false;
    fflush(stdout);
  }
  return 0;
}
REGISTER_PROBE("manifest-dump", probe_manifest);
