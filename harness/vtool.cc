// vtool: the command that e2e scenarios run under the real ninja (DESIGN 2.2).  Same "pure function of
// what it read at start" semantics as nsim's SimRunner, plus an append-only event log, sleeps, handshake
// files, early / atomic output writing, chosen exit codes and tagged output chunks.
//
// vtool --log F --id ID --key 'text' [--follow] [--reads a b ..] [--outs x y ..] [--depfile d] [--msvc]
//       [--rsp r] [--restat] [--early] [--atomic] [--exit N] [--sleep-before MS] [--sleep-after MS]
//       [--wait-for PATH] [--announce PATH] [--say TEXT]... [--say-err TEXT]... [--chunk-delay MS]
//       [--fail-if-exists PATH] [--kill-self SIG] [--dyndep-for out0:src,...] [--pidfile PATH] [--ignore-signals]
#include <errno.h>
#include <fcntl.h>
#include <signal.h>
#include <stdint.h>
#include <stdio.h>
#include <stdlib.h>
#include <string.h>
#include <sys/stat.h>
#include <time.h>
#include <unistd.h>

#include <algorithm>
#include <fstream>
#include <set>
#include <sstream>
#include <string>
#include <vector>

static std::string g_log, g_id;

static double Now() {
  struct timespec ts; clock_gettime(CLOCK_MONOTONIC, &ts);
  return ts.tv_sec + ts.tv_nsec / 1e9;
}
static void Log(const char* what, const std::string& extra = "") {
  if (g_log.empty()) return;
  char buf[4096];
  int n = snprintf(buf, sizeof buf, "%s %s %.6f %d %s\n", what, g_id.c_str(), Now(), (int)getpid(), extra.c_str());
  int fd = open(g_log.c_str(), O_WRONLY | O_APPEND | O_CREAT, 0666);
  if (fd >= 0) { ssize_t r = write(fd, buf, n); (void)r; close(fd); }
}
static uint64_t Fnv(const std::string& s) {
  uint64_t h = 1469598103934665603ull;
  for (unsigned char c : s) { h ^= c; h *= 1099511628211ull; }
  return h;
}
static std::string HashHex(const std::string& s) {
  char b[20]; snprintf(b, sizeof b, "%016llx", (unsigned long long)Fnv(s)); return b;
}
static bool ReadFile(const std::string& p, std::string* out) {
  std::ifstream f(p, std::ios::binary);
  if (!f) return false;
  std::stringstream ss; ss << f.rdbuf(); *out = ss.str();
  return true;
}
static void MsSleep(int ms) { if (ms > 0) usleep(ms * 1000); }
static std::vector<std::string> Directives(const std::string& c, const std::string& key) {
  std::vector<std::string> r; std::istringstream is(c); std::string line, k = key + " ";
  while (std::getline(is, line)) {
    if (line.compare(0, k.size(), k) == 0) {
      std::string v = line.substr(k.size());
      while (!v.empty() && (v.back() == ' ' || v.back() == '\r')) v.pop_back();
      if (!v.empty()) r.push_back(v);
    } else if (line == key) r.push_back("");
  }
  return r;
}
static bool WriteFileMode(const std::string& p, const std::string& c, bool atomic) {
  std::string target = atomic ? p + ".vtmp" : p;
  int fd = open(target.c_str(), O_WRONLY | O_CREAT | O_TRUNC, 0666);
  if (fd < 0) return false;
  size_t off = 0;
  while (off < c.size()) { ssize_t n = write(fd, c.data() + off, c.size() - off); if (n <= 0) { close(fd); return false; } off += n; }
  close(fd);
  if (atomic && rename(target.c_str(), p.c_str()) != 0) return false;
  return true;
}

// "\0" -> NUL, "\e" -> ESC, "\n" -> newline (argv cannot carry NUL; keeps manifests printable)
static std::string Unescape(const std::string& in) {
  std::string r;
  for (size_t i = 0; i < in.size(); ++i) {
    if (in[i] == '\\' && i + 1 < in.size() && (in[i + 1] == '0' || in[i + 1] == 'e' || in[i + 1] == 'n')) {
      r.push_back(in[i + 1] == '0' ? '\0' : in[i + 1] == 'e' ? '\x1b' : '\n');
      ++i;
    } else r.push_back(in[i]);
  }
  return r;
}

static std::string Unhex(const std::string& h) {
  std::string r;
  if (h == "-") return r;
  auto v = [](char c) { return c <= '9' ? c - '0' : c - 'a' + 10; };
  for (size_t i = 0; i + 1 < h.size(); i += 2) r += (char)(v(h[i]) * 16 + v(h[i + 1]));
  return r;
}

int main(int argc, char** argv) {
  std::vector<std::string> reads, outs, says, says_err, dd_for;
  std::string say_big;
  std::string key, depfile, rsp, wait_for, announce, fail_if_exists, pidfile;
  bool follow = false, msvc = false, restat = false, early = false, atomic = false, nocmd = false, dd = false, keep_times = false;
  int exit_code = 0, sleep_before = 0, sleep_after = 0, chunk_delay = 0, kill_self = 0;
  std::vector<std::string>* cur = nullptr;
  for (int i = 1; i < argc; ++i) {
    std::string a = argv[i];
    auto next = [&]() { return std::string(i + 1 < argc ? argv[++i] : ""); };
    if (a == "--log") { g_log = next(); cur = nullptr; }
    else if (a == "--id") { g_id = next(); cur = nullptr; }
    else if (a == "--key") { key = next(); cur = nullptr; }
    else if (a == "--follow") { follow = true; cur = nullptr; }
    else if (a == "--nocmd") { nocmd = true; cur = nullptr; }
    else if (a == "--dd") { dd = true; cur = nullptr; }
    else if (a == "--reads") cur = &reads;
    else if (a == "--outs") cur = &outs;
    else if (a == "--depfile") { depfile = next(); cur = nullptr; }
    else if (a == "--msvc") { msvc = true; cur = nullptr; }
    else if (a == "--rsp") { rsp = next(); cur = nullptr; }
    else if (a == "--restat") { restat = true; cur = nullptr; }
    else if (a == "--early") { early = true; cur = nullptr; }
    else if (a == "--atomic") { atomic = true; cur = nullptr; }
    else if (a == "--keep-times") { keep_times = true; cur = nullptr; }   // like cp -p / install -p / touch -r: outputs carry the time of the newest file read
    else if (a == "--exit") { exit_code = atoi(next().c_str()); cur = nullptr; }
    else if (a == "--sleep-before") { sleep_before = atoi(next().c_str()); cur = nullptr; }
    else if (a == "--sleep-after") { sleep_after = atoi(next().c_str()); cur = nullptr; }
    else if (a == "--chunk-delay") { chunk_delay = atoi(next().c_str()); cur = nullptr; }
    else if (a == "--wait-for") { wait_for = next(); cur = nullptr; }
    else if (a == "--announce") { announce = next(); cur = nullptr; }
    else if (a == "--fail-if-exists") { fail_if_exists = next(); cur = nullptr; }
    else if (a == "--kill-self") { kill_self = atoi(next().c_str()); cur = nullptr; }
    else if (a == "--pidfile") { pidfile = next(); cur = nullptr; }
    else if (a == "--ignore-signals") {       // a tool that finishes what it is doing whatever the terminal sends
      signal(SIGINT, SIG_IGN); signal(SIGTERM, SIG_IGN); signal(SIGHUP, SIG_IGN); cur = nullptr;
    }
    else if (a == "--say-hex") { says.push_back(Unhex(next())); cur = nullptr; }
    else if (a == "--say-err-hex") { says_err.push_back(Unhex(next())); cur = nullptr; }
    else if (a == "--say-big") { say_big = next(); cur = nullptr; }     // TAG:NLINES, one write() right before the end
    else if (a == "--say") { says.push_back(Unescape(next())); cur = nullptr; }
    else if (a == "--say-err") { says_err.push_back(Unescape(next())); cur = nullptr; }
    else if (a == "--dyndep-for") { cur = &dd_for; }
    else if (cur) cur->push_back(a);
  }
  if (!pidfile.empty()) { char b[32]; snprintf(b, sizeof b, "%d\n", (int)getpid()); WriteFileMode(pidfile, b, false); }
  Log("S");
  MsSleep(sleep_before);
  // ---- read phase
  std::vector<std::pair<std::string, std::string>> rd;
  std::set<std::string> seen;
  std::string missing;
  std::vector<std::string> work(reads.rbegin(), reads.rend());
  std::vector<std::string> order;
  // depth-first in declaration order, like nsim
  struct R { static void go(const std::string& p, bool follow, std::set<std::string>* seen,
                            std::vector<std::pair<std::string, std::string>>* rd, std::string* missing) {
    if (!seen->insert(p).second) return;
    std::string c;
    if (!ReadFile(p, &c)) { if (missing->empty()) *missing = p; return; }
    rd->emplace_back(p, c);
    if (follow) {
      for (auto& inc : Directives(c, "#include")) go(inc, follow, seen, rd, missing);
      for (auto& inc : Directives(c, "#maybe")) { std::string c2; if (ReadFile(inc, &c2)) go(inc, follow, seen, rd, missing); }
    }
  } };
  for (auto& p : reads) R::go(p, follow, &seen, &rd, &missing);
  std::string rsp_content;
  if (!rsp.empty() && !ReadFile(rsp, &rsp_content) && missing.empty()) missing = rsp;
  std::string primary = reads.empty() ? "" : (rd.empty() ? "" : rd[0].second);
  std::string readlist;
  for (auto& pc : rd) readlist += pc.first + "=" + HashHex(pc.second) + ",";
  Log("R", readlist + (rsp.empty() ? "" : " rsp=" + HashHex(rsp_content)) + (missing.empty() ? "" : " missing=" + missing));
  struct timespec newest = {0, 0};
  for (auto& pc : rd) { struct stat sb; if (stat(pc.first.c_str(), &sb) == 0 && (sb.st_mtim.tv_sec > newest.tv_sec || (sb.st_mtim.tv_sec == newest.tv_sec && sb.st_mtim.tv_nsec > newest.tv_nsec))) newest = sb.st_mtim; }
  auto stamp = [&](const std::string& o) {
    if (!keep_times || newest.tv_sec == 0) return;
    struct timespec ts[2] = {newest, newest};
    utimensat(AT_FDCWD, o.c_str(), ts, 0);
  };
  if (!announce.empty()) WriteFileMode(announce, "running\n", false);
  if (early && missing.empty()) {
    for (auto& o : outs) { WriteFileMode(o, "partial:" + (outs.empty() ? "" : outs[0]), false); stamp(o); }
    if (!depfile.empty() && !msvc) WriteFileMode(depfile, (outs.empty() ? std::string("x") : outs[0]) + ": \\\n", false);
    Log("P");
  }
  if (!wait_for.empty()) {
    for (int k = 0; k < 60000; ++k) { struct stat st; if (stat(wait_for.c_str(), &st) == 0) break; usleep(1000); }
  }
  MsSleep(sleep_after);
  // ---- output text, in chunks
  for (size_t k = 0; k < std::max(says.size(), says_err.size()); ++k) {
    if (k < says.size()) { ssize_t r = write(1, says[k].data(), says[k].size()); (void)r; }
    if (k < says_err.size()) { ssize_t r = write(2, says_err[k].data(), says_err[k].size()); (void)r; }
    MsSleep(chunk_delay);
  }
  if (!say_big.empty()) {
    // a burst larger than one pipe read, written in one go just before the process ends
    size_t c = say_big.find(':');
    std::string tag = say_big.substr(0, c), burst;
    long nl = atol(say_big.substr(c + 1).c_str());
    char line[96];
    for (long i = 0; i < nl; ++i) { snprintf(line, sizeof line, "<<%s:B%06ld>>\n", tag.c_str(), i); burst += line; }
    size_t off = 0;
    while (off < burst.size()) { ssize_t r = write(1, burst.data() + off, burst.size() - off); if (r <= 0) break; off += r; }
  }
  if (kill_self) { Log("K"); kill(getpid(), kill_self); pause(); }
  int status = exit_code;
  if (!missing.empty()) { fprintf(stderr, "vtool: missing input %s\n", missing.c_str()); status = status ? status : 1; Log("E", "1 missing"); return status; }
  if (!fail_if_exists.empty()) { struct stat st; if (stat(fail_if_exists.c_str(), &st) == 0) status = status ? status : 1; }
  if (status != 0) { Log("E", std::to_string(status)); return status; }
  // ---- write phase
  std::sort(rd.begin(), rd.end());
  std::vector<std::string> all_outs = outs;
  if (dd) {
    for (auto& p : Directives(primary, "#provides")) all_outs.push_back(p);
    if (!Directives(primary, "#ddrestat").empty()) restat = true;
  }
  if (!dd_for.empty()) {
    // dyndep producer: out = dyndep text derived from the sources it serves
    std::string t = "ninja_dyndep_version = 1\n";
    for (auto& spec : dd_for) {
      size_t c = spec.find(':');
      std::string out0 = spec.substr(0, c), src = spec.substr(c + 1), sc;
      ReadFile(src, &sc);
      t += "build " + out0;
      auto prov = Directives(sc, "#provides");
      if (!prov.empty()) { t += " |"; for (auto& p : prov) t += " " + p; }
      t += ": dyndep";
      auto inc = Directives(sc, "#include");
      if (!inc.empty()) { t += " |"; for (auto& p : inc) t += " " + p; }
      t += "\n";
      if (!Directives(sc, "#ddrestat").empty()) t += "  restat = 1\n";
    }
    for (auto& o : outs) WriteFileMode(o, t, atomic);
  } else {
    for (auto& o : all_outs) {
      std::string k = o; k.push_back('\0'); if (!nocmd) k += key; k.push_back('\0'); if (!nocmd) k += rsp_content; k.push_back('\0');
      for (auto& pc : rd) {
        if (pc.second == "// hollow\n") continue;   // read and reported, but nothing in it reaches the output (simlib.HOLLOW)
        k += pc.first; k.push_back('\0'); k += pc.second; k.push_back('\0');
      }
      std::string c = "G" + HashHex(k);
      if (restat) { std::string old; if (ReadFile(o, &old) && old == c) continue; }
      if (!WriteFileMode(o, c, atomic)) { fprintf(stderr, "vtool: cannot write %s: %s\n", o.c_str(), strerror(errno)); Log("E", "1 write"); return 1; }
      stamp(o);
    }
  }
  if (!depfile.empty() && !msvc) {
    std::string d = (outs.empty() ? std::string("x") : outs[0]) + ":";
    // depfile lists what was read, in read order
    std::set<std::string> s2;
    std::vector<std::pair<std::string, std::string>> rd2;
    std::string m2;
    for (auto& p : reads) R::go(p, follow, &s2, &rd2, &m2);
    for (auto& pc : rd2) d += " " + pc.first;
    d += "\n";
    WriteFileMode(depfile, d, atomic);
  }
  if (msvc) {
    std::set<std::string> direct(reads.begin(), reads.end());
    for (auto& pc : rd) if (!direct.count(pc.first)) printf("Note: including file: %s\n", pc.first.c_str());
    fflush(stdout);
  }
  Log("E", "0");
  return 0;
}
