// nsim: in-process build simulator (DESIGN 2.1).  Real ManifestParser/State/DependencyScan/Plan/
// Builder/BuildLog/DepsLog/DyndepLoader/Cleaner/StatusPrinter; virtual disk, scripted command
// runner with controlled completion order, simulated jobserver.  One forked child per simulated
// ninja invocation.  Reads scenarios (JSON lines) on stdin, writes traces (JSON lines) on stdout.
// nsim is a recorder: it makes no judgement.
#include <errno.h>
#include <fcntl.h>
#include <signal.h>
#include <stdarg.h>
#include <stdio.h>
#include <string.h>
#include <sys/stat.h>
#include <sys/wait.h>
#include <unistd.h>

#include <algorithm>
#include <iostream>
#include <map>
#include <memory>
#include <set>
#include <sstream>
#include <string>
#include <vector>

#include "build.h"
#include "build_log.h"
#include "clean.h"
#include "deps_log.h"
#include "graph.h"
#include "manifest_parser.h"
#include "state.h"
#include "status.h"
#include "status_printer.h"
#include "util.h"
#include "metrics.h"
#include "debug_flags.h"

#include "vjson.h"
#include "vdisk.h"

namespace {

// ------------------------------------------------------------------------------ scenario
// the way a compiler spells a header it found through -I. , -Idir/.. or a doubled slash: same file, other spelling (chosen by
// a hash of the name so that a scenario is reproducible)
static std::string Respell(const std::string& p) {
  unsigned h = 2166136261u;
  for (unsigned char c : p) h = (h ^ c) * 16777619u;
  switch (h % 5) {
    case 0: return "./" + p;
    case 1: { size_t i = p.find('/'); return i == std::string::npos ? "./" + p : p.substr(0, i) + "//" + p.substr(i + 1); }
    case 2: return "zz/../" + p;
    case 3: { size_t i = p.rfind('/'); return i == std::string::npos ? ".//" + p : p.substr(0, i) + "/./" + p.substr(i + 1); }
    default: return p;
  }
}

// a file name as GCC/Clang spell it in a depfile: space -> backslash space, '#' -> backslash '#', '$' -> '$$'
// (identity for the plain names most scenarios use; the names generated never end in a backslash)
static std::string MkEsc(const std::string& p) {
  std::string o;
  for (char c : p) {
    if (c == ' ' || c == '#') o += '\\';
    if (c == '$') o += '$';
    o += c;
  }
  return o;
}

struct Stmt {
  std::string out0, kind = "cmd", deps = "none", depfile, rsp, says, primary;
  std::vector<std::string> outs, reads;
  bool follow = true, restat = false, early = false, dd = false, nocmd = false, respell = false, keep2 = false;
  std::vector<std::pair<std::string, std::string>> serves;  // (out0 of served stmt, its source)
  std::map<std::string, std::string> regen;                // config content -> manifest text
  std::string regen_from;
};

std::vector<std::string> StrList(const JV& v) {
  std::vector<std::string> r;
  for (auto& x : v.a) r.push_back(x.s);
  return r;
}

std::map<std::string, Stmt> ParseStmts(const JV& v) {
  std::map<std::string, Stmt> m;
  for (auto& kv : v.o) {
    Stmt s;
    const JV& j = kv.second;
    s.out0 = kv.first;
    s.kind = j.str("kind", "cmd");
    s.deps = j.str("deps", "none");
    s.depfile = j.str("depfile");
    s.rsp = j.str("rsp");
    s.says = j.str("says");
    s.outs = StrList(j.at("outs"));
    s.reads = StrList(j.at("reads"));
    s.primary = j.str("primary", s.reads.empty() ? "" : s.reads[0]);
    s.follow = j.boolean("follow", true);
    s.restat = j.boolean("restat");
    s.early = j.boolean("early");
    s.dd = j.boolean("dd");
    s.nocmd = j.boolean("nocmd");
    s.respell = j.boolean("respell");
    s.keep2 = j.boolean("keep2");       // a tool that rewrites its first output always and its further outputs only when they change
    for (auto& sv : j.at("serves").a) s.serves.emplace_back(sv.a[0].s, sv.a[1].s);
    for (auto& rv : j.at("regen").o) s.regen[rv.first] = rv.second.s;
    s.regen_from = j.str("regen_from");
    m[s.out0] = s;
  }
  return m;
}

std::vector<std::string> Directives(const std::string& content, const char* key) {
  std::vector<std::string> r;
  std::istringstream is(content);
  std::string line, k = std::string(key) + " ";
  while (std::getline(is, line)) {
    if (line.compare(0, k.size(), k) == 0) {
      std::string v = line.substr(k.size());
      while (!v.empty() && (v.back() == ' ' || v.back() == '\r')) v.pop_back();
      if (!v.empty()) r.push_back(v);
    } else if (line == key) {
      r.push_back("");
    }
  }
  return r;
}

uint64_t g_rng = 88172645463325252ull;
uint64_t Rnd() { g_rng ^= g_rng << 13; g_rng ^= g_rng >> 7; g_rng ^= g_rng << 17; return g_rng; }

// ------------------------------------------------------------------------------ jobserver
struct SimJobserver : public Jobserver::Client {
  int free_tokens = 0;        // explicit tokens currently in the pool
  bool implicit_free = true;  // the implicit slot
  int acquired = 0, released = 0, try_calls = 0;
  JV* events = nullptr;
  std::vector<int> thief;     // per wait point: delta applied to the pool (steal <0 / give back >0)
  int stolen = 0;
  void Ev(const char* op, bool ok, bool implicit) {
    JV e = JV::Obj();
    e.set("e", "TOK"); e.set("op", op); e.set("ok", ok); e.set("implicit", implicit);
    e.set("free", free_tokens); e.set("implicit_free", implicit_free);
    events->push(std::move(e));
  }
  Jobserver::Slot TryAcquire() override {
    ++try_calls;
    if (implicit_free) { implicit_free = false; ++acquired; Ev("acq", true, true); return Jobserver::Slot::CreateImplicit(); }
    if (free_tokens > 0) { --free_tokens; ++acquired; Ev("acq", true, false); return Jobserver::Slot::CreateExplicit('+'); }
    Ev("acq", false, false);
    return Jobserver::Slot();
  }
  void Release(Jobserver::Slot slot) override {
    if (!slot.IsValid()) return;
    ++released;
    if (slot.IsImplicit()) { implicit_free = true; Ev("rel", true, true); }
    else { ++free_tokens; Ev("rel", true, false); }
  }
  void ThiefStep(size_t wait_index) {
    if (wait_index >= thief.size()) {
      // after the script: give everything back so the build can always finish
      if (stolen > 0) { free_tokens += stolen; stolen = 0; ThiefEv(); }
      return;
    }
    int d = thief[wait_index];
    if (d < 0) { int k = std::min(-d, free_tokens); free_tokens -= k; stolen += k; if (k) ThiefEv(); }
    else if (d > 0) { int k = std::min(d, stolen); free_tokens += k; stolen -= k; if (k) ThiefEv(); }
  }
  void ThiefEv() {
    JV e = JV::Obj(); e.set("e", "THIEF"); e.set("free", free_tokens); e.set("stolen", stolen);
    events->push(std::move(e));
  }
};

// ------------------------------------------------------------------------------ runner
struct Fault { int exit = 1; bool touch = false; };
struct Edit { std::string after, path, content; std::string op; bool done = false; };

struct SimRunner : public CommandRunner {
  VDisk* disk;
  const std::map<std::string, Stmt>* stmts;
  JV* events;
  int parallelism = 1;
  SimJobserver* jobserver = nullptr;
  std::map<std::string, Fault> faults;
  std::vector<Edit> edits;
  std::vector<int> choices;
  bool prng_sched = false;
  int interrupt_at = -1;       // wait index at which Interrupted is returned
  std::string interrupt_via;   // "" = Interrupted{} ; "status" = a command reports exit 130
  std::string fail_start;      // out0 whose StartCommand returns false
  size_t wait_index = 0;
  int step_bound = 100000;
  bool last_was_token = false;
  int try_calls_at_token = 0;

  struct Running {
    Edge* edge; const Stmt* st; std::string out0, cmd, rsp_content;
    std::vector<std::pair<std::string, std::string>> read;   // (path, content) snapshot at START
    std::vector<std::string> missing;
    std::string primary_content;
    int seq;
  };
  std::vector<Running> running;
  std::set<std::string> started_once;
  int seq = 0;

  // load-limited capacity (-l): a scripted "room left under the load limit" per call, as RealCommandRunner computes it
  // from getloadavg(); like there, it may drop to nothing while commands run and is at least 1 when nothing runs
  std::vector<int> load_caps;
  mutable size_t load_calls = 0;
  size_t CanRunMore() const override {
    int64_t cap = (int64_t)parallelism - (int64_t)running.size();
    if (jobserver) cap = INT32_MAX;
    if (!load_caps.empty()) {
      int64_t lc = load_caps[load_calls++ % load_caps.size()];
      if (lc < cap) cap = lc;
    }
    if (cap < 0) cap = 0;
    if (cap == 0 && running.empty()) cap = 1;
    return (size_t)cap;
  }

  void ReadInto(Running* r, const std::string& path, bool follow, std::set<std::string>* seen) {
    if (!seen->insert(path).second) return;
    const VFile* f = disk->Get(path);
    if (!f) { r->missing.push_back(path); return; }
    r->read.emplace_back(path, f->content);
    if (follow) {
      for (auto& inc : Directives(f->content, "#include")) ReadInto(r, inc, follow, seen);
      // "#maybe x": read (and reported as a dependency) only if it exists, like __has_include or a wildcard
      for (auto& inc : Directives(f->content, "#maybe")) if (disk->Get(inc)) ReadInto(r, inc, follow, seen);
    }
  }

  bool StartCommand(Edge* edge) override {
    std::string out0 = edge->outputs_.empty() ? "" : edge->outputs_[0]->path();
    auto it = stmts->find(out0);
    JV ev = JV::Obj();
    ev.set("e", "S"); ev.set("o", out0); ev.set("t", disk->clock);
    ev.set("cmd", edge->EvaluateCommand());
    ev.set("pool", edge->pool() ? edge->pool()->name() : "");
    ev.set("console", edge->use_console());
    ev.set("twice", started_once.count(out0) > 0);
    started_once.insert(out0);
    if (it == stmts->end()) {
      ev.set("unknown", true);
      events->push(std::move(ev));
      return false;
    }
    if (out0 == fail_start) {
      ev.set("start_failed", true);
      events->push(std::move(ev));
      return false;
    }
    const Stmt& st = it->second;
    Running r;
    r.edge = edge; r.st = &st; r.out0 = out0; r.cmd = edge->EvaluateCommand(); r.seq = seq++;
    std::set<std::string> seen;
    for (auto& p : st.reads) ReadInto(&r, p, st.follow, &seen);
    if (!st.rsp.empty()) {
      const VFile* f = disk->Get(st.rsp);
      if (f) { r.rsp_content = f->content; ev.set("rsp", f->content); }
      else { r.missing.push_back(st.rsp); ev.set("rsp", JV()); }
    }
    if (const VFile* pf = disk->Get(st.primary)) r.primary_content = pf->content;
    JV reads = JV::Arr();
    for (auto& pc : r.read) { JV e = JV::Arr(); e.push(pc.first); e.push(HashHex(pc.second)); reads.push(std::move(e)); }
    ev.set("reads", std::move(reads));
    JV miss = JV::Arr();
    for (auto& m : r.missing) miss.push(m);
    ev.set("missing", std::move(miss));
    // directories of the outputs and of the depfile must exist (ninja's job, C04)
    JV nodirs = JV::Arr();
    for (auto& o : st.outs) if (!disk->DirExists(VDisk::Dir(o))) nodirs.push(o);
    if (!st.depfile.empty() && !disk->DirExists(VDisk::Dir(st.depfile))) nodirs.push(st.depfile);
    ev.set("nodirs", std::move(nodirs));
    JV run = JV::Arr();
    for (auto& x : running) run.push(x.out0);
    ev.set("running", std::move(run));
    events->push(std::move(ev));
    if (st.early && r.missing.empty()) {
      // a command that truncates / starts writing its outputs right away
      disk->actor = "cmd:" + out0;
      for (auto& o : st.outs) disk->Put(o, "partial:" + out0);
      if (!st.depfile.empty() && st.deps != "msvc") disk->Put(st.depfile, MkEsc(out0) + ": \\\n");
      disk->actor = "ninja";
    }
    running.push_back(std::move(r));
    return true;
  }

  std::string OutputContent(const Running& r, const std::string& o) {
    std::string key = o; key.push_back('\0'); if (!r.st->nocmd) key += r.cmd; key.push_back('\0'); if (!r.st->nocmd) key += r.rsp_content; key.push_back('\0');
    std::vector<std::pair<std::string, std::string>> rd = r.read;
    std::sort(rd.begin(), rd.end());
    for (auto& pc : rd) {
      if (pc.second == "// hollow\n") continue;   // read and reported, but nothing in it reaches the output (simlib.HOLLOW)
      key += pc.first; key.push_back('\0'); key += pc.second; key.push_back('\0');
    }
    return "G" + HashHex(key);
  }

  std::string DyndepText(const Running& r) {
    std::string t = "ninja_dyndep_version = 1\n";
    for (auto& sv : r.st->serves) {
      std::string src;
      for (auto& pc : r.read) if (pc.first == sv.second) src = pc.second;
      t += "build " + sv.first;
      auto prov = Directives(src, "#provides");
      if (!prov.empty()) { t += " |"; for (auto& p : prov) t += " " + p; }
      t += ": dyndep";
      auto inc = Directives(src, "#include");
      if (!inc.empty()) { t += " |"; for (auto& p : inc) t += " " + p; }
      t += "\n";
      if (!Directives(src, "#ddrestat").empty()) t += "  restat = 1\n";
    }
    return t;
  }

  BuildResult Finish(size_t idx, int forced_status = -1) {
    Running r = std::move(running[idx]);
    running.erase(running.begin() + idx);
    const Stmt& st = *r.st;
    int status = 0;
    std::string output = st.says;
    JV ev = JV::Obj();
    ev.set("e", "F"); ev.set("o", r.out0);
    JV wrote = JV::Arr(), kept = JV::Arr();
    disk->actor = "cmd:" + r.out0;
    auto f = faults.find(r.out0);
    if (forced_status >= 0) {
      status = forced_status;
    } else if (!r.missing.empty()) {
      status = 1;
      output += "sim: missing input " + r.missing[0] + "\n";
      ev.set("missing_input", r.missing[0]);
    } else if (f != faults.end()) {
      status = f->second.exit;
      if (f->second.touch)
        for (auto& o : st.outs) { disk->MkdirP(VDisk::Dir(o)); disk->Put(o, "partial:" + r.out0); wrote.push(o); }
      output += "sim: fault\n";
    } else {
      std::vector<std::string> outs = st.outs;
      if (st.dd) for (auto& p : Directives(r.primary_content, "#provides")) outs.push_back(p);
      for (auto& o : outs) {
        std::string c;
        if (st.kind == "scan") c = DyndepText(r);
        else if (st.kind == "regen") {
          std::string cfg;
          for (auto& pc : r.read) if (pc.first == st.regen_from) cfg = pc.second;
          auto g = st.regen.find(cfg);
          const VFile* cur = disk->Get(o);
          c = g != st.regen.end() ? g->second : (cur ? cur->content : "");
        } else c = OutputContent(r, o);
        const VFile* cur = disk->Get(o);
        // a command served by a dyndep file that declares it restat behaves like a restat command
        bool restat_like = st.restat || (st.dd && !Directives(r.primary_content, "#ddrestat").empty());
        if ((restat_like || (st.keep2 && o != st.outs[0])) && cur && cur->content == c) { kept.push(o); continue; }
        if (!disk->Put(o, c)) { status = 1; output += "sim: cannot write " + o + "\n"; ev.set("write_failed", o); break; }
        wrote.push(o);
      }
      if (status == 0 && (st.deps == "gcc" || st.deps == "depfile")) {
        std::string d = MkEsc(r.out0) + ":";
        for (auto& pc : r.read) d += " " + MkEsc(st.respell ? Respell(pc.first) : pc.first);
        d += "\n";
        if (!disk->Put(st.depfile, d)) { status = 1; output += "sim: cannot write depfile\n"; ev.set("write_failed", st.depfile); }
      }
      if (status == 0 && st.deps == "msvc") {
        std::string inc;
        std::set<std::string> direct(st.reads.begin(), st.reads.end());
        for (auto& pc : r.read) if (!direct.count(pc.first)) inc += "Note: including file: " + (st.respell ? Respell(pc.first) : pc.first) + "\n";
        output = inc + output;
      }
    }
    disk->actor = "ninja";
    ev.set("status", status); ev.set("wrote", std::move(wrote)); ev.set("kept", std::move(kept));
    events->push(std::move(ev));
    ExitStatus es = static_cast<ExitStatus>(status);
    return BuildResult::CommandCompleted(r.edge, es, output);
  }

  BuildResult WaitForCommand() override { return WaitForCommandOrJobserverToken(false); }

  BuildResult WaitForCommandOrJobserverToken(bool watch) override {
    size_t w = wait_index++;
    if (jobserver) jobserver->ThiefStep(w);
    // scripted edits "while the command runs"
    for (auto& e : edits) {
      if (e.done) continue;
      bool is_running = false;
      for (auto& r : running) if (r.out0 == e.after) is_running = true;
      if (!is_running) continue;
      e.done = true;
      disk->actor = "edit";
      if (e.op == "rm") disk->Del(e.path);
      else if (e.op == "touch") disk->Touch(e.path);
      else { disk->MkdirP(VDisk::Dir(e.path)); disk->Put(e.path, e.content); }
      disk->actor = "ninja";
    }
    JV ev = JV::Obj();
    ev.set("e", "WAIT"); ev.set("n", w); ev.set("watch", watch);
    JV run = JV::Arr();
    for (auto& x : running) run.push(x.out0);
    ev.set("running", std::move(run));
    if (jobserver) { ev.set("free", jobserver->free_tokens); ev.set("implicit_free", jobserver->implicit_free); }
    bool token_opt = watch && jobserver && (jobserver->free_tokens > 0 || jobserver->implicit_free);
    if (token_opt && last_was_token && jobserver->try_calls == try_calls_at_token) {
      // ninja was just told that a token is available and did not even try to take it (failure budget
      // spent): the real ppoll() would return at once again and again - a busy wait.  Not offered twice.
      token_opt = false;
      ev.set("spin", true);
    }
    size_t nopts = running.size() + (token_opt ? 1 : 0);
    ev.set("opts", nopts);
    if ((int)w >= step_bound) { ev.set("step_bound", true); events->push(std::move(ev)); return BuildResult::Interrupted{}; }
    if (running.empty()) {
      // the real runner would block in ppoll() forever
      ev.set("hang", true);
      events->push(std::move(ev));
      return BuildResult::Interrupted{};
    }
    if ((int)w == interrupt_at) {
      ev.set("interrupt", true);
      events->push(std::move(ev));
      if (interrupt_via == "status") return Finish(0, 130);
      return BuildResult::Interrupted{};
    }
    size_t pick = 0;
    if (w < choices.size()) pick = (size_t)choices[w] % nopts;
    else if (prng_sched) pick = Rnd() % nopts;
    ev.set("pick", pick);
    events->push(std::move(ev));
    if (pick >= running.size()) {
      last_was_token = true;
      try_calls_at_token = jobserver->try_calls;
      return BuildResult::JobserverTokenAvailable{};
    }
    last_was_token = false;
    return Finish(pick);
  }

  std::vector<Edge*> GetActiveEdges() override {
    std::vector<Edge*> v;
    for (auto& r : running) v.push_back(r.edge);
    return v;
  }
  void Abort() override {
    // mirrors RealCommandRunner::Abort(): give the tokens of the active edges back, kill them
    if (jobserver)
      for (auto& r : running) jobserver->Release(std::move(r.edge->job_slot_));
    JV ev = JV::Obj(); ev.set("e", "ABORT");
    JV run = JV::Arr();
    for (auto& x : running) run.push(x.out0);
    ev.set("killed", std::move(run));
    events->push(std::move(ev));
    running.clear();
  }
};

// ------------------------------------------------------------------------------ status tap
struct TapStatus : public Status {
  StatusPrinter* real; JV* events; bool sample;
  TapStatus(StatusPrinter* r, JV* e, bool s) : real(r), events(e), sample(s) {}
  void Ev(const char* call, const Edge* edge) {
    if (!sample) return;
    JV ev = JV::Obj();
    ev.set("e", "ST"); ev.set("call", call);
    if (edge && !edge->outputs_.empty()) ev.set("o", edge->outputs_[0]->path());
    ev.set("prog", real->FormatProgressStatus("%s/%f/%t/%r/%u", 0));
    events->push(std::move(ev));
  }
  void EdgeAddedToPlan(const Edge* e) override { real->EdgeAddedToPlan(e); Ev("added", e); }
  void EdgeRemovedFromPlan(const Edge* e) override { real->EdgeRemovedFromPlan(e); Ev("removed", e); }
  void BuildEdgeStarted(const Edge* e, int64_t t) override { real->BuildEdgeStarted(e, t); Ev("started", e); }
  void BuildEdgeFinished(Edge* e, int64_t s, int64_t en, ExitStatus c, const std::string& o) override {
    real->BuildEdgeFinished(e, s, en, c, o); Ev("finished", e);
  }
  void BuildStarted() override { real->BuildStarted(); Ev("bstart", nullptr); }
  void BuildFinished() override { real->BuildFinished(); Ev("bfinish", nullptr); }
  void SetExplanations(Explanations* x) override { real->SetExplanations(x); }
  void NewLine() override { real->NewLine(); }
  void Info(const char* msg, ...) override { va_list ap; va_start(ap, msg); char b[4096]; vsnprintf(b, sizeof b, msg, ap); va_end(ap); real->Info("%s", b); }
  void Warning(const char* msg, ...) override { va_list ap; va_start(ap, msg); char b[4096]; vsnprintf(b, sizeof b, msg, ap); va_end(ap); real->Warning("%s", b); }
  void Error(const char* msg, ...) override { va_list ap; va_start(ap, msg); char b[4096]; vsnprintf(b, sizeof b, msg, ap); va_end(ap); real->Error("%s", b); }
};

// ------------------------------------------------------------------------------ world
struct World {
  VDisk disk;
  std::map<std::string, Stmt> stmts;
  std::map<std::string, std::string> logs;   // real files of the build dir: name -> bytes
};

struct LogUser : public BuildLogUser {
  State* state; VDisk* disk;
  bool IsPathDead(StringPiece s) const override {
    Node* n = state->LookupNode(s);
    if (n && n->in_edge()) return false;
    std::string err;
    return disk->Stat(s.AsString(), &err) == 0;
  }
};

std::string ReadAll(const std::string& p, bool* ok = nullptr) {
  std::string d;
  FILE* f = fopen(p.c_str(), "rb");
  if (ok) *ok = f != nullptr;
  if (!f) return d;
  char buf[65536]; size_t n;
  while ((n = fread(buf, 1, sizeof buf, f)) > 0) d.append(buf, n);
  fclose(f);
  return d;
}
void WriteAll(const std::string& p, const std::string& d) {
  FILE* f = fopen(p.c_str(), "wb");
  if (!f) return;
  fwrite(d.data(), 1, d.size(), f);
  fclose(f);
}
void MkdirsReal(const std::string& d) {
  std::string acc; std::istringstream is(d); std::string part;
  while (std::getline(is, part, '/')) { if (part.empty()) continue; acc += (acc.empty() ? "" : "/") + part; mkdir(acc.c_str(), 0777); }
}
std::string HexS(const std::string& s) {
  static const char* d = "0123456789abcdef";
  std::string r;
  for (unsigned char c : s) { r += d[c >> 4]; r += d[c & 15]; }
  return r;
}

// Runs one simulated ninja invocation inside the (forked) child.  Mirrors real_main():
// parse, builddir, load logs, open for write, manifest-rebuild loop, RunBuild.
JV Invocation(World& w, const JV& step, const std::string& scratch) {
  // like real_main(): times in the build log are relative to the start of this invocation; the (pretended) start lies a
  // scenario-dependent while back, so that a command's end time is sometimes larger and sometimes smaller than the end
  // time an earlier invocation logged for the same output
  const int64_t invocation_start = GetTimeMillis() - (int64_t)((step.at("sched").num("seed", 1) * 7919 + step.num("j", 1) * 104729) % 5000);

  JV out = JV::Obj();
  JV events = JV::Arr();
  w.disk.events = &events;
  w.disk.actor = "ninja";
  const std::string op = step.str("op");
  BuildConfig config;
  config.parallelism = (int)step.num("j", 1);
  config.failures_allowed = (int)step.num("k", 1);
  if (config.failures_allowed == 0) config.failures_allowed = INT32_MAX;
  config.verbosity = step.boolean("verbose") ? BuildConfig::VERBOSE : BuildConfig::NORMAL;
  config.dry_run = step.boolean("dry");
  for (auto& p : step.at("disk_faults").at("stat_err").a) w.disk.stat_err.insert(p.s);
  for (auto& p : step.at("disk_faults").at("mkdir_fail").a) w.disk.mkdir_fail.insert(p.s);
  for (auto& p : step.at("disk_faults").at("stat_err_late").a) w.disk.stat_err_late.insert(p.s);
  for (auto& p : step.at("disk_faults").at("write_fail").a) w.disk.write_fail.insert(p.s);
  g_rng = 88172645463325252ull ^ ((uint64_t)step.at("sched").num("seed", 1) * 0x9E3779B97F4A7C15ull);
  if (!g_rng) g_rng = 1;

  g_explaining = step.boolean("explain");
  JV result = JV::Obj();
  std::string err;
  int cycles = 0;
  const int kCycleLimit = 20;
  bool done = false;
  std::string stage = "start";
  StatusPrinter* printer = new StatusPrinter(config);
  TapStatus* status = new TapStatus(printer, &events, step.boolean("status_tap"));
  for (int cycle = 1; cycle <= kCycleLimit && !done; ++cycle) {
    cycles = cycle;
    State* state = new State;   // leaked on purpose, like ninja
    ManifestParserOptions popts;
    if (step.boolean("phonycycle_err")) popts.phony_cycle_action_ = kPhonyCycleActionError;
    ManifestParser parser(state, &w.disk, popts);
    if (!parser.Load(step.str("manifest", "build.ninja"), &err)) {
      result.set("exit", 1); result.set("err", err); result.set("stage", "parse");
      break;
    }
    std::string build_dir = state->bindings_.LookupVariable("builddir");
    std::string log_path = ".ninja_log", deps_path = ".ninja_deps";
    if (!build_dir.empty()) {
      if (!config.dry_run) w.disk.MakeDirs(build_dir + "/.");
      MkdirsReal(build_dir);   // real directory (cwd = scratch) for the real log files
      log_path = build_dir + "/" + log_path; deps_path = build_dir + "/" + deps_path;
    }
    result.set("log_path", log_path); result.set("deps_path", deps_path);
    // materialise the log files of this world
    for (auto& kv : w.logs) {
      MkdirsReal(VDisk::Dir(kv.first));
      WriteAll(kv.first, kv.second);
    }
    w.logs.clear();
    BuildLog* build_log = new BuildLog;
    DepsLog* deps_log = new DepsLog;
    LogUser user; user.state = state; user.disk = &w.disk;
    JV warnings = JV::Arr();
    LoadStatus ls = build_log->Load(log_path, &err);
    if (ls == LOAD_ERROR) { result.set("exit", 1); result.set("err", "loading build log: " + err); result.set("stage", "load-log"); break; }
    if (!err.empty()) { warnings.push("log: " + err); err.clear(); }
    if (!config.dry_run && !build_log->OpenForWrite(log_path, user, &err)) {
      result.set("exit", 1); result.set("err", "opening build log: " + err); result.set("stage", "open-log"); break; }
    ls = deps_log->Load(deps_path, state, &err);
    if (ls == LOAD_ERROR) { result.set("exit", 1); result.set("err", "loading deps log: " + err); result.set("stage", "load-deps"); break; }
    if (!err.empty()) { warnings.push("deps: " + err); err.clear(); }
    if (!config.dry_run && !deps_log->OpenForWrite(deps_path, &err)) {
      result.set("exit", 1); result.set("err", "opening deps log: " + err); result.set("stage", "open-deps"); break; }
    result.set("warnings", std::move(warnings));

    auto make_runner = [&](Builder& b, SimJobserver** js_out) {
      SimRunner* r = new SimRunner;
      r->disk = &w.disk; r->stmts = &w.stmts; r->events = &events; r->parallelism = config.parallelism;
      for (auto& kv : step.at("faults").o) { Fault f; f.exit = (int)kv.second.num("exit", 1); f.touch = kv.second.boolean("touch"); r->faults[kv.first] = f; }
      for (auto& e : step.at("edits").a) { Edit ed; ed.after = e.str("after"); ed.path = e.str("path"); ed.content = e.str("content"); ed.op = e.str("op", "write"); r->edits.push_back(ed); }
      const JV& sched = step.at("sched");
      for (auto& c : sched.at("choices").a) r->choices.push_back((int)c.n);
      r->prng_sched = sched.str("mode", "prng") == "prng";
      r->interrupt_at = (int)step.num("interrupt_at", -1);
      for (auto& lc : step.at("load_caps").a) r->load_caps.push_back((int)lc.n);
      r->interrupt_via = step.str("interrupt_via");
      r->fail_start = step.str("fail_start");
      r->step_bound = (int)step.num("step_bound", 100000);
      if (!step.at("jobserver").is_null()) {
        SimJobserver* js = new SimJobserver;
        js->free_tokens = (int)step.at("jobserver").num("tokens", 0);
        js->events = &events;
        for (auto& t : step.at("jobserver").at("thief").a) js->thief.push_back((int)t.n);
        r->jobserver = js;
        b.SetJobserverClient(std::unique_ptr<Jobserver::Client>(js));
        if (js_out) *js_out = js;
      }
      b.command_runner_.reset(r);
      return r;
    };

    if (op == "clean") {
      Cleaner cleaner(state, config, &w.disk);
      const std::string mode = step.str("mode", "all");
      std::vector<std::string> args = StrList(step.at("args"));
      std::vector<char*> argv;
      for (auto& a : args) argv.push_back(const_cast<char*>(a.c_str()));
      int rc;
      if (mode == "all") rc = cleaner.CleanAll(step.boolean("generator"));
      else if (mode == "targets") rc = cleaner.CleanTargets((int)argv.size(), argv.data());
      else if (mode == "rules") rc = cleaner.CleanRules((int)argv.size(), argv.data());
      else rc = cleaner.CleanDead(build_log->entries());
      result.set("exit", rc); result.set("cleaned", cleaner.cleaned_files_count());
      build_log->Close(); deps_log->Close();
      done = true;
      stage = "clean";
      break;
    }

    // ---- RebuildManifest mirror
    {
      std::string path = step.str("manifest", "build.ninja");
      uint64_t sb; CanonicalizePath(&path, &sb);
      Node* node = state->LookupNode(path);
      bool rebuilt = false;
      if (node) {
        Builder builder(state, config, build_log, deps_log, &w.disk, status, invocation_start);
        SimJobserver* js = nullptr;
        if (!config.dry_run) make_runner(builder, &js);
        std::string merr;
        if (!builder.AddTarget(node, &merr)) {
          if (!merr.empty()) { result.set("exit", 1); result.set("err", "rebuilding manifest: " + merr); result.set("stage", "regen"); done = true; }
        } else if (!builder.AlreadyUpToDate()) {
          JV m = JV::Obj(); m.set("e", "REGEN"); m.set("cycle", cycle); events.push(std::move(m));
          if (builder.Build(&merr) == ExitSuccess) {
            if (node->dirty()) rebuilt = true; else state->Reset();
          } else { result.set("exit", 1); result.set("err", "rebuilding manifest: " + merr); result.set("stage", "regen"); done = true; }
        }
      }
      if (done) { build_log->Close(); deps_log->Close(); break; }
      if (rebuilt) {
        build_log->Close(); deps_log->Close();
        bool ok;
        std::string l = ReadAll(log_path, &ok); if (ok) w.logs[log_path] = l;
        std::string d = ReadAll(deps_path, &ok); if (ok) w.logs[deps_path] = d;
        if (config.dry_run) { result.set("exit", 0); done = true; break; }
        continue;
      }
    }

    // ---- RunBuild mirror
    {
      Builder builder(state, config, build_log, deps_log, &w.disk, status, invocation_start);
      SimJobserver* js = nullptr;
      SimRunner* runner = config.dry_run ? nullptr : make_runner(builder, &js);
      std::vector<Node*> targets;
      bool terr = false;
      if (step.at("targets").a.empty()) {
        targets = state->DefaultNodes(&err);
        if (!err.empty()) terr = true;
      } else {
        for (auto& t : step.at("targets").a) {
          std::string p = t.s; uint64_t sb; CanonicalizePath(&p, &sb);
          Node* n = state->LookupNode(p);
          if (!n) { err = "unknown target '" + p + "'"; terr = true; break; }
          targets.push_back(n);
        }
      }
      if (terr) { result.set("exit", 1); result.set("err", err); result.set("stage", "targets"); build_log->Close(); deps_log->Close(); break; }
      bool add_failed = false;
      for (Node* t : targets) {
        if (!builder.AddTarget(t, &err)) {
          if (!err.empty()) { add_failed = true; break; }
        }
      }
      if (add_failed) {
        result.set("exit", 1); result.set("err", err); result.set("stage", "scan");
      } else if (builder.AlreadyUpToDate()) {
        result.set("exit", 0); result.set("uptodate", true); result.set("stage", "noop");
        status->Info("no work to do.");
      } else {
        ExitStatus es = builder.Build(&err);
        result.set("exit", (int)es); result.set("err", err); result.set("stage", "build");
        if (es != ExitSuccess) status->Info("build stopped: %s.", err.c_str());
      }
      if (runner) result.set("waits", runner->wait_index);
      // Builder destructor runs Cleanup() (lock file removal) here, as in ninja
      if (js) {
        JV t = JV::Obj();
        // the Builder (which owns the client) is still alive here; read the counters now
        t.set("acquired", js->acquired); t.set("released", js->released);
        t.set("free", js->free_tokens); t.set("stolen", js->stolen); t.set("implicit_free", js->implicit_free);
        result.set("tokens", std::move(t));
      }
    }
    build_log->Close(); deps_log->Close();
    done = true;
  }
  if (!done && result.get("exit") == nullptr) {
    result.set("exit", 1); result.set("err", "manifest still dirty after tries"); result.set("stage", "regen-loop");
  }
  result.set("cycles", cycles);
  fflush(stdout);
  // collect the real log files
  for (const char* k : {"log_path", "deps_path"}) {
    std::string p = result.str(k);
    if (p.empty()) continue;
    bool ok; std::string d = ReadAll(p, &ok);
    if (ok) w.logs[p] = d;
  }
  w.disk.events = nullptr;
  out.set("events", std::move(events));
  out.set("result", std::move(result));
  return out;
}

JV WorldSnapshot(const World& w) {
  JV o = JV::Obj();
  o.set("files", w.disk.Snapshot());
  o.set("dirs", w.disk.DirSnapshot());
  o.set("clock", w.disk.clock);
  JV l = JV::Obj();
  for (auto& kv : w.logs) l.set(kv.first, HexS(kv.second));
  o.set("logs", std::move(l));
  return o;
}

std::string Unhex(const std::string& h) {
  std::string r;
  auto v = [](char c) { return c <= '9' ? c - '0' : c - 'a' + 10; };
  for (size_t i = 0; i + 1 < h.size(); i += 2) r += (char)(v(h[i]) * 16 + v(h[i + 1]));
  return r;
}

void ApplySnapshot(World& w, const JV& snap) {
  w.disk.files.clear(); w.disk.dirs.clear(); w.logs.clear();
  for (auto& kv : snap.at("files").o) { VFile f; f.mtime = kv.second.a[0].n; f.content = kv.second.a[1].s; w.disk.files[kv.first] = f; }
  for (auto& d : snap.at("dirs").a) w.disk.dirs[d.s] = 1;
  w.disk.clock = snap.num("clock", w.disk.clock);
  for (auto& kv : snap.at("logs").o) w.logs[kv.first] = Unhex(kv.second.s);
}

// Forks a child that runs the invocation and ships {trace, world} back over a pipe.
JV RunInChild(World& w, const JV& step, int timeout_s) {
  int fds[2];
  if (pipe(fds) != 0) { JV e = JV::Obj(); e.set("harness_error", "pipe"); return e; }
  // scratch names carry the tag of the check process that owns this worker, so that a check only ever sweeps its own
  const char* tag = getenv("NSIM_TAG");
  std::string tagged = std::string("/dev/shm/nsim-") + (tag ? tag : "0") + "-";
  std::string errtmpl = tagged + "err-XXXXXX";
  std::vector<char> errpath_v(errtmpl.begin(), errtmpl.end()); errpath_v.push_back(0);
  char* errpath = errpath_v.data();
  int errfd = mkstemp(errpath);
  fflush(stdout);
  pid_t pid = fork();
  if (pid == 0) {
    close(fds[0]);
    alarm(timeout_s);
    std::string dtmpl = tagged + "XXXXXX";
    std::vector<char> tmpl(dtmpl.begin(), dtmpl.end()); tmpl.push_back(0);
    char* scratch = mkdtemp(tmpl.data());
    if (!scratch || chdir(scratch) != 0) _exit(97);
    // ninja's stdout -> file in scratch (captured), stderr -> errfd
    int outfd = open("stdout.txt", O_CREAT | O_WRONLY | O_TRUNC, 0666);
    dup2(outfd, 1); dup2(errfd, 2);
    setvbuf(stdout, NULL, _IOLBF, BUFSIZ);
    JV out = Invocation(w, step, scratch);
    fflush(stdout);
    out.set("stdout", HexS(ReadAll("stdout.txt")));
    out.set("world", WorldSnapshot(w));
    std::string s = out.Dump();
    s.push_back('\n');
    size_t off = 0;
    while (off < s.size()) { ssize_t n = write(fds[1], s.data() + off, s.size() - off); if (n <= 0) break; off += n; }
    close(fds[1]);
    // remove scratch
    std::string cmd = std::string("rm -rf ") + scratch;
    if (chdir("/") == 0) { int rc = system(cmd.c_str()); (void)rc; }
    _exit(0);
  }
  close(fds[1]);
  std::string data; char buf[65536]; ssize_t n;
  while ((n = read(fds[0], buf, sizeof buf)) > 0) data.append(buf, n);
  close(fds[0]);
  int st = 0; waitpid(pid, &st, 0);
  std::string errtxt = ReadAll(errpath);
  close(errfd); unlink(errpath);
  JV res;
  bool parsed = false;
  if (!data.empty()) { JParser p(data); res = p.Parse(); parsed = p.ok && res.t == JV::OBJ; }
  if (!parsed || !WIFEXITED(st) || WEXITSTATUS(st) != 0) {
    JV e = JV::Obj();
    e.set("crash", true);
    e.set("signal", WIFSIGNALED(st) ? WTERMSIG(st) : 0);
    e.set("exitcode", WIFEXITED(st) ? WEXITSTATUS(st) : -1);
    e.set("timeout", WIFSIGNALED(st) && WTERMSIG(st) == SIGALRM);
    e.set("stderr", errtxt.size() > 6000 ? errtxt.substr(0, 6000) : errtxt);
    // leftover scratch dirs of crashed children are swept by the python driver
    return e;
  }
  if (!errtxt.empty()) res.set("stderr", errtxt.size() > 4000 ? errtxt.substr(0, 4000) : errtxt);
  return res;
}

void Emit(const JV& v) {
  std::string s = v.Dump();
  s.push_back('\n');
  fwrite(s.data(), 1, s.size(), stdout);
  fflush(stdout);
}

void SetManifest(World& w, const JV& step) {
  w.disk.actor = "edit";
  for (auto& kv : step.at("files").o) { w.disk.MkdirP(VDisk::Dir(kv.first)); w.disk.Put(kv.first, kv.second.s); }
  if (!step.at("stmts").is_null()) w.stmts = ParseStmts(step.at("stmts"));
  w.disk.actor = "ninja";
}

}  // namespace

int main(int argc, char** argv) {
  std::ios::sync_with_stdio(false);
  std::string line;
  int timeout_s = argc > 1 ? atoi(argv[1]) : 60;
  while (std::getline(std::cin, line)) {
    if (line.empty()) continue;
    JParser jp(line);
    JV sc = jp.Parse();
    if (!jp.ok) { JV e = JV::Obj(); e.set("harness_error", "bad scenario json"); Emit(e); continue; }
    World w;
    for (auto& kv : sc.at("files").o) { w.disk.MkdirP(VDisk::Dir(kv.first)); w.disk.Put(kv.first, kv.second.s); }
    w.stmts = ParseStmts(sc.at("stmts"));
    JV head = JV::Obj();
    head.set("scenario", sc.str("id")); head.set("begin", true);
    Emit(head);
    int si = 0;
    bool aborted = false;
    for (auto& step : sc.at("steps").a) {
      JV res = JV::Obj();
      const std::string op = step.str("op");
      res.set("scenario", sc.str("id")); res.set("step", si++); res.set("op", op);
      if (aborted) { res.set("skipped", true); Emit(res); continue; }
      JV events = JV::Arr();
      w.disk.events = &events; w.disk.actor = "edit";
      if (op == "write") { w.disk.MkdirP(VDisk::Dir(step.str("path"))); w.disk.Put(step.str("path"), step.str("content")); }
      else if (op == "touch") w.disk.Touch(step.str("path"));
      else if (op == "rm") w.disk.Del(step.str("path"));
      else if (op == "rmlog") { for (auto it = w.logs.begin(); it != w.logs.end();) { if (it->first.find(step.str("which")) != std::string::npos) it = w.logs.erase(it); else ++it; } }
      else if (op == "setlog") w.logs[step.str("path")] = Unhex(step.str("hex"));
      else if (op == "bloatlogs") {
        // what a long history does to the logs without changing what they say: every record many times over, in the
        // order it was written, so that the next ninja finds them due for recompaction
        for (auto& kv : w.logs) {
          std::string& d = kv.second;
          if (kv.first.find(".ninja_log") != std::string::npos) {
            size_t nl = d.find('\n');
            if (nl == std::string::npos) continue;
            std::string body = d.substr(nl + 1);
            size_t lines = 0; for (char c : body) if (c == '\n') ++lines;
            if (!lines) continue;
            if (step.boolean("big")) {
              // ... so many times over that the log outgrows the 256 KiB window it is read through, the last copy - the
              // records that count - lying across the window's end
              size_t copies = (262144 - (nl + 1)) / body.size();
              for (size_t k = 0; k < copies; ++k) d += body;
            } else
            for (size_t k = 0; k < 120 / lines + 4; ++k) d += body;
          } else if (kv.first.find(".ninja_deps") != std::string::npos) {
            size_t off = 16; std::string recs; size_t n = 0;
            while (off + 4 <= d.size()) {
              uint32_t sz; memcpy(&sz, d.data() + off, 4);
              uint32_t len = sz & 0x7fffffffu;
              if (off + 4 + len > d.size()) break;
              if (sz & 0x80000000u) { recs += d.substr(off, 4 + len); ++n; }
              off += 4 + len;
            }
            if (!n || off != d.size()) continue;
            for (size_t k = 0; k < 1100 / n + 4; ++k) d += recs;
          }
        }
      }
      else if (op == "manifest") SetManifest(w, step);
      else if (op == "build" || op == "clean") {
        w.disk.events = nullptr;
        const JV& sched = step.at("sched");
        if (sched.str("mode") == "all") {
          // exhaustive enumeration of completion orders by stateless re-execution (DFS over choice lists)
          int cap = (int)sched.num("cap", 1000);
          std::vector<int> choices;
          int runs = 0; bool complete = false;
          JV last;
          for (;;) {
            JV st2 = step;
            JV s2 = JV::Obj(); s2.set("mode", "choices");
            JV ch = JV::Arr(); for (int c : choices) ch.push(c);
            s2.set("choices", std::move(ch));
            st2.set("sched", std::move(s2));
            JV r = RunInChild(w, st2, timeout_s);
            ++runs;
            JV line2 = JV::Obj();
            line2.set("scenario", sc.str("id")); line2.set("step", si - 1); line2.set("op", op); line2.set("explore", runs);
            JV chs = JV::Arr(); for (int c : choices) chs.push(c);
            line2.set("choices", std::move(chs));
            // option counts along this run
            std::vector<int> opts, picks;
            for (auto& e : r.at("events").a) if (e.str("e") == "WAIT" && e.get("pick")) { opts.push_back((int)e.num("opts")); picks.push_back((int)e.num("pick")); }
            bool crashed = r.boolean("crash");
            // optional follow-up invocations from the state this schedule ended in (e.g. the retry after failures)
            JV follow = JV::Arr();
            if (!crashed && runs <= (int)sched.num("then_cap", 0)) {
              World w2 = w;
              ApplySnapshot(w2, r.at("world"));
              for (auto& ts : step.at("then").a) {
                JV fr = RunInChild(w2, ts, timeout_s);
                if (fr.boolean("crash")) { follow.push(std::move(fr)); break; }
                ApplySnapshot(w2, fr.at("world"));
                fr.set("world", JV());
                follow.push(std::move(fr));
              }
            }
            if (!sched.boolean("keep_world")) { r.set("world", JV()); }
            line2.set("trace", std::move(r));
            if (!follow.a.empty()) line2.set("then", std::move(follow));
            Emit(line2);
            if (crashed) break;
            // next choice list: increment the deepest position that still has alternatives
            int d = (int)opts.size() - 1;
            while (d >= 0 && picks[d] + 1 >= opts[d]) --d;
            if (d < 0) { complete = true; break; }
            choices.assign(picks.begin(), picks.begin() + d);
            choices.push_back(picks[d] + 1);
            if (runs >= cap) break;
          }
          res.set("explored", runs); res.set("exhaustive", complete);
          Emit(res);
          continue;
        }
        JV r = RunInChild(w, step, timeout_s);
        if (r.boolean("crash")) { aborted = true; }
        else { ApplySnapshot(w, r.at("world")); if (!step.boolean("snap", true)) r.set("world", JV()); }
        res.set("trace", std::move(r));
        Emit(res);
        continue;
      } else { res.set("harness_error", "unknown op " + op); }
      w.disk.events = nullptr; w.disk.actor = "ninja";
      res.set("events", std::move(events));
      if (step.boolean("snap")) res.set("world", WorldSnapshot(w));
      Emit(res);
    }
    JV tail = JV::Obj();
    tail.set("scenario", sc.str("id")); tail.set("end", true);
    Emit(tail);
  }
  return 0;
}
