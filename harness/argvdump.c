/* prints argv[1..] in hex, one line; empty argument printed as "-" */
#include <stdio.h>
int main(int argc, char** argv) {
  for (int i = 1; i < argc; ++i) {
    if (i > 1) putchar(' ');
    if (!argv[i][0]) putchar('-');
    for (unsigned char* p = (unsigned char*)argv[i]; *p; ++p) printf("%02x", *p);
  }
  putchar('\n');
  return 0;
}
