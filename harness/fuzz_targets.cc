// nfuzz (DESIGN 2.4): one entry point per parser, usable (a) under libFuzzer, (b) as a stand-alone
// replayer, (c) as a bounded-exhaustive enumerator over a token alphabet.
//   target chosen by $FUZZ_TARGET: manifest depfile dyndep buildlog depslog clparser makeflags status
//                                   elide stripansi json canon editdistance
//   stand-alone (-DSTANDALONE):  nfuzz replay FILE...      |  nfuzz exhaustive MAXTOK START SHARD NSHARDS
// exit() reached through Fatal() is wrapped (-Wl,--wrap=exit) and counts as "reported an error".
#include <errno.h>
#include <fcntl.h>
#include <stdint.h>
#include <stdio.h>
#include <stdlib.h>
#include <string.h>
#include <unistd.h>

#include <map>
#include <memory>
#include <string>
#include <vector>

#include "build.h"
#include "build_log.h"
#include "clparser.h"
#include "depfile_parser.h"
#include "deps_log.h"
#include "disk_interface.h"
#include "dyndep.h"
#include "dyndep_parser.h"
#include "edit_distance.h"
#include "elide_middle.h"
#include "graph.h"
#include "jobserver.h"
#include "json.h"
#include "manifest_parser.h"
#include "state.h"
#include "status_printer.h"
#include "util.h"

namespace {

struct ExitCalled { int code; };
bool g_in_target = false;
uint64_t g_exits = 0, g_execs = 0;
std::string g_scratch;

struct MemReader : public FileReader {
  std::map<std::string, std::string> files;
  int reads = 0;
  Status ReadFile(const std::string& path, std::string* contents, std::string* err) override {
    ++reads;
    // like a file system, the in-memory one finds a file under every spelling of its name ("./a.ninja", "x/../a.ninja")
    std::string canon = path;
    if (!canon.empty()) { uint64_t bits; CanonicalizePath(&canon, &bits); }
    auto i = files.find(canon);
    if (i == files.end()) { *err = "No such file or directory"; return NotFound; }
    *contents = i->second;
    return Okay;
  }
};

struct NullDisk : public DiskInterface {
  MemReader* r;
  TimeStamp Stat(const std::string&, std::string*) const override { return 1; }
  bool MakeDir(const std::string&) override { return true; }
  bool WriteFile(const std::string&, const std::string&, bool) override { return true; }
  Status ReadFile(const std::string& p, std::string* c, std::string* e) override { return r->ReadFile(p, c, e); }
  int RemoveFile(const std::string&) override { return 0; }
};

std::vector<std::string> SplitFiles(const std::string& in) {
  std::vector<std::string> parts;
  size_t pos = 0;
  const std::string sep = "\n---\n";
  for (int k = 0; k < 2; ++k) {
    size_t i = in.find(sep, pos);
    if (i == std::string::npos) break;
    parts.push_back(in.substr(pos, i + 1 - pos));
    pos = i + sep.size();
  }
  parts.push_back(in.substr(pos));
  return parts;
}

void TargetManifest(const std::string& in) {
  MemReader r;
  std::vector<std::string> parts = SplitFiles(in);
  const char* names[] = {"build.ninja", "a.ninja", "b.ninja"};
  for (size_t i = 0; i < parts.size() && i < 3; ++i) r.files[names[i]] = parts[i];
  State state;
  ManifestParserOptions opts;
  ManifestParser parser(&state, &r, opts);
  std::string err;
  if (!parser.Load("build.ninja", &err)) return;
  // evaluate what a build would evaluate
  for (Edge* e : state.edges_) {
    e->EvaluateCommand(true);
    e->GetBinding("description");
    e->GetUnescapedDepfile();
    e->GetUnescapedRspfile();
    e->GetUnescapedDyndep();
    e->GetBindingBool("restat");
    e->GetBindingBool("generator");
    e->GetBinding("deps");
  }
  std::string e2;
  state.DefaultNodes(&e2);
  state.RootNodes(&e2);
}

void TargetDepfile(const std::string& in) {
  std::string content = in;
  DepfileParser p;
  std::string err;
  if (p.Parse(&content, &err)) {
    size_t n = 0;
    for (auto& o : p.outs_) n += o.AsString().size();
    for (auto& i : p.ins_) n += i.AsString().size();
    (void)n;
  }
}

// a depfile as ninja meets it: attached to a statement of a loaded manifest, read by the dependency scan while every
// output exists (ImplicitDepLoader::LoadDepFile and what follows it, not only DepfileParser)
void TargetDepfileLoad(const std::string& in) {
  MemReader r;
  r.files["build.ninja"] =
      "rule cc\n  command = cc\n  depfile = out.d\nrule r\n  command = r\n"
      "build out out2 | imp: cc in | hdr\nbuild hdr: r gen\nbuild final: r out a b\n";
  r.files["out.d"] = in;
  State state;
  ManifestParser parser(&state, &r, ManifestParserOptions());
  std::string err;
  if (!parser.Load("build.ninja", &err)) return;
  NullDisk disk; disk.r = &r;
  DepfileParserOptions dopts;
  DependencyScan scan(&state, nullptr, nullptr, &disk, &dopts, nullptr);
  std::vector<Node*> validations;
  Node* fin = state.LookupNode("final");
  if (fin && scan.RecomputeDirty(fin, &validations, &err)) {
    for (Edge* e : state.edges_) { e->EvaluateCommand(true); (void)e->inputs_.size(); }
  }
}

void TargetDyndep(const std::string& in) {
  MemReader r;
  r.files["build.ninja"] =
      "rule r\n  command = r\nbuild out: r in || dd\n  dyndep = dd\nbuild out2 | imp: r in2 || dd\n  dyndep = dd\n"
      "build other: r in3\nbuild x: r out\n";
  r.files["dd"] = in;
  State state;
  ManifestParser parser(&state, &r, ManifestParserOptions());
  std::string err;
  if (!parser.Load("build.ninja", &err)) return;
  NullDisk disk; disk.r = &r;
  DyndepLoader loader(&state, &disk);
  Node* dd = state.LookupNode("dd");
  DyndepFile ddf;
  loader.LoadDyndeps(dd, &ddf, &err);
  for (Edge* e : state.edges_) e->EvaluateCommand(true);
}

struct Dead : BuildLogUser {
  bool IsPathDead(StringPiece s) const override { return s.len_ % 2 == 0; }
};

void WriteScratch(const std::string& name, const std::string& data) {
  FILE* f = fopen((g_scratch + "/" + name).c_str(), "wb");
  if (!f) return;
  fwrite(data.data(), 1, data.size(), f);
  fclose(f);
}

void TargetBuildLog(const std::string& in) {
  std::string path = g_scratch + "/log";
  WriteScratch("log", in);
  std::string err;
  {
    BuildLog log;
    if (log.Load(path, &err) == LOAD_ERROR) return;
    for (auto& kv : log.entries()) (void)kv.second->command_hash;
    Dead user;
    log.Recompact(path, user, &err);
  }
  BuildLog log2;
  log2.Load(path, &err);
}

void TargetDepsLog(const std::string& in) {
  std::string path = g_scratch + "/deps";
  WriteScratch("deps", in);
  std::string err;
  {
    State state;
    DepsLog log;
    if (log.Load(path, &state, &err) == LOAD_ERROR) return;
    for (Node* n : log.nodes()) {
      if (!n) continue;
      DepsLog::Deps* d = log.GetDeps(n);
      if (d) for (int i = 0; i < d->node_count; ++i) (void)d->nodes[i]->path().size();
      log.GetFirstReverseDepsNode(n);
    }
    if (log.OpenForWrite(path, &err)) {
      std::vector<Node*> deps;
      deps.push_back(state.GetNode("fuzz_dep.h", 0));
      log.RecordDeps(state.GetNode("fuzz_out.o", 0), 7, deps);
      log.Close();
    }
    log.Recompact(path, &err);
  }
  State s2;
  DepsLog l2;
  l2.Load(path, &s2, &err);
}

void TargetCLParser(const std::string& in) {
  size_t cut = in.empty() ? 0 : (unsigned char)in[0] % (in.size());
  std::string prefix = in.substr(in.empty() ? 0 : 1, cut > 0 ? cut - 1 : 0);
  std::string rest = in.substr(std::min(in.size(), cut));
  if ((in.size() & 1) == 0) prefix.clear();
  CLParser p;
  std::string out, err;
  p.Parse(rest, prefix, &out, &err);
}

void TargetMakeflags(const std::string& in) {
  Jobserver::Config c;
  std::string err;
  Jobserver::ParseMakeFlagsValue(in.c_str(), &c, &err);
  Jobserver::ParseNativeMakeFlagsValue(in.c_str(), &c, &err);
}

void TargetStatus(const std::string& in) {
  std::string fmt = in.c_str();   // NUL terminated like an environment variable
  State state;
  MemReader r;
  r.files["build.ninja"] = "rule r\n  command = r\n  description = d $out\nbuild a: r\nbuild b: r a\n  pool = console\n";
  ManifestParser parser(&state, &r, ManifestParserOptions());
  std::string err;
  if (!parser.Load("build.ninja", &err)) return;
  for (int mode = 0; mode < 2; ++mode) {
    BuildConfig config;
    if (mode == 0) setenv("NINJA_STATUS", fmt.c_str(), 1);
    else { unsetenv("NINJA_STATUS"); config.progress_status_format = fmt.c_str(); }
    StatusPrinter sp(config);
    for (Edge* e : state.edges_) sp.EdgeAddedToPlan(e);
    sp.BuildStarted();
    int t = 0;
    for (Edge* e : state.edges_) {
      sp.BuildEdgeStarted(e, t += 3);
      sp.BuildEdgeFinished(e, t, t + 5, e->id_ ? ExitFailure : ExitSuccess, e->id_ ? "out\n" : "");
    }
    sp.BuildFinished();
  }
}

void TargetElide(const std::string& in) {
  if (in.empty()) return;
  size_t width = (unsigned char)in[0];
  if (in.size() > 1 && (in[1] & 1)) width *= 3;
  std::string s = in.substr(1);
  ElideMiddleInPlace(s, width);
}

void TargetStripAnsi(const std::string& in) { StripAnsiEscapeCodes(in); }
void TargetJson(const std::string& in) { EncodeJSONString(in); }
void TargetCanon(const std::string& in) {
  if (in.empty()) return;
  size_t len = in.size();
  char* buf = (char*)malloc(len);
  memcpy(buf, in.data(), len);
  uint64_t bits;
  CanonicalizePath(buf, &len, &bits);
  free(buf);
}
void TargetEditDistance(const std::string& in) {
  size_t h = in.size() / 2;
  EditDistance(StringPiece(in.data(), h), StringPiece(in.data() + h, in.size() - h), (in.size() & 1) != 0, in.empty() ? 0 : (unsigned char)in[0] % 5);
}

typedef void (*Target)(const std::string&);
struct TInfo { const char* name; Target fn; };
const TInfo kTargets[] = {
  {"manifest", TargetManifest}, {"depfile", TargetDepfile}, {"depfileload", TargetDepfileLoad}, {"dyndep", TargetDyndep}, {"buildlog", TargetBuildLog},
  {"depslog", TargetDepsLog}, {"clparser", TargetCLParser}, {"makeflags", TargetMakeflags}, {"status", TargetStatus},
  {"elide", TargetElide}, {"stripansi", TargetStripAnsi}, {"json", TargetJson}, {"canon", TargetCanon},
  {"editdistance", TargetEditDistance},
};
Target g_target = nullptr;
const char* g_target_name = "";

void Init() {
  if (g_target) return;
  const char* t = getenv("FUZZ_TARGET");
  if (!t) t = "manifest";
  for (auto& ti : kTargets) if (!strcmp(ti.name, t)) { g_target = ti.fn; g_target_name = ti.name; }
  if (!g_target) { fprintf(stderr, "unknown FUZZ_TARGET %s\n", t); _exit(3); }
  const char* tag = getenv("NFUZZ_TAG");   // the owning check process: it sweeps only its own scratch
  std::string dtmpl = std::string("/dev/shm/nfuzz-") + (tag ? tag : "0") + "-XXXXXX";
  std::vector<char> tmpl(dtmpl.begin(), dtmpl.end()); tmpl.push_back(0);
  char* d = mkdtemp(tmpl.data());
  g_scratch = d ? d : "/tmp";
  // ninja prints warnings / status on stdout+stderr: keep only sanitizer output (it uses its own fd handling)
  int devnull = open("/dev/null", O_WRONLY);
  if (devnull >= 0) dup2(devnull, 1);
  if (getenv("FUZZ_QUIET_STDERR")) {
    // keep fd 2 for the sanitizer: ninja's Warning()/Error() go through stderr too, bounded by the corpus size
  }
}

std::string g_current;
uint64_t g_idx = 0;

}  // namespace

extern "C" void __real_exit(int);
extern "C" void __wrap_exit(int code) {
  if (g_in_target) throw ExitCalled{code};
  __real_exit(code);
}

extern "C" void __asan_on_error() {
  static const char* d = "0123456789abcdef";
  std::string h;
  for (unsigned char c : g_current) { h += d[c >> 4]; h += d[c & 15]; if (h.size() > 4000) break; }
  fprintf(stderr, "\nNFUZZ-CRASH-INPUT target=%s idx=%llu hex=%s\n", g_target_name, (unsigned long long)g_idx, h.c_str());
}

#ifdef STANDALONE
#include <signal.h>
static void OnAlarm(int) {
  static const char* d = "0123456789abcdef";
  char buf[9000]; size_t n = 0;
  const char* pre = "\nNFUZZ-HANG idx=";
  n += snprintf(buf + n, sizeof buf - n, "%s%llu target=%s hex=", pre, (unsigned long long)g_idx, g_target_name);
  for (size_t i = 0; i < g_current.size() && n + 3 < sizeof buf; ++i) { unsigned char c = g_current[i]; buf[n++] = d[c >> 4]; buf[n++] = d[c & 15]; }
  buf[n++] = '\n';
  ssize_t r = write(2, buf, n); (void)r;
  _exit(14);
}
#endif

extern "C" int LLVMFuzzerTestOneInput(const uint8_t* data, size_t size) {
  Init();
  g_current.assign((const char*)data, size);
  ++g_execs;
#ifdef STANDALONE
  signal(SIGALRM, OnAlarm);
  alarm(20);
#endif
  g_in_target = true;
  try {
    g_target(g_current);
  } catch (const ExitCalled&) {
    ++g_exits;
  }
  g_in_target = false;
#ifdef STANDALONE
  alarm(0);
#endif
  return 0;
}

#ifdef STANDALONE
namespace {
std::vector<std::string> Alphabet(const char* target) {
  std::string t = target;
  if (t == "manifest" || t == "dyndep")
    return {"build", "rule", "pool", "default", "include", "subninja", "x", "y", " ", "\n", "\r\n", "\t", ":", "|", "||", "|@", "$", "=",
            "${x}", "$\n", std::string(1, '\0'), "command", "depth", "#", "build.ninja", "phony", "dyndep", "ninja_dyndep_version", "1", "$:", "$ "};
  if (t == "depfileload")
    return {"out", "out2", "imp", "in", "hdr", "a", "b", "x.h", " ", "\n", ":", "\\\n", "./", "//", "#", "$$", "\r\n", "final"};
  if (t == "depfile")
    return {"a", " ", "\\", "\n", "\r\n", ":", "#", "$", "$$", "%", "\\\n", std::string(1, '\0'), "\t", "\\ ", "\\#", "\\:", "*", "\xe9"};
  if (t == "buildlog")
    return {"# ninja log v7\n", "# ninja log v6\n", "# ninja log v", "1", "\t", "\n", "out", "abc", "\r", std::string(1, '\0'), "99999999999999999999", "-", " "};
  if (t == "clparser")
    return {"Note: including file: ", "foo.h", "\n", "\r\n", " ", "x.cc", "Note", ":", "c:\\program files\\a.h", std::string(1, '\0'), "PFX"};
  if (t == "makeflags")
    return {"--jobserver-auth=", "--jobserver-fds=", "fifo:", "3,4", " ", "-j", "n", "--", "/tmp/f", ",", "-", "=", "k", "\t"};
  if (t == "status")
    return {"%", "s", "f", "t", "r", "u", "p", "e", "o", "c", "w", "E", "P", "W", "x", " ", "$", "${", "}", "[", "]", "$started", "${finished}", "$total"};
  if (t == "stripansi" || t == "elide")
    return {"\x1b", "[", "m", "3", ";", "a", "K", "\n", " ", "\x1b[", "\x1b[0m", "abcdef", std::string(1, '\0')};
  return {"a", "b", ".", "/", "..", "//", std::string(1, '\0')};
}
}  // namespace

int main(int argc, char** argv) {
  Init();
  if (argc >= 2 && !strcmp(argv[1], "replay")) {
    uint64_t n = 0;
    for (int i = 2; i < argc; ++i) {
      FILE* f = fopen(argv[i], "rb");
      if (!f) continue;
      std::string d; char buf[65536]; size_t r;
      while ((r = fread(buf, 1, sizeof buf, f)) > 0) d.append(buf, r);
      fclose(f);
      LLVMFuzzerTestOneInput((const uint8_t*)d.data(), d.size());
      ++n;
    }
    fprintf(stderr, "NFUZZ-DONE replayed=%llu exits=%llu\n", (unsigned long long)n, (unsigned long long)g_exits);
    return 0;
  }
  if (argc >= 6 && !strcmp(argv[1], "exhaustive")) {
    int maxtok = atoi(argv[2]);
    uint64_t start = strtoull(argv[3], 0, 10), shard = strtoull(argv[4], 0, 10), nshards = strtoull(argv[5], 0, 10);
    std::vector<std::string> al = Alphabet(g_target_name);
    uint64_t idx = 0, done = 0;
    for (int len = 0; len <= maxtok; ++len) {
      uint64_t total = 1;
      for (int k = 0; k < len; ++k) total *= al.size();
      for (uint64_t v = 0; v < total; ++v, ++idx) {
        if (idx < start || idx % nshards != shard) continue;
        std::string s;
        uint64_t x = v;
        for (int k = 0; k < len; ++k) { s += al[x % al.size()]; x /= al.size(); }
        g_idx = idx;
        LLVMFuzzerTestOneInput((const uint8_t*)s.data(), s.size());
        ++done;
      }
    }
    fprintf(stderr, "NFUZZ-DONE exhaustive=%llu exits=%llu alphabet=%zu\n", (unsigned long long)done, (unsigned long long)g_exits, al.size());
    return 0;
  }
  fprintf(stderr, "usage: nfuzz replay FILE... | nfuzz exhaustive MAXTOK START SHARD NSHARDS\n");
  return 2;
}
#endif
