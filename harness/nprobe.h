#pragma once
typedef int (*ProbeFn)(int argc, char** argv);
struct ProbeEntry {
  ProbeEntry(const char* n, ProbeFn f);
  const char* name; ProbeFn fn; ProbeEntry* next;
};
#define REGISTER_PROBE(name, fn) static ProbeEntry reg_##fn(name, fn)
