// nprobe: function-level differential probes (DESIGN 2.3). One binary, sub-commands.
#include <stdio.h>
#include <string.h>
#include "nprobe.h"

static ProbeEntry* g_probes = nullptr;
ProbeEntry::ProbeEntry(const char* n, ProbeFn f) : name(n), fn(f), next(g_probes) { g_probes = this; }

int main(int argc, char** argv) {
  if (argc < 2) { fprintf(stderr, "usage: nprobe <probe> args...\n"); return 2; }
  for (ProbeEntry* p = g_probes; p; p = p->next)
    if (!strcmp(p->name, argv[1])) return p->fn(argc - 2, argv + 2);
  fprintf(stderr, "unknown probe %s\n", argv[1]);
  return 2;
}
