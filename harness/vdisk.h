// VDisk: in-memory DiskInterface with a logical clock (DESIGN 2.1).  Every mutation is logged as
// an event, so the offline checkers can reconstruct the disk at any instant of the trace.
#pragma once
#include <stdint.h>
#include <map>
#include <set>
#include <string>
#include <vector>

#include "disk_interface.h"
#include "vjson.h"

inline uint64_t Fnv64(const std::string& s) {
  uint64_t h = 1469598103934665603ull;
  for (unsigned char c : s) { h ^= c; h *= 1099511628211ull; }
  return h;
}
inline std::string HashHex(const std::string& s) {
  char b[20]; snprintf(b, sizeof b, "%016llx", (unsigned long long)Fnv64(s)); return b;
}

struct VFile { std::string content; int64_t mtime; };

struct VDisk : public DiskInterface {
  std::map<std::string, VFile> files;
  std::map<std::string, int64_t> dirs;
  int64_t clock = 1000;
  JV* events = nullptr;           // event sink (array)
  std::string actor = "ninja";    // who performs the current mutations
  // fault injection (ninja-side calls only)
  std::set<std::string> stat_err, mkdir_fail, write_fail;
  std::set<std::string> stat_err_late;   // Stat fails only once a command of this invocation wrote the path
  std::set<std::string> written_by_cmd;
  mutable int stat_calls = 0;

  static std::string Dir(const std::string& p) {
    size_t i = p.rfind('/');
    return i == std::string::npos ? "" : p.substr(0, i);
  }
  void Ev(const char* e, const std::string& p, int64_t t = 0, const std::string* content = nullptr) {
    if (!events) return;
    JV ev = JV::Obj();
    ev.set("e", e); ev.set("p", p); ev.set("by", actor);
    if (t) ev.set("t", t);
    if (content) { ev.set("h", HashHex(*content)); ev.set("n", content->size()); }
    events->push(std::move(ev));
  }
  // --- raw operations used by simulated commands and scripted edits
  bool DirExists(const std::string& d) const { return d.empty() || dirs.count(d) > 0; }
  void MkdirP(const std::string& d) {
    if (d.empty() || dirs.count(d)) return;
    MkdirP(Dir(d));
    dirs[d] = ++clock;
    Ev("MKDIR", d, clock);
  }
  bool Put(const std::string& path, const std::string& content) {
    if (!DirExists(Dir(path)) || dirs.count(path)) return false;
    VFile& f = files[path];
    f.content = content; f.mtime = ++clock;
    if (actor.compare(0, 4, "cmd:") == 0) written_by_cmd.insert(path);
    Ev("W", path, f.mtime, &content);
    return true;
  }
  void Touch(const std::string& path) {
    auto i = files.find(path);
    if (i == files.end()) { Put(path, ""); return; }
    i->second.mtime = ++clock;
    Ev("W", path, i->second.mtime, &i->second.content);
  }
  bool Del(const std::string& path) {
    auto i = files.find(path);
    if (i == files.end()) return false;
    files.erase(i);
    Ev("RM", path);
    return true;
  }
  const VFile* Get(const std::string& path) const {
    auto i = files.find(path);
    return i == files.end() ? nullptr : &i->second;
  }

  // --- DiskInterface (called by ninja)
  TimeStamp Stat(const std::string& path, std::string* err) const override {
    ++stat_calls;
    if (stat_err.count(path) || (stat_err_late.count(path) && written_by_cmd.count(path))) { if (err) *err = "stat(" + path + "): injected I/O error"; return -1; }
    auto i = files.find(path);
    if (i != files.end()) return i->second.mtime;
    auto d = dirs.find(path);
    if (d != dirs.end()) return d->second;
    // a path below a regular file: ENOTDIR -> reported as missing by RealDiskInterface
    return 0;
  }
  bool MakeDir(const std::string& path) override {
    if (mkdir_fail.count(path)) return false;
    std::string parent = Dir(path);
    if (files.count(path) || dirs.count(path)) return true;   // EEXIST is success in RealDiskInterface
    if (!DirExists(parent)) return false;                      // ENOENT / ENOTDIR
    dirs[path] = ++clock;
    Ev("MKDIR", path, clock);
    return true;
  }
  bool WriteFile(const std::string& path, const std::string& contents, bool) override {
    if (write_fail.count(path)) return false;
    return Put(path, contents);
  }
  Status ReadFile(const std::string& path, std::string* contents, std::string* err) override {
    auto i = files.find(path);
    if (i == files.end()) { *err = "No such file or directory"; return NotFound; }
    *contents = i->second.content;
    return Okay;
  }
  int RemoveFile(const std::string& path) override {
    if (dirs.count(path)) return -1;
    return Del(path) ? 0 : 1;
  }

  JV Snapshot() const {
    JV o = JV::Obj();
    for (auto& kv : files) {
      JV e = JV::Arr(); e.push(kv.second.mtime); e.push(kv.second.content);
      o.set(kv.first, std::move(e));
    }
    return o;
  }
  JV DirSnapshot() const {
    JV a = JV::Arr();
    for (auto& kv : dirs) a.push(kv.first);
    return a;
  }
};
