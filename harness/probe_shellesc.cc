// nprobe shellesc <argvdump-path>: C16.  stdin lines: "<mode> <nin> <hexname>..." where the first
// nin names become explicit inputs and the rest explicit outputs of one edge built directly in a
// State (the manifest syntax cannot spell every byte, the graph can hold them).
// mode c: command = ARGV $in -- $out     mode n: command = ARGV $in_newline
// mode r / q: rspfile_content = $in -- $out  /  $in_newline -- $out ; what is printed is ARGV followed by the evaluated
//   rspfile_content (newlines -> blanks): the text a response file holds is read by shells too (xargs, $(cat f), @file)
// stdout: hex of the real Edge::EvaluateCommand() per line.
#include <stdio.h>
#include <iostream>
#include <string>
#include <vector>
#include <sstream>
#include "graph.h"
#include "state.h"
#include "eval_env.h"
#include "nprobe.h"

static std::string Unhex(const std::string& h) {
  std::string r;
  auto v = [](char c) { return c <= '9' ? c - '0' : c - 'a' + 10; };
  for (size_t i = 0; i + 1 < h.size(); i += 2) r += (char)(v(h[i]) * 16 + v(h[i + 1]));
  return r;
}
static std::string Hex(const std::string& s) {
  static const char* d = "0123456789abcdef";
  std::string r;
  for (unsigned char c : s) { r += d[c >> 4]; r += d[c & 15]; }
  return r;
}

static int probe_shellesc(int argc, char** argv) {
  std::string tool = argc > 0 ? argv[0] : "argvdump";
  std::string line;
  while (std::getline(std::cin, line)) {
    std::istringstream is(line);
    std::string mode; int nin; is >> mode >> nin;
    std::vector<std::string> names; std::string h;
    while (is >> h) names.push_back(Unhex(h));
    State state;
    Rule* rule = new Rule("r");
    EvalString cmd;
    cmd.AddText(tool + " ");
    if (mode == "c" || mode == "d") { cmd.AddSpecial("in"); cmd.AddText(" -- "); cmd.AddSpecial("out"); }
    else if (mode == "r" || mode == "q") { cmd.AddText("@x.rsp"); }
    else cmd.AddSpecial("in_newline");
    rule->AddBinding("command", cmd);
    if (mode == "r" || mode == "q") {
      EvalString rf; rf.AddText("x.rsp"); rule->AddBinding("rspfile", rf);
      EvalString rc; rc.AddSpecial(mode == "r" ? "in" : "in_newline"); rc.AddText(" -- "); rc.AddSpecial("out");
      rule->AddBinding("rspfile_content", rc);
    }
    if (mode == "d") {
      // the usual depfile = $out.d / rspfile = $out.rsp: paths ninja itself opens (unescaped), evaluated before the command
      EvalString df; df.AddSpecial("out"); df.AddText(".d"); rule->AddBinding("depfile", df);
      EvalString rf; rf.AddSpecial("out"); rf.AddText(".rsp"); rule->AddBinding("rspfile", rf);
      EvalString rc; rc.AddSpecial("in"); rule->AddBinding("rspfile_content", rc);
    }
    state.bindings_.AddRule(std::unique_ptr<const Rule>(rule));
    Edge* edge = state.AddEdge(rule);
    std::string err;
    bool ok = true;
    for (size_t i = 0; i < names.size(); ++i) {
      if ((int)i < nin) state.AddIn(edge, names[i], 0);
      else ok = state.AddOut(edge, names[i], 0, &err) && ok;
    }
    if (!ok) { printf("ERR %s\n", Hex(err).c_str()); continue; }
    if (mode == "d") {
      std::string df = edge->GetUnescapedDepfile(), rf = edge->GetUnescapedRspfile();
      std::string c = edge->EvaluateCommand();
      std::string df2 = edge->GetUnescapedDepfile();
      printf("%s %s %s %s\n", Hex(c).c_str(), Hex(df).c_str(), Hex(rf).c_str(), Hex(df2).c_str());
      continue;
    }
    if (mode == "r" || mode == "q") {
      std::string c = edge->GetBinding("rspfile_content");
      for (char& ch : c) if (ch == '\n') ch = ' ';
      printf("%s\n", Hex(tool + " " + c).c_str());
      continue;
    }
    printf("%s\n", Hex(edge->EvaluateCommand()).c_str());
  }
  return 0;
}
REGISTER_PROBE("shellesc", probe_shellesc);
