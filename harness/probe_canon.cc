// nprobe canon: C14.  Runs the real CanonicalizePath over (a) every string over {a,b,.,/}
// up to a length bound, (b) random long paths, each in an exact-size heap buffer (ASan red
// zones catch any access past len), and compares with a ten-line reference.
#include <stdint.h>
#include <stdio.h>
#include <stdlib.h>
#include <string.h>

#include <string>
#include <unordered_set>
#include <vector>

#include "util.h"

namespace {

// Reference: split on '/', drop empty and '.', '..' pops a normal component else is kept,
// keep a leading '/', nothing left -> '.'.
std::string RefCanon(const std::string& s) {
  bool abs = !s.empty() && s[0] == '/';
  std::vector<std::string> st;
  size_t i = 0;
  while (i <= s.size()) {
    size_t j = s.find('/', i);
    if (j == std::string::npos) j = s.size();
    std::string c = s.substr(i, j - i);
    i = j + 1;
    if (c.empty() || c == ".") continue;
    if (c == ".." && !st.empty() && st.back() != "..") { st.pop_back(); continue; }
    st.push_back(c);
  }
  std::string r = abs ? "/" : "";
  for (size_t k = 0; k < st.size(); ++k) { if (k) r += "/"; r += st[k]; }
  if (r.empty()) r = ".";
  return r;
}

struct Stats {
  uint64_t shaped = 0, evals = 0, changed = 0, changed_exh = 0, mismatches = 0, idem_checks = 0, string_overload = 0;
  std::unordered_set<uint64_t> distinct_out;
  std::vector<std::string> bad;  // hex input|got|want|kind
  std::vector<std::string> samples;
};

std::string Hex(const std::string& s) {
  static const char* d = "0123456789abcdef";
  std::string r;
  for (unsigned char c : s) { r += d[c >> 4]; r += d[c & 15]; }
  return r;
}

uint64_t H(const std::string& s) {
  uint64_t h = 1469598103934665603ull;
  for (unsigned char c : s) { h ^= c; h *= 1099511628211ull; }
  return h;
}

std::string RunExact(const std::string& in) {
  size_t len = in.size();
  char* buf = (char*)malloc(len ? len : 1);  // exact size: not NUL terminated
  memcpy(buf, in.data(), len);
  uint64_t bits = 0xdeadbeef;
  CanonicalizePath(buf, &len, &bits);
  std::string out(buf, len <= in.size() ? len : in.size());
  if (len > in.size()) out = "<LEN-GREW:" + std::to_string(len) + ">";
  if (bits != 0) out += "<SLASHBITS>";
  free(buf);
  return out;
}

void CheckOne(const std::string& in, Stats* st, bool track_distinct) {
  st->evals++;
  std::string got = RunExact(in);
  std::string want = RefCanon(in);
  if (got != in) { st->changed++; if (track_distinct) st->changed_exh++; }
  if (track_distinct) st->distinct_out.insert(H(got));
  auto bad = [&](const char* kind, const std::string& g, const std::string& w) {
    st->mismatches++;
    if (st->bad.size() < 40)
      st->bad.push_back(Hex(in) + "|" + Hex(g) + "|" + Hex(w) + "|" + kind);
  };
  if (got != want) { bad("ref", got, want); return; }
  if (got.size() > in.size()) bad("longer", got, want);
  if (in[0] == '/' && got[0] != '/') bad("lost-root", got, want);
  // idempotence
  std::string again = RunExact(got);
  st->idem_checks++;
  if (again != got) bad("idempotence", again, got);
  // std::string overload must agree
  std::string s2 = in;
  uint64_t bits;
  CanonicalizePath(&s2, &bits);
  st->string_overload++;
  if (s2 != got) bad("string-overload", s2, got);
  if (st->samples.size() < 6 && got != in && (st->evals % 9973) == 1)
    st->samples.push_back(in + " -> " + got);
}

uint64_t rng_state;
uint64_t Rnd() {
  rng_state ^= rng_state << 13; rng_state ^= rng_state >> 7; rng_state ^= rng_state << 17;
  return rng_state;
}

}  // namespace

int probe_canon(int argc, char** argv) {
  // args: <maxlen> <nrandom> <seed> [shard nshards]
  int maxlen = argc > 0 ? atoi(argv[0]) : 8;
  long nrandom = argc > 1 ? atol(argv[1]) : 1000;
  rng_state = (argc > 2 ? strtoull(argv[2], 0, 10) : 1) * 2654435761u + 88172645463325252ull;
  int shard = argc > 3 ? atoi(argv[3]) : 0, nshards = argc > 4 ? atoi(argv[4]) : 1;
  Stats st;
  const char alpha[4] = {'a', 'b', '.', '/'};
  // exhaustive: strings of length 1..maxlen, index space sharded by (index % nshards)
  uint64_t exhaustive = 0;
  for (int len = 1; len <= maxlen; ++len) {
    uint64_t total = 1ull << (2 * len);
    std::string s(len, 'a');
    for (uint64_t idx = shard; idx < total; idx += nshards) {
      uint64_t v = idx;
      for (int k = 0; k < len; ++k) { s[k] = alpha[v & 3]; v >>= 2; }
      CheckOne(s, &st, true);
      exhaustive++;
    }
  }
  // random long paths: many components, arbitrary non-NUL bytes, biased to structure
  for (long n = 0; n < nrandom; ++n) {
    int comps = 1 + Rnd() % (n % 7 == 0 ? 400 : 40);
    std::string s;
    if (Rnd() % 3 == 0) s += "/";
    for (int c = 0; c < comps; ++c) {
      switch (Rnd() % 8) {
        case 0: s += ".."; break;
        case 1: s += "."; break;
        case 2: break;  // empty component
        case 3: s += "..."; break;
        case 4: s += (Rnd() & 1) ? "..x" : ".x"; break;
        default: {
          int l = 1 + Rnd() % 6;
          for (int k = 0; k < l; ++k) {
            unsigned char ch = (unsigned char)(1 + Rnd() % 255);
            if (ch == '/') ch = 'q';
            s += (char)ch;
          }
        }
      }
      if (c + 1 < comps || Rnd() % 4 == 0) s += "/";
    }
    if (s.empty()) s = ".";
    CheckOne(s, &st, false);
  }
  // shaped paths: descend D components, climb U times with "..", descend again - every (D, U) up to 72 (any
  // internal bookkeeping of component positions, whatever its size, is crossed in both directions), plain and with
  // "." / empty components sprinkled in, relative and absolute
  uint64_t shaped = 0;
  for (int D = 0; D <= 72; ++D) {
    for (int U = 0; U <= 72; ++U) {
      if ((uint64_t)(D * 73 + U) % nshards != (uint64_t)shard) continue;
      for (int variant = 0; variant < 6; ++variant) {
        std::string s = (variant & 1) ? "/" : "";
        for (int c = 0; c < D; ++c) {
          s += "d" + std::to_string(c) + "/";
          if (variant >= 4 && Rnd() % 5 == 0) s += (Rnd() & 1) ? "./" : "/";
        }
        for (int c = 0; c < U; ++c) {
          s += "../";
          if (variant >= 4 && Rnd() % 5 == 0) s += (Rnd() & 1) ? "./" : "/";
        }
        int T = variant % 3 == 0 ? 0 : (variant % 3 == 1 ? 1 : 3);
        for (int c = 0; c < T; ++c) s += "t" + std::to_string(c) + (c + 1 < T ? "/" : "");
        if (T == 0 && !s.empty() && s != "/" && (variant & 2)) s.pop_back();
        if (s.empty()) s = ".";
        CheckOne(s, &st, false);
        ++shaped;
      }
    }
  }
  st.shaped = shaped;
  printf("{\"evals\":%llu,\"exhaustive\":%llu,\"random\":%ld,\"changed\":%llu,"
         "\"changed_exh\":%llu,\"distinct_out\":%zu,\"mismatches\":%llu,\"idem_checks\":%llu,\"string_overload\":%llu,"
         "\"bad\":[",
         (unsigned long long)st.evals, (unsigned long long)exhaustive, nrandom,
         (unsigned long long)st.changed, (unsigned long long)st.changed_exh, st.distinct_out.size(),
         (unsigned long long)st.mismatches, (unsigned long long)st.idem_checks,
         (unsigned long long)st.string_overload);
  for (size_t i = 0; i < st.bad.size(); ++i) printf("%s\"%s\"", i ? "," : "", st.bad[i].c_str());
  printf("],\"shaped\":%llu,\"samples\":[", (unsigned long long)st.shaped);
  for (size_t i = 0; i < st.samples.size(); ++i) {
    printf("%s\"%s\"", i ? "," : "", Hex(st.samples[i]).c_str());
  }
  printf("]}\n");
  return 0;
}

#include "nprobe.h"
REGISTER_PROBE("canon", probe_canon);
