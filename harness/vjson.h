// Minimal JSON value / parser / writer for the harness (scenarios in, traces out).
#pragma once
#include <stdint.h>
#include <stdio.h>
#include <stdlib.h>
#include <string.h>
#include <map>
#include <memory>
#include <string>
#include <vector>

struct JV {
  enum T { NUL, BOOL, NUM, STR, ARR, OBJ } t = NUL;
  bool b = false;
  int64_t n = 0;
  std::string s;
  std::vector<JV> a;
  std::vector<std::pair<std::string, JV>> o;  // keeps order

  JV() {}
  JV(bool v) : t(BOOL), b(v) {}
  JV(int v) : t(NUM), n(v) {}
  JV(int64_t v) : t(NUM), n(v) {}
  JV(size_t v) : t(NUM), n((int64_t)v) {}
  JV(const char* v) : t(STR), s(v) {}
  JV(const std::string& v) : t(STR), s(v) {}
  static JV Arr() { JV v; v.t = ARR; return v; }
  static JV Obj() { JV v; v.t = OBJ; return v; }

  bool is_null() const { return t == NUL; }
  const JV* get(const std::string& k) const {
    for (auto& kv : o) if (kv.first == k) return &kv.second;
    return nullptr;
  }
  const JV& at(const std::string& k) const {
    static JV nul;
    const JV* p = get(k);
    return p ? *p : nul;
  }
  std::string str(const std::string& k, const std::string& d = "") const {
    const JV* p = get(k); return p && p->t == STR ? p->s : d;
  }
  int64_t num(const std::string& k, int64_t d = 0) const {
    const JV* p = get(k); return p && p->t == NUM ? p->n : (p && p->t == BOOL ? p->b : d);
  }
  bool boolean(const std::string& k, bool d = false) const {
    const JV* p = get(k); return p ? (p->t == BOOL ? p->b : p->t == NUM ? p->n != 0 : d) : d;
  }
  JV& set(const std::string& k, JV v) {
    for (auto& kv : o) if (kv.first == k) { kv.second = std::move(v); return kv.second; }
    t = OBJ; o.emplace_back(k, std::move(v)); return o.back().second;
  }
  JV& push(JV v) { t = ARR; a.push_back(std::move(v)); return a.back(); }

  static void Esc(const std::string& s, std::string* out) {
    out->push_back('"');
    for (unsigned char c : s) {
      switch (c) {
        case '"': *out += "\\\""; break;
        case '\\': *out += "\\\\"; break;
        case '\n': *out += "\\n"; break;
        case '\r': *out += "\\r"; break;
        case '\t': *out += "\\t"; break;
        default:
          if (c < 0x20 || c >= 0x7f) { char b[8]; snprintf(b, sizeof b, "\\u%04x", c); *out += b; }
          else out->push_back((char)c);
      }
    }
    out->push_back('"');
  }
  void Dump(std::string* out) const {
    switch (t) {
      case NUL: *out += "null"; break;
      case BOOL: *out += b ? "true" : "false"; break;
      case NUM: *out += std::to_string(n); break;
      case STR: Esc(s, out); break;
      case ARR: {
        out->push_back('[');
        for (size_t i = 0; i < a.size(); ++i) { if (i) out->push_back(','); a[i].Dump(out); }
        out->push_back(']'); break;
      }
      case OBJ: {
        out->push_back('{');
        for (size_t i = 0; i < o.size(); ++i) {
          if (i) out->push_back(',');
          Esc(o[i].first, out); out->push_back(':'); o[i].second.Dump(out);
        }
        out->push_back('}'); break;
      }
    }
  }
  std::string Dump() const { std::string r; Dump(&r); return r; }
};

// Latin-1 convention: \u00XX escapes map to single bytes (the harness only uses bytes).
struct JParser {
  const char* p; const char* e; bool ok = true;
  JParser(const std::string& s) : p(s.data()), e(s.data() + s.size()) {}
  void ws() { while (p < e && (*p == ' ' || *p == '\n' || *p == '\t' || *p == '\r')) ++p; }
  JV Parse() { ws(); JV v = Val(); ws(); return v; }
  JV Val() {
    ws();
    if (p >= e) { ok = false; return JV(); }
    if (*p == '{') {
      ++p; JV v = JV::Obj(); ws();
      if (p < e && *p == '}') { ++p; return v; }
      for (;;) {
        ws(); if (p >= e || *p != '"') { ok = false; return v; }
        std::string k = Str(); ws();
        if (p >= e || *p != ':') { ok = false; return v; }
        ++p; v.o.emplace_back(k, Val()); ws();
        if (p < e && *p == ',') { ++p; continue; }
        if (p < e && *p == '}') { ++p; return v; }
        ok = false; return v;
      }
    }
    if (*p == '[') {
      ++p; JV v = JV::Arr(); ws();
      if (p < e && *p == ']') { ++p; return v; }
      for (;;) {
        v.a.push_back(Val()); ws();
        if (p < e && *p == ',') { ++p; continue; }
        if (p < e && *p == ']') { ++p; return v; }
        ok = false; return v;
      }
    }
    if (*p == '"') return JV(Str());
    if (!strncmp(p, "true", 4)) { p += 4; return JV(true); }
    if (!strncmp(p, "false", 5)) { p += 5; return JV(false); }
    if (!strncmp(p, "null", 4)) { p += 4; return JV(); }
    char* end; long long n = strtoll(p, &end, 10);
    if (end == p) { ok = false; return JV(); }
    if (end < e && (*end == '.' || *end == 'e' || *end == 'E')) { double d = strtod(p, &end); n = (long long)d; }
    p = end; return JV((int64_t)n);
  }
  std::string Str() {
    std::string r; ++p;
    while (p < e && *p != '"') {
      if (*p == '\\' && p + 1 < e) {
        ++p;
        switch (*p) {
          case 'n': r += '\n'; break; case 't': r += '\t'; break; case 'r': r += '\r'; break;
          case 'b': r += '\b'; break; case 'f': r += '\f'; break;
          case 'u': {
            if (p + 4 < e) { char b[5] = {p[1], p[2], p[3], p[4], 0}; r += (char)strtol(b, 0, 16); p += 4; }
            break;
          }
          default: r += *p;
        }
        ++p;
      } else r += *p++;
    }
    if (p < e) ++p; else ok = false;
    return r;
  }
};
