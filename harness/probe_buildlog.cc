// nprobe buildlog: C08.  A tiny command language on stdin drives the real BuildLog through
// sessions (one BuildLog object per simulated ninja process) and file surgery in between.
//   new                               fresh BuildLog (previous one is destroyed -> Close())
//   load <path>                       -> "LOAD <ok|notfound|error> <errhex|->"
//   open <path> <deadhex,..|->        OpenForWrite with a BuildLogUser that reports those paths dead
//   rec <start> <end> <mtime> <cmdhex> <outhex,...>    RecordCommand on an edge with those outputs
//   close
//   recompact <path> <deadhex,..|->   -> "RECOMPACT <0|1> <errhex|->"
//   restat <path> <namehex:mtime,..|-> <outhex,..|->   -> "RESTAT <0|1> <errhex|->"
//   dump                              -> "E <outhex> <hash> <start> <end> <mtime>" lines, sorted, then "ENDDUMP"
//   write <path> <hex|->  / append <path> <hex> / trunc <path> <n> / rm <path>
//   read <path>                       -> "FILE <hex|-|MISSING>"
//   hash <cmdhex>                     -> "HASH <hex>"
//   mark <text>                       -> "MARK <text>"
#include <stdio.h>
#include <string.h>
#include <unistd.h>
#include <sys/stat.h>
#include <algorithm>
#include <iostream>
#include <map>
#include <memory>
#include <set>
#include <sstream>
#include <string>
#include <vector>

#include "build_log.h"
#include "disk_interface.h"
#include "graph.h"
#include "state.h"
#include "nprobe.h"

namespace {
std::string Unhex(const std::string& h) {
  if (h == "-") return "";
  std::string r;
  auto v = [](char c) { return c <= '9' ? c - '0' : c - 'a' + 10; };
  for (size_t i = 0; i + 1 < h.size(); i += 2) r += (char)(v(h[i]) * 16 + v(h[i + 1]));
  return r;
}
std::string Hex(const std::string& s) {
  if (s.empty()) return "-";
  static const char* d = "0123456789abcdef";
  std::string r;
  for (unsigned char c : s) { r += d[c >> 4]; r += d[c & 15]; }
  return r;
}
std::vector<std::string> SplitHex(const std::string& s) {
  std::vector<std::string> r;
  if (s == "-") return r;
  std::stringstream ss(s); std::string t;
  while (std::getline(ss, t, ',')) r.push_back(Unhex(t));
  return r;
}
struct User : BuildLogUser {
  std::set<std::string> dead;
  bool IsPathDead(StringPiece s) const override { return dead.count(s.AsString()) > 0; }
};
struct StubDisk : DiskInterface {
  std::map<std::string, TimeStamp> mt;
  TimeStamp Stat(const std::string& p, std::string*) const override {
    auto i = mt.find(p); return i == mt.end() ? 0 : i->second;
  }
  bool MakeDir(const std::string&) override { return true; }
  bool WriteFile(const std::string&, const std::string&, bool) override { return true; }
  Status ReadFile(const std::string&, std::string*, std::string*) override { return NotFound; }
  int RemoveFile(const std::string&) override { return 0; }
};
bool ReadWhole(const std::string& p, std::string* out) {
  FILE* f = fopen(p.c_str(), "rb");
  if (!f) return false;
  char buf[65536]; size_t n;
  while ((n = fread(buf, 1, sizeof buf, f)) > 0) out->append(buf, n);
  fclose(f);
  return true;
}
}  // namespace

static int probe_buildlog(int, char**) {
  std::unique_ptr<BuildLog> log(new BuildLog);
  User user;
  std::string line;
  std::ios::sync_with_stdio(false);
  while (std::getline(std::cin, line)) {
    std::istringstream is(line);
    std::string op; is >> op;
    if (op == "new") {
      log.reset(new BuildLog);
    } else if (op == "load") {
      std::string p, err; is >> p;
      LoadStatus st = log->Load(p, &err);
      printf("LOAD %s %s\n", st == LOAD_SUCCESS ? "ok" : st == LOAD_NOT_FOUND ? "notfound" : "error",
             Hex(err).c_str());
    } else if (op == "open") {
      std::string p, d, err; is >> p >> d;
      user.dead.clear();
      for (auto& x : SplitHex(d)) user.dead.insert(x);
      bool ok = log->OpenForWrite(p, user, &err);
      printf("OPEN %d %s\n", ok, Hex(err).c_str());
    } else if (op == "rec") {
      int st, en; long long mt; std::string cmd, outs; is >> st >> en >> mt >> cmd >> outs;
      State state;
      Rule* rule = new Rule("r");
      EvalString es; es.AddText(Unhex(cmd));
      rule->AddBinding("command", es);
      state.bindings_.AddRule(std::unique_ptr<const Rule>(rule));
      Edge* e = state.AddEdge(rule);
      std::string err;
      for (auto& o : SplitHex(outs)) state.AddOut(e, o, 0, &err);
      bool ok = log->RecordCommand(e, st, en, mt);
      printf("REC %d\n", ok);
    } else if (op == "close") {
      log->Close();
    } else if (op == "recompact") {
      std::string p, d, err; is >> p >> d;
      user.dead.clear();
      for (auto& x : SplitHex(d)) user.dead.insert(x);
      bool ok = log->Recompact(p, user, &err);
      printf("RECOMPACT %d %s\n", ok, Hex(err).c_str());
    } else if (op == "restat") {
      std::string p, mts, outs, err; is >> p >> mts >> outs;
      StubDisk disk;
      if (mts != "-") {
        std::stringstream ss(mts); std::string t;
        while (std::getline(ss, t, ',')) {
          size_t c = t.find(':');
          disk.mt[Unhex(t.substr(0, c))] = atoll(t.c_str() + c + 1);
        }
      }
      std::vector<std::string> ov = SplitHex(outs);
      std::vector<char*> ptrs;
      for (auto& o : ov) ptrs.push_back(const_cast<char*>(o.c_str()));
      bool ok = log->Restat(p, disk, (int)ptrs.size(), ptrs.data(), &err);
      printf("RESTAT %d %s\n", ok, Hex(err).c_str());
    } else if (op == "dump") {
      std::vector<std::string> rows;
      for (const auto& kv : log->entries()) {
        const BuildLog::LogEntry& e = *kv.second;
        char buf[128];
        snprintf(buf, sizeof buf, " %llx %d %d %lld", (unsigned long long)e.command_hash,
                 e.start_time, e.end_time, (long long)e.mtime);
        rows.push_back("E " + Hex(e.output) + buf);
        if (kv.first.AsString() != e.output) rows.push_back("KEYMISMATCH " + Hex(e.output));
      }
      std::sort(rows.begin(), rows.end());
      for (auto& r : rows) puts(r.c_str());
      puts("ENDDUMP");
    } else if (op == "write" || op == "append") {
      std::string p, h; is >> p >> h;
      FILE* f = fopen(p.c_str(), op == "write" ? "wb" : "ab");
      std::string d = Unhex(h);
      fwrite(d.data(), 1, d.size(), f);
      fclose(f);
    } else if (op == "trunc") {
      std::string p; long n; is >> p >> n;
      if (truncate(p.c_str(), n) != 0) puts("TRUNCFAIL");
    } else if (op == "rm") {
      std::string p; is >> p; unlink(p.c_str());
    } else if (op == "read") {
      std::string p, d; is >> p;
      if (!ReadWhole(p, &d)) puts("FILE MISSING"); else printf("FILE %s\n", Hex(d).c_str());
    } else if (op == "hash") {
      std::string c; is >> c;
      std::string cmd = Unhex(c);
      printf("HASH %llx\n", (unsigned long long)BuildLog::LogEntry::HashCommand(cmd));
    } else if (op == "mark") {
      std::string t; is >> t; printf("MARK %s\n", t.c_str());
    }
  }
  log.reset();
  fflush(stdout);
  return 0;
}
REGISTER_PROBE("buildlog", probe_buildlog);
