// nprobe depslog: C09.  Command language on stdin; each "new" is one simulated ninja process
// (fresh State + DepsLog).
//   new
//   live <outhex,...|->              declare build statements "build <out>: cc" with deps = gcc
//   load <path>                      -> "LOAD <ok|notfound|error> <errhex|->"
//   open <path>                      -> "OPEN <0|1> <errhex|->"
//   rec <outhex> <mtime> <dephex,...|->   RecordDeps        -> "REC <0|1>"
//   close
//   recompact <path>                 -> "RECOMPACT <0|1> <errhex|->"
//   dump        -> "D <outhex> <mtime> <dephex,...|->" per node with deps (sorted), "NODES <n>", "ENDDUMP"
//   write/append <path> <hex|->, trunc <path> <n>, rm <path>, read <path> -> "FILE <hex|-|MISSING>"
//   size <path> -> "SIZE <n|-1>"
//   mark <text>
#include <stdio.h>
#include <string.h>
#include <unistd.h>
#include <sys/stat.h>
#include <algorithm>
#include <iostream>
#include <memory>
#include <sstream>
#include <string>
#include <vector>

#include "deps_log.h"
#include "graph.h"
#include "state.h"
#include "nprobe.h"

namespace {
std::string Unhex(const std::string& h) {
  if (h == "-") return "";
  std::string r;
  auto v = [](char c) { return c <= '9' ? c - '0' : c - 'a' + 10; };
  for (size_t i = 0; i + 1 < h.size(); i += 2) r += (char)(v(h[i]) * 16 + v(h[i + 1]));
  return r;
}
std::string Hex(const std::string& s) {
  if (s.empty()) return "-";
  static const char* d = "0123456789abcdef";
  std::string r;
  for (unsigned char c : s) { r += d[c >> 4]; r += d[c & 15]; }
  return r;
}
std::vector<std::string> SplitHex(const std::string& s) {
  std::vector<std::string> r;
  if (s == "-" || s.empty()) return r;
  std::stringstream ss(s); std::string t;
  while (std::getline(ss, t, ',')) r.push_back(Unhex(t));
  return r;
}
bool ReadWhole(const std::string& p, std::string* out) {
  FILE* f = fopen(p.c_str(), "rb");
  if (!f) return false;
  char buf[65536]; size_t n;
  while ((n = fread(buf, 1, sizeof buf, f)) > 0) out->append(buf, n);
  fclose(f);
  return true;
}
struct Session {
  State state;
  DepsLog log;
  Rule* rule = nullptr;
  Rule* plain = nullptr;          // a rule without a deps binding: the statement (or its file) supplies it
  BindingEnv* subscope = nullptr; // a subninja-like file scope with `deps = msvc`
  Session() {
    rule = new Rule("cc");
    EvalString c; c.AddText("cc");
    rule->AddBinding("command", c);
    EvalString d; d.AddText("gcc");
    rule->AddBinding("deps", d);
    state.bindings_.AddRule(std::unique_ptr<const Rule>(rule));
    plain = new Rule("plain");
    EvalString c2; c2.AddText("cc");
    plain->AddBinding("command", c2);
    state.bindings_.AddRule(std::unique_ptr<const Rule>(plain));
    subscope = new BindingEnv(&state.bindings_);
    subscope->AddBinding("deps", "msvc");
  }
};
}  // namespace

static int probe_depslog(int, char**) {
  std::unique_ptr<Session> s(new Session);
  std::string line;
  std::ios::sync_with_stdio(false);
  while (std::getline(std::cin, line)) {
    std::istringstream is(line);
    std::string op; is >> op;
    if (op == "new") {
      s.reset(new Session);
    } else if (op == "live") {
      std::string outs; is >> outs;
      for (auto& o : SplitHex(outs)) {
        // where the statement gets its `deps` from: the rule, its own block, or the file it is written in
        unsigned h = 0; for (unsigned char ch : o) h = h * 131 + ch;
        Edge* e = s->state.AddEdge(h % 3 == 0 ? s->rule : s->plain);
        if (h % 3 == 1) {
          e->env_ = new BindingEnv(&s->state.bindings_);
          e->env_->AddBinding("deps", "gcc");
          e->env_is_enclosing_scope_ = false;
        } else if (h % 3 == 2) {
          e->env_ = s->subscope;
          e->env_is_enclosing_scope_ = true;
        }
        std::string err;
        s->state.AddOut(e, o, 0, &err);
      }
    } else if (op == "load") {
      std::string p, err; is >> p;
      LoadStatus st = s->log.Load(p, &s->state, &err);
      printf("LOAD %s %s\n", st == LOAD_SUCCESS ? "ok" : st == LOAD_NOT_FOUND ? "notfound" : "error",
             Hex(err).c_str());
    } else if (op == "open") {
      std::string p, err; is >> p;
      bool ok = s->log.OpenForWrite(p, &err);
      printf("OPEN %d %s\n", ok, Hex(err).c_str());
    } else if (op == "rec") {
      std::string out, deps; long long mt; is >> out >> mt >> deps;
      Node* n = s->state.GetNode(Unhex(out), 0);
      std::vector<Node*> dn;
      for (auto& d : SplitHex(deps)) dn.push_back(s->state.GetNode(d, 0));
      bool ok = s->log.RecordDeps(n, mt, dn);
      printf("REC %d\n", ok);
    } else if (op == "recmany") {
      // recmany <outhex> <mtime> <count> <prefixhex>: RecordDeps with <count> dependencies named <prefix><i>
      std::string out, pre; long long mt; long cnt; is >> out >> mt >> cnt >> pre;
      Node* n = s->state.GetNode(Unhex(out), 0);
      std::vector<Node*> dn;
      std::string prefix = Unhex(pre);
      for (long i = 0; i < cnt; ++i) dn.push_back(s->state.GetNode(prefix + std::to_string(i), 0));
      bool ok = s->log.RecordDeps(n, mt, dn);
      printf("REC %d\n", ok);
    } else if (op == "dumpcounts") {
      // "DC <outhex> <mtime> <count> <fnv of the dependency names>" per node with deps
      const std::vector<Node*>& nodes = s->log.nodes();
      std::vector<std::string> rows;
      for (size_t i = 0; i < nodes.size(); ++i) {
        Node* n = nodes[i];
        if (!n) continue;
        DepsLog::Deps* d = s->log.GetDeps(n);
        if (!d) continue;
        unsigned long long h = 1469598103934665603ull;
        for (int k = 0; k < d->node_count; ++k) {
          const std::string& pth = d->nodes[k]->path();
          for (unsigned char c : pth) { h ^= c; h *= 1099511628211ull; }
          h ^= 0xff; h *= 1099511628211ull;
        }
        rows.push_back("DC " + Hex(n->path()) + " " + std::to_string((long long)d->mtime) + " " + std::to_string(d->node_count) + " " + std::to_string(h));
      }
      std::sort(rows.begin(), rows.end());
      for (auto& r : rows) puts(r.c_str());
      puts("ENDDUMP");
    } else if (op == "close") {
      s->log.Close();
    } else if (op == "recompact") {
      std::string p, err; is >> p;
      bool ok = s->log.Recompact(p, &err);
      printf("RECOMPACT %d %s\n", ok, Hex(err).c_str());
    } else if (op == "dump") {
      std::vector<std::string> rows;
      const std::vector<Node*>& nodes = s->log.nodes();
      for (size_t i = 0; i < nodes.size(); ++i) {
        Node* n = nodes[i];
        if (!n) continue;
        if (n->id() != (int)i) rows.push_back("IDMISMATCH " + Hex(n->path()));
        DepsLog::Deps* d = s->log.GetDeps(n);
        if (!d) continue;
        std::string r = "D " + Hex(n->path()) + " " + std::to_string((long long)d->mtime) + " ";
        for (int k = 0; k < d->node_count; ++k) {
          if (k) r += ",";
          r += d->nodes[k] ? Hex(d->nodes[k]->path()) : std::string("NULL");
        }
        if (d->node_count == 0) r += "-";
        rows.push_back(r);
      }
      std::sort(rows.begin(), rows.end());
      for (auto& r : rows) puts(r.c_str());
      printf("NODES %zu\n", nodes.size());
      puts("ENDDUMP");
    } else if (op == "write" || op == "append") {
      std::string p, h; is >> p >> h;
      FILE* f = fopen(p.c_str(), op == "write" ? "wb" : "ab");
      std::string d = Unhex(h);
      fwrite(d.data(), 1, d.size(), f);
      fclose(f);
    } else if (op == "cp" || op == "cptrunc") {
      // cp <src> <dst> / cptrunc <src> <dst> <n>: what a process that died mid-way leaves behind under another name
      std::string a, b2, d; long n = -1; is >> a >> b2; if (op == "cptrunc") is >> n;
      if (ReadWhole(a, &d)) {
        if (n >= 0 && (size_t)n < d.size()) d.resize(n);
        FILE* f = fopen(b2.c_str(), "wb");
        if (f) { fwrite(d.data(), 1, d.size(), f); fclose(f); }
      }
    } else if (op == "trunc") {
      std::string p; long n; is >> p >> n;
      if (truncate(p.c_str(), n) != 0) puts("TRUNCFAIL");
    } else if (op == "rm") {
      std::string p; is >> p; unlink(p.c_str());
    } else if (op == "read") {
      std::string p, d; is >> p;
      if (!ReadWhole(p, &d)) puts("FILE MISSING"); else printf("FILE %s\n", Hex(d).c_str());
    } else if (op == "size") {
      std::string p; is >> p; struct stat st;
      printf("SIZE %lld\n", stat(p.c_str(), &st) == 0 ? (long long)st.st_size : -1LL);
    } else if (op == "mark") {
      std::string t; is >> t; printf("MARK %s\n", t.c_str());
    }
    fflush(stdout);
  }
  return 0;
}
REGISTER_PROBE("depslog", probe_depslog);
