// nprobe depfile: C15.  stdin: one hex-encoded depfile per line.  stdout per line:
//   OK <hex out>,<hex out>... ; <hex in>,...      or     ERR <hex message>
#include <stdio.h>
#include <string.h>
#include <iostream>
#include <string>
#include "depfile_parser.h"
#include "nprobe.h"

static std::string Hex(const char* p, size_t n) {
  static const char* d = "0123456789abcdef";
  std::string r;
  for (size_t i = 0; i < n; ++i) { unsigned char c = p[i]; r += d[c >> 4]; r += d[c & 15]; }
  return r;
}
static std::string Unhex(const std::string& h) {
  std::string r;
  for (size_t i = 0; i + 1 < h.size(); i += 2) {
    auto v = [](char c) { return c <= '9' ? c - '0' : c - 'a' + 10; };
    r += (char)(v(h[i]) * 16 + v(h[i + 1]));
  }
  return r;
}

static int probe_depfile(int, char**) {
  std::string line;
  std::ios::sync_with_stdio(false);
  while (std::getline(std::cin, line)) {
    std::string content = Unhex(line);
    // exact-capacity string so that ASan sees reads past the terminating NUL
    std::string exact;
    exact.reserve(content.size());
    exact.assign(content);
    DepfileParser p;
    std::string err;
    if (!p.Parse(&exact, &err)) {
      printf("ERR %s\n", Hex(err.data(), err.size()).c_str());
      continue;
    }
    std::string o = "OK ";
    for (size_t i = 0; i < p.outs_.size(); ++i) {
      if (i) o += ",";
      o += Hex(p.outs_[i].str_, p.outs_[i].len_);
      if (p.outs_[i].len_ == 0) o += "-";
    }
    o += " ; ";
    for (size_t i = 0; i < p.ins_.size(); ++i) {
      if (i) o += ",";
      o += Hex(p.ins_[i].str_, p.ins_[i].len_);
      if (p.ins_[i].len_ == 0) o += "-";
    }
    puts(o.c_str());
  }
  return 0;
}
REGISTER_PROBE("depfile", probe_depfile);
